"""Rebase a stored diff over a later `fix:` commit of /repo (development tool).

usage: python3 tools/rebase_patch.py <old-commit> <patch> <relpath> <old-text> <new-text>
The patch is applied to a scratch copy of <old-commit>; in the patched <relpath>, <old-text> is
replaced by <new-text> (the hand-written combination of the stored change and the fix); the diff
of the scratch copy against /repo's HEAD replaces the stored patch.
"""
import os
import shutil
import subprocess
import sys
import tempfile

old, patch, rel, a, b = sys.argv[1:6]
a = a.encode().decode("unicode_escape")
b = b.encode().decode("unicode_escape")
tmp = tempfile.mkdtemp(prefix="nfv-rebase-")
try:
    for name, rev in (("old", old), ("new", "HEAD")):
        d = os.path.join(tmp, name)
        os.makedirs(d)
        tar = subprocess.run(["git", "-C", "/repo", "archive", rev], capture_output=True, check=True).stdout
        subprocess.run(["tar", "-x", "-C", d], input=tar, check=True)
        subprocess.run(["git", "init", "-q"], cwd=d, check=True)
        subprocess.run(["git", "add", "-A"], cwd=d, check=True)
        subprocess.run(["git", "-c", "user.email=x@x", "-c", "user.name=x", "commit", "-qm", "base"], cwd=d, check=True)
    subprocess.run(["git", "apply", os.path.abspath(patch)], cwd=os.path.join(tmp, "old"), check=True)
    # files the patch changed, as patched on the old commit
    changed = subprocess.run(["git", "diff", "--name-only"], cwd=os.path.join(tmp, "old"), capture_output=True, text=True, check=True).stdout.split()
    for f in changed:
        src = open(os.path.join(tmp, "old", f)).read()
        if f == rel:
            if a not in src:
                sys.exit("old text not found in the patched %s" % f)
            src = src.replace(a, b, 1)
        open(os.path.join(tmp, "new", f), "w").write(src)
    out = subprocess.run(["git", "diff", "--", "nflows"], cwd=os.path.join(tmp, "new"), capture_output=True, text=True, check=True).stdout
    open(patch, "w").write(out)
    print("rebased %s (%d lines)" % (patch, out.count("\n")))
finally:
    shutil.rmtree(tmp, ignore_errors=True)
