"""Per-property texts for MANIFEST.json (level text, level note, technique)."""

TEXTS = {
    "C13": {
        "level_text": "Sound may-alias ownership/effect analysis over every evaluation entry point and every write form: a violation is a named write statement whose target may alias a caller argument or model state outside the effect table. Decides argument/state immutability for all inputs, modes and call histories at once (the behaviourally relevant half of C13); bit-identical repetition is assumed to follow from purity plus deterministic kernels.",
        "design_ref": "DESIGN.md 1.4, 2.C13",
        "level_note": "Trusted: T-OPS alias/allocate table, A-NET (user networks return fresh tensors and do not mutate inputs), A-UMNN, supported fact on HouseholderSequence (re-checked each run).",
        "technique": "static ownership/effect abstract interpretation (interprocedural may-alias dataflow on the AST)",
    },
    "C10": {
        "level_text": "Exhaustive over the abstract history space: the transfer function of every life-cycle method is derived from its body on each run, environment events follow nn.Module's documented treatment of plain attributes, and the least fixpoint of reachable (training, using_cache, {None,Fresh,Stale}^3) states under all event sequences of any length is computed; a stale or unfilled read is reported with the shortest history. Structural companion rules decide field/accessor agreement, guard, sign and bias placement of the cached branch. Numeric equality of cached and uncached results is out of reach and not claimed.",
        "design_ref": "DESIGN.md 1.7, 2.C10, A.2",
        "level_note": "Trusted: T-NN (plain attributes are not converted, saved or loaded; Module.train/_apply/_load_from_state_dict semantics), A-API, purity of the accessors (C13). The open defect D11 (graph-attached memo) is listed in known_findings.json.",
        "technique": "static typestate analysis: transfer functions derived from method bodies, least fixpoint over all event sequences; AST pair rules",
    },
    "C14": {
        "level_text": "Exhaustive over abstract histories of {train, eval, forward, inverse, save+load}: reachable-state fixpoint with transfer functions derived from the ActNorm/BatchNorm method bodies; life-cycle predicates (init at most once, only by a training-mode forward, must-write of flag/scale/shift, flag survives reload, purity of inverse/eval) are checked on every transition. BatchNorm's statistics routing is decided by a mode-split taint analysis and the momentum recurrence by polynomial normalisation. The zero-mean/unit-variance numerics of the initialised batch are out of reach.",
        "design_ref": "DESIGN.md 1.7, 2.C14",
        "level_note": "Trusted: T-NN (which attribute kinds travel in a state dict), T-OPS (which operations reduce over the batch axis / detach), A-API.",
        "technique": "static typestate fixpoint + mode-split taint dataflow + polynomial normal form of the update statement",
    },
    "C06": {
        "level_text": "A typing argument, not a search: x : Deg(d) means unit k depends only on inputs j <= d[k]. The checker enumerates the obligations of that type system on both MADE copies independently (mask comparison direction/strictness/orientation, weight*mask on every path, who-may-write mask/degrees, constructor wiring vs. forward by induction over the block list, degree-preserving operations only, residual-degree guard, tile layout, feature-major consumers, one inverse pass per feature) and discharges each syntactically. All obligations discharged gives strict autoregressiveness for every feature count, width, block count and type, mask draw, context setting, multiplier and every weight value at once, which no sampled gradient test can reach.",
        "design_ref": "DESIGN.md 1.6, 2.C06, A.1",
        "level_note": "Trusted base: the obligation checker itself (nfstatic/rules/c06.py), the semantics of F.linear / broadcasting comparison / repeat-reshape-transpose in T-OPS, A-NET (activation callables are elementwise), nn.BatchNorm1d and nn.Dropout act per feature. obligations == discharged on the pinned tree.",
        "technique": "static type system (degree typing) with syntactically discharged obligations; who-may-write and sibling cross-check of the two copies",
    },
    "C15": {
        "level_text": "Sound necessary condition decided by dataflow: every constructor is abstractly interpreted with an RNG taint, every evaluation entry point for its read set and write set; a function-determining value (random draw, mutated statistic/flag/parameter, sub-module) that is not a parameter, persistent buffer or registered module is reported at the storing statement. Covers all classes, configurations and constructor branches at once. Bit-identity of the reloaded function is not decided; it follows from this plus determinism of torch kernels (assumed).",
        "design_ref": "DESIGN.md 1.5, 2.C15",
        "level_note": "Trusted: T-NN (what travels in a state dict), T-OPS list of random sources, the premise that both models are built with equal constructor arguments.",
        "technique": "static taint dataflow over constructors (RNG provenance) joined with evaluation-path read/write sets and attribute-kind classification",
    },
    "C16": {
        "level_text": "Necessary condition for differentiability decided for all inputs and parameters: a may-dependence analysis over every differentiable entry point proves that no value produced by detach/.data/.item()/no_grad/torch.tensor(tensor) reaches a returned float result in a value position (index and comparison positions are exempt), and that every nn.Parameter reaches some result. Gradient values versus finite differences, finiteness, and the third-party integrator's backward are out of reach and not claimed.",
        "design_ref": "DESIGN.md 1.5, 2.C16",
        "level_note": "Trusted: T-OPS (which operations sever the graph / are piecewise constant), A-NET, A-UMNN, autograd's own correctness.",
        "technique": "static interprocedural taint analysis (gradient-severing sources to returned-value sinks) + parameter reachability",
    },
    "C07": {
        "level_text": "Proof-like for the information-flow half: for every mask, size, direction and parameter value, the conditioner's arguments are shown (by label flow over CouplingTransform.forward/inverse under both unconditional-transform scenarios) to derive only from the identity gather and the context, the identity positions receive the very gathered value when no unconditional transform exists, each split is scattered with the buffer it was gathered with on every path, and the two buffers partition arange(features) by complementary predicates of the same mask. Monotonicity of the elementwise map belongs to C09; elementwise-ness inside the spline bodies is not decided.",
        "design_ref": "DESIGN.md 1.5, 2.C07",
        "level_note": "Trusted: index gather/scatter are exact copies (T-OPS), A-NET, A-UMNN. The concrete subclasses' hooks are only checked for completeness and direction flag.",
        "technique": "static information-flow (taint) analysis with mode scenarios + condition normaliser for the partition predicates",
    },
    "C12": {
        "level_text": "Necessary conditions covering the enumerated row-mixing mechanisms for all batch sizes and inputs: (1) in the evaluation-mode scenario no batch-axis/global reduction of a row-dependent tensor reaches any result or steers non-guard control flow, over all given-rows entry points; (2) masked gather/scatter statements use one mask throughout; (3) permute/reshape merges of pixels into the batch are exactly undone; (4) BatchNorm uses running statistics in evaluation mode. A mixing mechanism outside these (inside a user network) is not seen.",
        "design_ref": "DESIGN.md 2.C12",
        "level_note": "Trusted: T-OPS (which operations reduce, over which dim), T-NN eval-mode semantics of nn.BatchNorm1d/Dropout in user networks, A-NET. Definite-error policy: reductions with a non-constant dim are not classified as batch reductions except through the sum_except_batch summary.",
        "technique": "static taint analysis under a mode scenario + AST pair rules for masks and permute/reshape",
    },
    "C19": {
        "level_text": "ONLY two structural clauses of C19 are decided. (1) NUM-LOGSPACE, a necessary condition of 'stays finite': no tensor log is taken of a prod / cumprod / det reduction (log-dets are sums of logs; a product of 50 factors 0.1 is 0.0 in float32). (2) The last sentence ('results carry the dtype of the inputs'; a .double() model evaluates without a dtype error): a dtype-provenance abstract interpretation over every forward/inverse/accessor of transforms, log_prob of distributions and the spline functions reports (DT-MIX) a default-dtype tensor meeting a model-dtype tensor in a non-promoting operand position and (DT-RESULT) a returned tensor whose dtype can only come from a default-dtype constructor or float32 cast. The main body -- float32 agrees with float64 to single-precision accuracy scaled by conditioning, finiteness on moderate inputs -- is numerical analysis about cancellation in specific formulas; no sound static argument in reach bounds it, and it is NOT claimed.",
        "design_ref": "DESIGN.md 1.8, 2.C19",
        "level_note": "Trusted: T-OPS same-dtype-only operand table and torch promotion order; inputs and parameters share one floating dtype; A-NET, A-UMNN. Definite-error policy: only operands whose provenance set is exactly {D} / exactly {M} are reported.",
        "technique": "static dtype-provenance abstract interpretation + log-of-product lint over resolved locals (partial claim: dtype clause and log-space clause only; numeric agreement declined)",
    },
    "C03": {
        "level_text": "Necessary conditions only: the three ways the code can assemble a wrong density that shape-only tests cannot see. Flow._log_prob is expanded symbolically on every path and must be exactly +base.log_prob(noise) + logabsdet with both components from one forward call on the inputs and the same embedded context; the Gaussian bases' log-densities must have exactly the negative quadratic / log-std / shape-only normaliser terms. That the density integrates to one is an integral over the whole input space and is NOT decided; the 'onto' half for bounded transformers is referred to the C09 rules.",
        "design_ref": "DESIGN.md 1.3, 2.C03",
        "level_note": "Trusted: the transform contract (forward returns (noise, log|det J|)); the value of the normalising constant is deliberately not compared (a frozen-constant rule would be a false alarm in waiting).",
        "technique": "static path-wise symbolic expansion + signed-sum normal form (term accounting); partial claim",
    },
    "C04": {
        "level_text": "Necessary conditions for row-by-row agreement of samples and densities: symbolic expansion proves sample_and_log_prob returns (inverse(noise)[0], base_lp - inverse(noise)[1]) from one base draw and one inverse call, Flow.sample inverts base noise, all three entry points condition the base distribution and the transform on one and the same function of the context (SLP-CTX), and an abstract leading-axis layout (rows / pair / merged(outer, inner) / fresh noise) evaluated over the eight samplers shows that merged [rows x samples] axes are built, combined and split in one order (LEAD-LAYOUT: noise drawn sample-major, tiled contexts, per-row parameters broadcast onto the sample axis are definite errors). The statistical half -- samples follow exp(log_prob) -- is out of reach and NOT claimed.",
        "design_ref": "DESIGN.md 2.C04",
        "level_note": "Trusted: helper semantics of repeat_rows/merge_leading_dims/split_leading_dim (checked under C20), the transform contract, A-API.",
        "technique": "static symbolic expansion with signed-sum normal form + call-site pairing rule for row replication",
    },
    "C18": {
        "level_text": "Guard-dominance and shape-role rules for the Distribution interface, for all argument values: the documented exception types guard every use of the validated argument; batches are concatenated along the sample axis in both context cases (decided from path conditions); full batches plus a positive remainder are drawn with the same context; every sampler returns [rows, num_samples, ...]. 'Batching leaves the distribution unchanged' is statistical and not claimed beyond these structural conditions.",
        "design_ref": "DESIGN.md 2.C18",
        "level_note": "Trusted: typechecks.is_positive_int as specified (C20 UT-PRED); A-API. The defect D1 (cat along dim 0 with a context) was repaired in /repo (fix: commit 8f1efd2).",
        "technique": "static guard dominance over structured control flow + path-condition reasoning on the concatenation axis + normal-form comparison",
    },
    "C05": {
        "level_text": "Interface-level necessary conditions, for every Distribution subclass and every context case: public entry points resolve to tensor-returning code (no unresolved attribute, no method returned uncalled), optional parameters are never dereferenced while possibly None (interprocedural, with rejecting-callee summaries), log-density terms / reduction axes / parameter roles of the Bernoulli, Gaussian and mixture families are accounted for by signed-sum normal forms, and sampler row pairing is row-major. Normalising constants, sampling laws and means as expectations are integrals/statistics: NOT decided (including the observed defect in LotkaVolterraOscillating's truncation normaliser).",
        "design_ref": "DESIGN.md 2.C05",
        "level_note": "Trusted: A-NET (context encoders), torch.distributions objects behave as documented, A-API. D2 (mean returns a method) and D3 (sample dereferences a None context) were repaired in /repo.",
        "technique": "static abstract interpretation (name/attribute resolution, None-ness dataflow) + signed-sum term accounting",
    },
    "C08": {
        "level_text": "Strong structural check for all nestings, stage counts, shapes and split dimensions: _cascade is expanded symbolically (outputs threaded, log-dets summed from zeros, sequence iterated in order), forward / inverse / the constructor's stored list are put into a sequence normal form (base list, reversed?, element map) so that inverse must be (inverse, reversed) of the stored list in any spelling and every element-wise inversion of a part list anywhere in base.py must come with a reversal, InverseTransform swaps directions with arguments passed through, and the multiscale transform's constructor bookkeeping, forward and inverse are cross-checked as a pair (ceil/floor sizes at split_dim-1 vs torch.chunk at split_dim, emitted-first/carried-second vs cat order, slice boundaries = cumulative recorded sizes, reverse consumption, unsplit last stage, log-det accumulation, single append). Order is unobservable to the suite (its parts commute); here it is decided from the code. Numeric equality with hand-chained parts follows given T-OPS and is not separately established.",
        "design_ref": "DESIGN.md 2.C08",
        "level_note": "Trusted: T-OPS (torch.chunk sizes, cat/reshape/view semantics), the Transform contract of the parts, A-API (add_transform is called num_transforms times as documented).",
        "technique": "static symbolic expansion + pair rules (constructor/forward/inverse) with alpha-normalised expressions",
    },
    "C09": {
        "level_text": "Necessary conditions for 'increasing bijection of the box, identity in tails', decided for all bin counts, boxes and parameter values on the symbolic expansion of the four spline families (siblings cross-checked against one template): exact end-point pinning of every searched knot vector, forward/inverse knot-side and box agreement, positivity of bin sizes and knot derivatives by a sign lattice under the ValueError guards, closed inside mask with a provably complementary outside mask, identity tails, square inner box, forwarded hyper-parameters and boundary-derivative constant, clamp and index repair. Continuity and strict monotonicity across bins (inequalities between computed numbers) and the C1 junction identity are out of reach and NOT claimed.",
        "design_ref": "DESIGN.md 1.8, 1.10, 2.C09",
        "level_note": "Trusted: A-CFG (hyper-parameters have the sign of their defaults), T-OPS (softmax/softplus/exp positive; F.pad, cumsum, gather semantics), the bin-search helper (C20 UT-SEARCH).",
        "technique": "static symbolic expansion + family/sibling template + sign lattice + condition normaliser",
    },
    "C17": {
        "level_text": "Necessary conditions for 'out-of-domain rejected, in-domain accepted', for all inputs and boxes: each restricted entry's InputOutsideDomain guard is the first use of the raw input and equals the slot table in bound and strictness; the tail junction is routed to the spline by a closed mask; Sigmoid.inverse clamps between guard and logs; square-box call sites for the three splines that assume it; and the absolute right-edge epsilon of the bin search meets unit knots only (EPS-UNITS) -- the rule that found the large-tail-bound index error repaired in /repo. Finiteness of results for every in-domain input is a value question and NOT claimed.",
        "design_ref": "DESIGN.md 1.7, 1.8, 2.C17",
        "level_note": "Trusted: the slot table of (entry, bound, open/closed) confirmed against docstrings and tests; T-OPS; searchsorted adds eps to the last knot only (C20).",
        "technique": "static guard dominance with canonical min/max atoms + units lattice on knot vectors + call-site rule",
    },
    "C20": {
        "level_text": "Structural specification checks for every exported helper, for all shapes and arguments: no helper mutates an argument (ownership analysis), reshape helpers have the documented symbolic layout and are single reshapes of one row-major buffer, sum_except_batch reduces exactly the non-batch axes, the bin search is the half-open comparator sum with the epsilon on the last knot only, mask constructors have the stated pattern/count structure, predicates and TypeError validation have their documented structure, helper dtypes follow their tensor arguments, and cbrt/logabsdet handle signs. Cube-root and log-abs-det numerics are NOT decided.",
        "design_ref": "DESIGN.md 2.C20",
        "level_note": "Trusted: T-OPS (reshape/expand/repeat/transpose layouts, multinomial without replacement, slogdet components). D5 (searchsorted mutated its argument) and the KDE dtype defect were repaired in /repo.",
        "technique": "static ownership analysis + symbolic layout evaluation + normal-form comparison of helper bodies + dtype provenance",
    },
    "C01": {
        "level_text": "Three structural necessary conditions every correct log-det must satisfy, which the suite's only log-det assertion (forward + inverse = 0) cannot see because errors in them are symmetric: no log-det of a part is dropped (call-site labels must reach the returned log-det on every return, zero log-dets computed not listed), the returned log-det is batch-shaped and reduced over the non-batch axes exactly once (constant-dim special cases with a definite-error policy), and broadcast multiplicities (h*w, per-pixel, per-element) are carried. That each closed-form expression equals the derivative of the output formula is an identity between real functions and is NOT decided.",
        "design_ref": "DESIGN.md 2.C01, 1.9 (axes_lite fallback)",
        "level_note": "Trusted: A-NET, A-UMNN, T-OPS. LD-SHAPE uses the lite fallback of the axes engine: forms outside the special cases are counted (baseline recorded in the evidence), never reported. D10 (GatedLinearUnit) was repaired in /repo.",
        "technique": "static taint dataflow with call-site labels (must-reach at returns) + shape special-case rules on symbolic expansions",
    },
    "C02": {
        "level_text": "Direction-pairing necessary conditions for all classes including the ones the suite never runs in both directions: signed-leaf normal forms of the two returned log-dets are negations (or carry log-leaves of opposite sign), delegations pass the right inverse flag, the squeeze guard uses the configuration forward used, constructed positive quantities stay positive where logged or divided; knot-side agreement, autoregressive inverse passes and reversed order are decided by the C09/C06/C08 rules. Round-trip error, finiteness, root selection and division by zero at degenerate parameters are value questions and NOT decided.",
        "design_ref": "DESIGN.md 2.C02",
        "level_note": "Trusted: A-CFG, A-NET, A-UMNN, T-OPS. D4 (squeeze guard) was repaired in /repo.",
        "technique": "static symbolic expansion + signed-leaf normal forms (pair rule) + polynomial normal form + sign lattice",
    },
    "C11": {
        "level_text": "Algebraic agreement of the linear-family accessors for every parameter value: every accessor, both no-cache passes and both combined accessors of LU, QR, SVD and naive are interpreted, without running them, in the free group with transposition over the factor matrices (LIN-WORD): with W = weight(), weight_inverse() = W^-1, forward = X W^T + b, inverse = (X - b) W^-T, combined accessors return W / W^-1, each triangular solve is given the flags of its factor, Householder matrix() = Q^-1; (LIN-LOGDET) logabsdet(), the combined accessors and the forward pass carry + the sum over W's factors of sum(log diag), the inverse pass its negation; plus accessor completeness over the class hierarchy, positivity of the factor diagonals by the sign lattice and the exact reversal of the Householder reflections. Equal normal forms imply equal matrices for every parameter value; an operation outside the table makes the accessor undecided (exit 2), not a violation. Numeric inverse accuracy and usability for every accepted size are value facts and NOT decided.",
        "design_ref": "DESIGN.md 2.C11, 8.5",
        "level_note": "Trusted: A-CFG (eps > 0), T-OPS (F.linear, @, solve_triangular, lu_solve, inverse, diag semantics; softplus/exp positive); np.tril_indices(k=-1) / triu_indices(k=1) / diag_indices index the strict lower / strict upper / diagonal entries; ORTH-REV for the meaning of the orthogonal atoms.",
        "technique": "static abstract interpretation into a matrix-word normal form (free group with transposition) + call-graph completeness + sign lattice",
    },
}

NOT_CLAIMED = {}
