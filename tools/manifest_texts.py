"""Per-property texts for MANIFEST.json (level text, level note, technique)."""

TEXTS = {
    "C13": {
        "level_text": "Sound may-alias ownership/effect analysis over every evaluation entry point and every write form: a violation is a named write statement whose target may alias a caller argument or model state outside the effect table. Decides argument/state immutability for all inputs, modes and call histories at once (the behaviourally relevant half of C13); bit-identical repetition is assumed to follow from purity plus deterministic kernels.",
        "design_ref": "DESIGN.md 1.4, 2.C13",
        "level_note": "Trusted: T-OPS alias/allocate table, A-NET (user networks return fresh tensors and do not mutate inputs), A-UMNN, supported fact on HouseholderSequence (re-checked each run).",
        "technique": "static ownership/effect abstract interpretation (interprocedural may-alias dataflow on the AST)",
    },
}

NOT_CLAIMED = {}
