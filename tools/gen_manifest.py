"""Regenerates /verif/MANIFEST.json from the rule registry (nfstatic.rules.PROPERTIES) and
tools/manifest_texts.py.  Properties without a registered check are listed under
not_applicable with the reason recorded in manifest_texts.NOT_CLAIMED."""
import json
import os
import sys

sys.path.insert(0, os.path.dirname(os.path.dirname(os.path.abspath(__file__))))
from nfstatic.rules import PROPERTIES  # noqa: E402
from tools.manifest_texts import TEXTS, NOT_CLAIMED  # noqa: E402

ALL = ["C%02d" % i for i in range(1, 21)]


def main():
    checks = []
    na = []
    for pid in ALL:
        if pid in PROPERTIES and pid in TEXTS:
            t = TEXTS[pid]
            spec = PROPERTIES[pid]
            checks.append(
                {
                    "property_id": pid,
                    "quick_cmd": "python3 -m nfstatic.check %s --tier quick" % pid,
                    "thorough_cmd": "python3 -m nfstatic.check %s --tier thorough" % pid,
                    "evidence_file": "/verif/evidence/%s.json" % pid,
                    "replay_cmd_template": "python3 -m nfstatic.check %s --replay {path}" % pid,
                    "engine": "nfstatic",
                    "level_claimed": {"category": spec.get("level", "other"), "text": t["level_text"], "design_ref": t["design_ref"]},
                    "level_note": t["level_note"],
                    "technique": t["technique"],
                }
            )
        else:
            na.append({"property_id": pid, "reason": NOT_CLAIMED.get(pid, "check not implemented yet in this round; see DESIGN.md section 2 for the planned static rules")})
    m = {
        "version": 1,
        "setup_cmd": "python3 -m nfstatic.selfcheck",
        "hooks": {
            "guard": "NFLOWS_VERIF",
            "enable": "no hooks: the checks parse /repo/nflows with the standard-library ast module and never run it",
            "baseline_off_cmd": "cd /repo && /venv/bin/python -m pytest -ra -q -p no:cacheprovider --timeout=900 --continue-on-collection-errors",
            "source_commits": [],
            "add_only": True,
        },
        "engines": [
            {
                "name": "nfstatic",
                "path": "/verif/nfstatic",
                "serves_properties": [c["property_id"] for c in checks],
                "kind_free_text": "repository-specific static analysis on Python syntax trees: program model (imports, MRO, attribute kinds), context-sensitive abstract interpreter with pluggable domains (ownership, taint, dtype provenance, sign), typestate fixpoints, degree typing, pair/sibling templates; stdlib only",
            }
        ],
        "checks": checks,
        "not_applicable": na,
        "notes": "Static analysis only (see DESIGN.md). Exit 0 = held / only known findings, 1 = VIOLATION, 2 = ANALYSIS-INCOMPLETE (never a silent pass). known_findings.json is read-only at run time.",
    }
    with open(os.path.join(os.path.dirname(os.path.dirname(os.path.abspath(__file__))), "MANIFEST.json"), "w") as f:
        json.dump(m, f, indent=1)
    print("claimed:", [c["property_id"] for c in checks])
    print("not claimed:", [n["property_id"] for n in na])


if __name__ == "__main__":
    main()
