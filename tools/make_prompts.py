"""Write the sub-agent prompts for seeded breaking changes (development tool).

usage: python3 tools/make_prompts.py <round-tag>     e.g. seed3  ->  /tmp/prompts/Cxx.txt for worktrees /tmp/<round-tag>-Cxx
Each prompt contains only the text of one property (the JSON record) and the task; nothing of /verif.
"""
import json
import os
import sys

tag = sys.argv[1] if len(sys.argv) > 1 else "seed3"
tmpl = open(os.path.join(os.path.dirname(__file__), "prompts", "seed-template.txt")).read()
extra = sys.argv[2] if len(sys.argv) > 2 else ""
os.makedirs("/tmp/prompts", exist_ok=True)
for line in open("/verif/properties.jsonl"):
    d = json.loads(line)
    text = tmpl.replace("{prop}", json.dumps(d, indent=1)).replace("{wt}", "/tmp/%s-%s" % (tag, d["id"]))
    if extra:
        text += "\n\nAdditional guidance: " + extra + "\n"
    open("/tmp/prompts/%s.txt" % d["id"], "w").write(text)
print("prompts written for", tag)
