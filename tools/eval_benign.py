"""Run all twenty checks against behaviour-preserving variants (development tool).

usage: python3 tools/eval_benign.py <dir with *.diff> [--keep]

Each diff is applied to a scratch copy of /repo's HEAD tree (removed afterwards); every check must
exit 0.  With --keep the diffs that were evaluated are copied to /verif/benign/<name>.diff together
with the verdicts in /verif/benign/INDEX.json (regression material for `selftest.run_benign_diffs`).

/verif/benign/EXPECTED.json lists the (diff, property) pairs whose report is *correct*: a behaviour-preserving
diff that moves a recorded known finding (a genuine defect of the tree, keyed by call site) to another call
site is reported as the same defect at an unlisted site.  Those pairs are shown as `expected` and not counted.
"""
import concurrent.futures as cf
import json
import os
import shutil
import subprocess
import sys
import tempfile

PROPS = ["C%02d" % i for i in range(1, 21)]


def one(path):
    tmp = tempfile.mkdtemp(prefix="nfv-bn-")
    try:
        subprocess.run("git -C /repo archive HEAD | tar -x -C %s" % tmp, shell=True, check=True)
        r = subprocess.run("git apply --whitespace=nowarn %s" % path, shell=True, cwd=tmp, capture_output=True, text=True)
        if r.returncode != 0:
            return path, {"_patch": r.stderr[:300]}
        bad = {}
        for prop in PROPS:
            r = subprocess.run([sys.executable, "-m", "nfstatic.check", prop, "--repo", tmp], cwd="/verif", capture_output=True, text=True, env=dict(os.environ, NFSTATIC_REPO=tmp, NFSTATIC_NOWRITE="1"))
            if r.returncode != 0:
                lines = [l[:300] for l in r.stdout.splitlines() if ("] " in l and l.startswith("nflows")) or "ANALYSIS" in l]
                bad[prop] = {"rc": r.returncode, "lines": lines[:4]}
        return path, bad
    finally:
        shutil.rmtree(tmp, ignore_errors=True)


def expected():
    try:
        return json.load(open("/verif/benign/EXPECTED.json"))
    except OSError:
        return {}


def main():
    d = sys.argv[1]
    exp = expected()
    keep = "--keep" in sys.argv
    diffs = sorted(os.path.join(d, f) for f in os.listdir(d) if f.endswith(".diff"))
    nbad = 0
    index = {}
    with cf.ThreadPoolExecutor(8) as ex:
        for path, bad in ex.map(one, diffs):
            name = os.path.basename(path)
            for prop in list(bad):
                if prop in exp.get(name, {}):
                    print("expected %s %s: %s" % (name, prop, exp[name][prop][:150]))
                    del bad[prop]
            index[name] = bad
            if bad:
                nbad += 1
                print("**ALARM %s" % name)
                for prop, v in bad.items():
                    if prop == "_patch":
                        print("     patch does not apply: %s" % v)
                        continue
                    print("     %s rc=%d" % (prop, v["rc"]))
                    for l in v["lines"]:
                        print("        " + l)
            else:
                print("quiet   %s" % name)
    print("%d variants, %d with a non-zero check" % (len(diffs), nbad))
    if keep:
        os.makedirs("/verif/benign", exist_ok=True)
        for p in diffs:
            shutil.copy(p, "/verif/benign/")
        if os.path.exists(os.path.join(d, "INDEX.md")):
            shutil.copy(os.path.join(d, "INDEX.md"), "/verif/benign/INDEX-%s.md" % os.path.basename(diffs[0]).split("-")[0])
    return 1 if nbad else 0


if __name__ == "__main__":
    sys.exit(main())
