"""Evaluate a seeded change produced in a scratch worktree (development tool).

usage: python3 tools/eval_seed.py <worktree> <seed-id> <property> [--no-suite]

Steps (all on scratch copies under /tmp, removed afterwards; /repo is never modified):
  1. copy /repo's HEAD tree, apply <worktree>/patch.diff;
  2. demo.py must exit 0 on the clean copy and non-zero on the patched copy;
  3. the repository's suite on the patched copy must give 147 passed / the 7 baseline failures;
  4. run all twenty checks against the patched copy and report which fire;
  5. store patch.diff, demo.py, NOTES.md and meta.json under /verif/seeded/<seed-id>/.
"""
import json
import os
import re
import shutil
import subprocess
import sys
import tempfile

BASELINE_FAIL = {
    "tests/transforms/linear_test.py::NaiveLinearTest::test_forward_inverse_are_consistent",
    "tests/transforms/linear_test.py::NaiveLinearTest::test_forward_no_cache",
    "tests/transforms/linear_test.py::NaiveLinearTest::test_inverse_no_cache",
    "tests/transforms/linear_test.py::NaiveLinearTest::test_logabsdet",
    "tests/transforms/linear_test.py::NaiveLinearTest::test_weight",
    "tests/transforms/linear_test.py::NaiveLinearTest::test_weight_inverse",
    "tests/utils/torchutils_test.py::TorchUtilsTest::test_random_orthogonal",
}


# unseeded; measured 3 failures in 30 runs on the unmodified repository
KNOWN_FLAKY = {"tests/transforms/autoregressive_test.py::MaskedPiecewiseQuadraticAutoregressiveTranformTest::test_forward_inverse_are_consistent"}


def sh(cmd, cwd=None, env=None, timeout=1800):
    r = subprocess.run(cmd, shell=True, cwd=cwd, env=env, capture_output=True, text=True, timeout=timeout)
    return r.returncode, r.stdout + r.stderr


def export_head(dst):
    os.makedirs(dst)
    rc, out = sh("git -C /repo archive HEAD | tar -x -C %s" % dst)
    assert rc == 0, out


def main():
    wt, sid, prop = sys.argv[1:4]
    run_suite = "--no-suite" not in sys.argv
    patch = os.path.join(wt, "patch.diff")
    demo = os.path.join(wt, "demo.py")
    assert os.path.exists(patch) and os.path.exists(demo), "patch.diff / demo.py missing"
    tmp = tempfile.mkdtemp(prefix="nfv-seed-")
    clean = os.path.join(tmp, "clean")
    patched = os.path.join(tmp, "patched")
    meta = {"seed": sid, "property": prop, "worktree": wt}
    try:
        export_head(clean)
        export_head(patched)
        rc, out = sh("git apply --whitespace=nowarn %s" % patch, cwd=patched)
        if rc != 0:
            rc, out = sh("patch -p1 < %s" % patch, cwd=patched)
        meta["patch_applies"] = rc == 0
        if rc != 0:
            print("PATCH DOES NOT APPLY", out[:500])
            return 2
        for name, d in (("clean", clean), ("patched", patched)):
            shutil.copy(demo, os.path.join(d, "demo.py"))
            env = dict(os.environ, PYTHONPATH=d, OMP_NUM_THREADS="2", MKL_NUM_THREADS="2")
            rc, out = sh("/venv/bin/python demo.py", cwd=d, env=env, timeout=900)
            meta["demo_rc_%s" % name] = rc
            meta["demo_out_%s" % name] = "\n".join(l for l in out.splitlines() if "Warning" not in l and "conda" not in l)[-600:]
            print("demo on %s: rc=%d" % (name, rc))
        if run_suite:
            base = "/venv/bin/python -m pytest -q -p no:cacheprovider --timeout=900 --deselect tests/transforms/linear_test.py::NaiveLinearTest --deselect tests/utils/torchutils_test.py::TorchUtilsTest::test_random_orthogonal"
            senv = dict(os.environ, OMP_NUM_THREADS="2", MKL_NUM_THREADS="2")
            rc, out = sh(base, cwd=patched, timeout=1800, env=senv)
            tail = [l for l in out.splitlines() if " passed" in l or " failed" in l]
            meta["suite_tail"] = tail[-1] if tail else out[-300:]
            failed = sorted(set(re.findall(r"^FAILED (\S+)", out, re.M)))
            # The suite has unseeded randomised tests (KNOWN_FLAKY fails ~10% of runs on the clean
            # tree).  A failing test is attributed to the patch only if it fails 3 times out of 3 on
            # the patched copy, or fails on the patched copy and passes 5/5 on the clean copy.
            attributed = []
            for t in failed:
                pf = sum(sh(base + " " + t, cwd=patched, env=senv)[0] != 0 for _ in range(3))
                cf = sum(sh(base + " " + t, cwd=clean, env=senv)[0] != 0 for _ in range(5))
                meta.setdefault("suite_reruns", {})[t] = {"patched_fail_of_3": pf, "clean_fail_of_5": cf}
                if pf == 3 or (pf > 0 and cf == 0 and t not in KNOWN_FLAKY):
                    attributed.append(t)
            meta["suite_failed_first_run"] = failed
            meta["suite_failures_attributed_to_patch"] = attributed
            m = re.search(r"(\d+) passed", meta["suite_tail"])
            meta["suite_passed"] = int(m.group(1)) if m else 0
            meta["suite_ok"] = not attributed and meta["suite_passed"] + len(failed) == 147
            print("suite on patched:", meta["suite_tail"], "| attributed to patch:", attributed)
        fired = {}
        for i in range(1, 21):
            pid = "C%02d" % i
            env = dict(os.environ, NFSTATIC_REPO=patched, NFSTATIC_NOWRITE="1")
            rc, out = sh("python3 -m nfstatic.check %s --repo %s" % (pid, patched), cwd="/verif", env=env)
            if rc != 0:
                rules = sorted(set(re.findall(r"\[([A-Z0-9-]+)\]", out)))
                fired[pid] = {"rc": rc, "rules": rules, "lines": [l[:260] for l in out.splitlines() if "] " in l and l.strip().startswith("nflows")][:4] + [l[:200] for l in out.splitlines() if "ANALYSIS" in l][:2]}
        meta["checks_fired"] = fired
        meta["detected_by_own_property"] = prop in fired and fired[prop]["rc"] == 1
        meta["detected_by_any"] = any(v["rc"] == 1 for v in fired.values())
        print("checks fired:", {k: (v["rc"], v["rules"]) for k, v in fired.items()})
        dst = os.path.join("/verif/seeded", sid)
        os.makedirs(dst, exist_ok=True)
        shutil.copy(patch, os.path.join(dst, "patch.diff"))
        shutil.copy(demo, os.path.join(dst, "demo.py"))
        if os.path.exists(os.path.join(wt, "NOTES.md")):
            shutil.copy(os.path.join(wt, "NOTES.md"), os.path.join(dst, "NOTES.md"))
        meta["what_was_run"] = [
            "git archive HEAD of /repo into two scratch copies; git apply patch.diff on one",
            "PYTHONPATH=<copy> /venv/bin/python demo.py on both copies",
            "/venv/bin/python -m pytest -q (7 baseline-failing tests deselected) on the patched copy",
            "python3 -m nfstatic.check Cxx --repo <patched copy> for all twenty properties",
        ]
        meta.pop("worktree", None)
        with open(os.path.join(dst, "meta.json"), "w") as f:
            json.dump(meta, f, indent=1)
        ok = meta.get("demo_rc_clean") == 0 and meta.get("demo_rc_patched") != 0 and (not run_suite or meta.get("suite_ok"))
        print("CONFIRMED" if ok else "NOT CONFIRMED", "| detected by own property:", meta["detected_by_own_property"], "| by any:", meta["detected_by_any"])
        return 0 if ok else 1
    finally:
        shutil.rmtree(tmp, ignore_errors=True)


if __name__ == "__main__":
    sys.exit(main())
