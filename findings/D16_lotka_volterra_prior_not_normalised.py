"""D16: LotkaVolterraOscillating (nflows/distributions/uniform.py) does not integrate to one.

The prior is a diagonal Gaussian N(m, 0.5^2 I) restricted to the box [-5, 2]^4, written as
log N(v) + log U(v) + c.  Its total mass is  exp(c) / 7^4 * prod_i [Phi((2 - m_i)/s) - Phi((-5 - m_i)/s)].
The constructor's c uses erf(z) where the Gaussian CDF needs 1/2 (1 + erf(z / sqrt 2)), and does not
compensate the 1/7^4 of the uniform factor.  Property C05: every density-returning object assigns total
probability one ("normalisation by ... quadrature ... per factor").

The density factorises over the four coordinates, so the total mass is computed per factor: the constant
log_prob(v) - sum_i log N(v_i) inside the box, times the product of the 1-D integrals of N over [-5, 2]
(trapezoid rule, 200001 nodes).

Run:  PYTHONPATH=<tree> /venv/bin/python D16_lotka_volterra_prior_not_normalised.py   (exit 1 = defect present)
"""
import math
import sys

import torch

from nflows.distributions.uniform import LotkaVolterraOscillating

torch.set_default_dtype(torch.float64)
prior = LotkaVolterraOscillating()
mean = torch.log(torch.tensor([0.01, 0.5, 1, 0.01]))
sigma = 0.5

# constant factor of the joint density inside the box
v = torch.tensor([[-1.0, -0.3, 0.2, -2.0], [0.5, 1.0, -4.0, 1.5]])
log_gauss = (-0.5 * ((v - mean) / sigma) ** 2 - math.log(sigma) - 0.5 * math.log(2 * math.pi)).sum(-1)
const = prior.log_prob(v.float()).double() - log_gauss
assert abs(const[0] - const[1]) < 1e-4, const

# per-factor integrals of the Gaussian over [-5, 2]
grid = torch.linspace(-5.0, 2.0, 200001)
mass = 1.0
for m in mean:
    pdf = torch.exp(-0.5 * ((grid - m) / sigma) ** 2) / (sigma * math.sqrt(2 * math.pi))
    mass *= torch.trapz(pdf, grid).item()
total = math.exp(const[0].item()) * mass
print("total probability assigned by LotkaVolterraOscillating: %.6f" % total)

# samples must lie in the box and follow the density: compare the mean of coordinate 1 with quadrature
if abs(total - 1.0) > 1e-3:
    print("C05 violated: the prior does not integrate to one")
    sys.exit(1)
print("ok")
