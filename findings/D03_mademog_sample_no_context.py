"""D3 (C05/C18 NULL-1): MADEMoG.sample without a context dereferences None. Exits 1 while present."""
import sys, torch
from nflows.distributions.mixture import MADEMoG
d = MADEMoG(features=2, hidden_features=8, context_features=None)
try:
    s = d.sample(3)
except AttributeError as e:
    print("MADEMoG(...).sample(3) raises:", e); sys.exit(1)
print("sample(3).shape =", tuple(s.shape))
lp = d.log_prob(s)
ok = tuple(s.shape) == (3, 2) and bool(torch.isfinite(lp).all())
c = MADEMoG(features=2, hidden_features=8, context_features=1)
sc = c.sample(4, context=torch.zeros(3, 1))
ok = ok and tuple(sc.shape) == (3, 4, 2)
sys.exit(0 if ok else 1)
