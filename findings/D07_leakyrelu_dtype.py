"""D7 (C19 DT-RESULT): LeakyReLU returns a float32 log-det for float64 inputs. Exits 1 while present."""
import sys, torch
from nflows.transforms.nonlinearities import LeakyReLU
t = LeakyReLU().double()
x = torch.randn(3, 2, dtype=torch.float64)
bad = 0
for name, f in (("forward", t.forward), ("inverse", t.inverse)):
    y, ld = f(x)
    print(name, "outputs", y.dtype, "logabsdet", ld.dtype)
    if ld.dtype != x.dtype:
        bad = 1
sys.exit(bad)
