"""D12 (C18/C05 NULL-1): Flow.sample(n) without a context crashes when the base distribution's
log_prob takes no context (the branch added for such bases dereferences the None context).
Exits 1 while present."""
import sys, torch
from torch import nn
from nflows.flows.base import Flow
from nflows.transforms.standard import IdentityTransform

class Base(nn.Module):
    def log_prob(self, inputs):
        return -0.5 * (inputs ** 2).sum(-1)
    def sample(self, n):
        return torch.randn(n, 2)

f = Flow(IdentityTransform(), Base())
try:
    s = f.sample(3)
except AttributeError as e:
    print("Flow(..., base without context).sample(3) raises:", e); sys.exit(1)
print("sample(3).shape =", tuple(s.shape))
sc = f.sample(3, context=torch.zeros(4, 1))
print("sample(3, ctx[4]).shape =", tuple(sc.shape))
sys.exit(0 if tuple(s.shape) == (3, 2) and tuple(sc.shape) == (4, 3, 2) else 1)
