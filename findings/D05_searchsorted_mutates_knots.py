"""D5 (C20 UT-PURE): torchutils.searchsorted adds eps to its first argument in place.
Exits 1 while present."""
import sys, torch
from nflows.utils import torchutils
knots = torch.linspace(0, 1, 5)
before = knots.clone()
x = torch.tensor([0.1, 0.5, 1.0])
i1 = torchutils.searchsorted(knots, x)
i2 = torchutils.searchsorted(knots, x)
print("knots changed by the call:", not torch.equal(before, knots), "last knot:", float(before[-1]), "->", float(knots[-1]))
sys.exit(0 if torch.equal(before, knots) and torch.equal(i1, i2) else 1)
