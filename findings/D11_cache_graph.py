"""D11 (C10, known finding): the cache stores graph-attached tensors, so a second
back-propagation through a cached call fails, which the uncached transform supports.
Exits 1 while the defect is present."""
import sys
import torch
from nflows.transforms.lu import LULinear

t = LULinear(3, using_cache=True).eval()
x = torch.randn(2, 3, requires_grad=True)
t(x)[0].sum().backward()
try:
    t(x)[0].sum().backward()
except RuntimeError as e:
    print("second backward through cached forward fails:", str(e)[:70])
    u = LULinear(3, using_cache=False).eval()
    u(x)[0].sum().backward()
    u(x)[0].sum().backward()
    print("uncached transform supports it")
    sys.exit(1)
sys.exit(0)
