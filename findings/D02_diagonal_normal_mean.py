"""D2 (C05 RES-2): DiagonalNormal.mean() returns a bound method. Exits 1 while present."""
import sys, torch
from nflows.distributions.normal import DiagonalNormal
m = DiagonalNormal([2]).mean()
print("DiagonalNormal([2]).mean() ->", type(m).__name__, getattr(m, "shape", None))
sys.exit(0 if isinstance(m, torch.Tensor) and tuple(m.shape) == (2,) else 1)
