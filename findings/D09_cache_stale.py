"""D9 (C10): the Linear cache survives load_state_dict and dtype conversion.
Run with /venv/bin/python; exits 1 on the defective tree, 0 on the repaired one."""
import sys
import torch
from nflows.transforms.lu import LULinear

torch.manual_seed(0)
bad = 0
a = LULinear(3, using_cache=True, identity_init=False).eval()
b = LULinear(3, identity_init=False)
x = torch.randn(4, 3)
a(x)  # fills the cache
a.load_state_dict(b.state_dict())
y_cached, ld_cached = a(x)
y_true, ld_true = a.forward_no_cache(x)
if not torch.allclose(y_cached, y_true) or not torch.allclose(ld_cached, ld_true):
    print("stale cache after load_state_dict: max diff", (y_cached - y_true).abs().max().item())
    bad = 1
c = LULinear(3, using_cache=True, identity_init=False).eval()
c(x)
c.double()
try:
    y, _ = c(x.double())
    y2, _ = c.forward_no_cache(x.double())
    if not torch.allclose(y, y2):
        print("stale cache after .double()")
        bad = 1
except RuntimeError as e:
    print("cached forward after .double() raises:", str(e)[:80])
    bad = 1
sys.exit(bad)
