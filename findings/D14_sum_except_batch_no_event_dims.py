"""D14 (C20 UT-RESHAPE): sum_except_batch(x, num_batch_dims) with num_batch_dims == x.dim() (nothing
left to sum) hands torch.sum an empty list of dims, which torch reads as "all dims": the batch
axes are summed away and a scalar comes back.  Reached through the library by any distribution /
transform over scalar events, e.g. StandardNormal(shape=[]).log_prob(x[N]) returns one number
instead of N log-densities.  Exits 1 while present."""
import sys, torch
from nflows.utils import torchutils
from nflows.distributions.normal import StandardNormal

bad = 0
for shape, nb in [((6,), 1), ((2, 3), 2), ((2, 3, 4), 3), ((5, 1), 2)]:
    x = torch.arange(float(torch.Size(shape).numel())).reshape(shape)
    y = torchutils.sum_except_batch(x, num_batch_dims=nb)
    ok = tuple(y.shape) == tuple(shape[:nb]) and torch.equal(y, x)
    print("sum_except_batch(x%s, num_batch_dims=%d) -> shape %s (want %s): %s" % (list(shape), nb, list(y.shape), list(shape[:nb]), "ok" if ok else "WRONG"))
    bad |= not ok
# the cases with something to sum are unaffected
for shape, nb in [((2, 3), 1), ((2, 3, 4), 1), ((2, 3, 4), 2), ((2, 3), 0)]:
    x = torch.arange(float(torch.Size(shape).numel())).reshape(shape)
    y = torchutils.sum_except_batch(x, num_batch_dims=nb)
    want = x.reshape(*shape[:nb], -1).sum(-1)
    ok = tuple(y.shape) == tuple(shape[:nb]) and torch.allclose(y, want)
    print("sum_except_batch(x%s, num_batch_dims=%d) -> shape %s: %s" % (list(shape), nb, list(y.shape), "ok" if ok else "WRONG"))
    bad |= not ok
lp = StandardNormal(shape=[]).log_prob(torch.zeros(5))
ok = tuple(lp.shape) == (5,)
print("StandardNormal(shape=[]).log_prob(zeros(5)) -> shape %s (want [5]): %s" % (list(lp.shape), "ok" if ok else "WRONG"))
bad |= not ok
sys.exit(1 if bad else 0)
