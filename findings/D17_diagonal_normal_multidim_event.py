"""D17: DiagonalNormal with a multi-dimensional event shape cannot evaluate log_prob.

DiagonalNormal(shape) stores its parameters flattened, as [1, prod(shape)] tensors, and combines them
element-wise with inputs of shape [N, *shape].  For an event shape of rank >= 2 (an image prior, say
shape = (2, 3)) the two do not broadcast: log_prob raises a RuntimeError for every input.  Property
C05 quantifies over "event shapes (1-D and multi-dimensional)"; StandardNormal and
ConditionalDiagonalNormal accept such shapes.

Run:  PYTHONPATH=<tree> /venv/bin/python D17_diagonal_normal_multidim_event.py   (exit 1 = defect present)
"""
import math
import sys

import torch

from nflows.distributions.normal import DiagonalNormal

bad = []
for shape in ((4,), (2, 3), (2, 3, 2)):
    d = DiagonalNormal(shape)
    with torch.no_grad():
        d.mean_.copy_(torch.linspace(-1, 1, d.mean_.numel()).reshape(d.mean_.shape))
        d.log_std_.copy_(torch.linspace(-0.5, 0.5, d.log_std_.numel()).reshape(d.log_std_.shape))
    x = torch.randn(5, *shape)
    try:
        lp = d.log_prob(x)
    except RuntimeError as e:
        print("shape %s: log_prob raises RuntimeError: %s" % (shape, str(e)[:80]))
        bad.append(shape)
        continue
    # reference: independent normals with the parameters laid out as the event
    m = d.mean_.detach().reshape(1, *shape)
    s = d.log_std_.detach().reshape(1, *shape)
    ref = (-0.5 * ((x - m) / s.exp()) ** 2 - s - 0.5 * math.log(2 * math.pi)).reshape(5, -1).sum(-1)
    ok = lp.shape == (5,) and torch.allclose(lp, ref.to(lp.dtype), atol=1e-5)
    ok = ok and d.mean().shape == torch.Size(shape)
    print("shape %s: log_prob %s" % (shape, "ok" if ok else "WRONG"))
    if not ok:
        bad.append(shape)
if bad:
    print("C05 violated for event shapes", bad)
    sys.exit(1)
print("ok")
