"""D6 (C17 EPS-UNITS): rational-quadratic spline with a large box: an input equal to the upper
end of the box falls outside the last bin (absolute eps absorbed by float32 rounding) and the
gather index runs off the end. Exits 1 while present."""
import sys, torch
from nflows.transforms.nonlinearities import PiecewiseRationalQuadraticCDF
bad = 0
for tb in (1.0, 32.0, 1000.0):
    torch.manual_seed(0)
    t = PiecewiseRationalQuadraticCDF([1], tails="linear", tail_bound=tb)
    x = torch.tensor([[tb], [-tb], [0.5 * tb]])
    try:
        y, ld = t(x)
        ok = bool(torch.isfinite(y).all() and torch.isfinite(ld).all()) and abs(float(y[0, 0]) - tb) < 1e-3 * tb
        print("tail_bound=%g: forward(upper end) = %r %s" % (tb, float(y[0, 0]), "" if ok else "(wrong)"))
        xi, _ = t.inverse(x)
        ok = ok and bool(torch.isfinite(xi).all())
        bad |= not ok
    except (RuntimeError, IndexError) as e:
        print("tail_bound=%g: input at the upper end raises: %s" % (tb, str(e)[:70])); bad = 1
sys.exit(int(bad))
