"""D15: Tanh.forward returns a log-abs-det of -inf in float32 for inputs of moderate size.

log|d tanh(x)/dx| = log(1 - tanh(x)**2) is computed from the *rounded* output: in float32 tanh(x)
rounds to exactly 1.0 for |x| >= ~9.02, so 1 - outputs**2 == 0 and the log-det is -inf, where the
float64 evaluation of the same model gives about -2|x| + 2 log 2 (-16.6 at x = 9, -18.6 at x = 10).
Already at |x| = 8 the float32 value is off by 0.07 nats (catastrophic cancellation in 1 - y**2).
Property C19: float32 results are finite and agree with float64 to single-precision accuracy scaled
by the conditioning, in both directions, on inputs of moderate magnitude.

Run:  PYTHONPATH=<tree> /venv/bin/python D15_tanh_logdet_saturates.py   (exit 1 = defect present)
"""
import sys

import torch

from nflows.transforms.nonlinearities import Tanh

bad = []
t = Tanh()
for x0 in (6.0, 8.0, 9.5, 10.0, 12.0, -10.0):
    x32 = torch.tensor([[x0, 0.5]], dtype=torch.float32)
    x64 = x32.double()
    _, ld32 = t(x32)
    _, ld64 = t(x64)
    err = abs(ld32.double().item() - ld64.item())
    ok = torch.isfinite(ld32).all().item() and err <= 1e-4 * max(1.0, abs(ld64.item()))
    print("x = %6.1f  float32 log-det = %12.6f   float64 = %12.6f   |diff| = %.3g   %s" % (x0, ld32.item(), ld64.item(), err, "ok" if ok else "BAD"))
    if not ok:
        bad.append(x0)
if bad:
    print("C19 violated at", bad)
    sys.exit(1)
print("ok")
