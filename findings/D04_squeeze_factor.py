"""D4 (C02 INV-CONFIG): SqueezeTransform(factor=3).inverse rejects forward's own output
(the channel guard is hard-coded to 4 = 2**2). Exits 1 while present."""
import sys, torch
from nflows.transforms.reshape import SqueezeTransform
t = SqueezeTransform(3)
x = torch.randn(2, 2, 6, 6)
y, _ = t(x)
try:
    xr, _ = t.inverse(y)
except ValueError as e:
    print("SqueezeTransform(3).inverse(forward(x)) raises:", e); sys.exit(1)
print("round trip exact:", torch.equal(x, xr))
sys.exit(0 if torch.equal(x, xr) else 1)
