"""D10 (C01 LD-SHAPE): GatedLinearUnit returns log(gate).reshape(-1): with a per-row gate the
log-det counts the gate once instead of once per feature; with a per-element gate its shape
is [batch * features]. Exits 1 while present."""
import sys, torch
from nflows.transforms.nonlinearities import GatedLinearUnit
t = GatedLinearUnit()
bad = 0
x = torch.randn(3, 2)
for ctx in (torch.randn(3, 1), torch.randn(3, 2)):
    y, ld = t(x, ctx)
    jac = torch.autograd.functional.jacobian(lambda a: t(a, ctx)[0], x)  # [3,2,3,2]
    ref = torch.stack([torch.slogdet(jac[i, :, i, :])[1] for i in range(3)])
    ok = tuple(ld.shape) == (3,) and torch.allclose(ld, ref, atol=1e-5)
    print("context", tuple(ctx.shape), "logabsdet shape", tuple(ld.shape), "matches Jacobian:", bool(ok))
    bad |= not ok
    xi, ldi = t.inverse(y, ctx)
    bad |= not (tuple(ldi.shape) == (3,) and torch.allclose(ldi, -ref, atol=1e-5))
sys.exit(int(bad))
