"""D13 (C11 ORTH-INIT): HouseholderSequence accepts num_transforms > 2 * features, but the initial
reflection vectors then contain zero rows (NaN outputs: 0/0 in 2/|q|^2) or, for odd counts, the
constructor indexes a column that does not exist.  Exits 1 while present."""
import sys, torch
from nflows.transforms.orthogonal import HouseholderSequence

bad = 0
for f, k in [(2, 4), (2, 5), (2, 6), (3, 7), (3, 8), (1, 3), (1, 4), (4, 11)]:
    try:
        h = HouseholderSequence(features=f, num_transforms=k)
        x = torch.randn(5, f)
        y, _ = h(x)
        z, _ = h.inverse(y)
        ok = bool(torch.isfinite(y).all()) and torch.allclose(z, x, atol=1e-5)
        print("features=%d num_transforms=%d: finite and invertible: %s" % (f, k, ok))
        bad |= not ok
    except Exception as e:  # noqa
        print("features=%d num_transforms=%d: %s: %s" % (f, k, type(e).__name__, str(e)[:70]))
        bad = 1
sys.exit(1 if bad else 0)
