"""D8 (C19 DT-MIX / C20 UT-DTYPE): identities built with the default dtype meet float64
operands in operations that do not promote. Exits 1 while present."""
import sys, torch
from nflows.transforms.orthogonal import HouseholderSequence
from nflows.transforms.linear import NaiveLinear
from nflows.utils import torchutils
bad = 0
try:
    HouseholderSequence(3, 2).double().matrix()
except RuntimeError as e:
    print("HouseholderSequence.double().matrix():", str(e)[:70]); bad = 1
try:
    n = NaiveLinear(3, orthogonal_initialization=False).double()
    n.weight_inverse_and_logabsdet()
except RuntimeError as e:
    print("NaiveLinear.double().weight_inverse_and_logabsdet():", str(e)[:70]); bad = 1
try:
    torchutils.gaussian_kde_log_eval(torch.randn(5, 2, dtype=torch.float64), torch.randn(4, 1, 2, dtype=torch.float64))
except RuntimeError as e:
    print("gaussian_kde_log_eval(float64):", str(e)[:70]); bad = 1
sys.exit(bad)
