"""D1 (C18 BATCH-CAT): Distribution.sample(n, context, batch_size) concatenates the batches
along dim 0, but with a context _sample returns [rows, n, ...]. Exits 1 while present."""
import sys, torch
from nflows.distributions.normal import StandardNormal
d = StandardNormal([2])
ctx = torch.zeros(3, 1)
bad = 0
try:
    s = d.sample(5, context=ctx, batch_size=2)
    print("sample(5, ctx[3], batch_size=2).shape =", tuple(s.shape), "(expected (3, 5, 2))")
    bad |= tuple(s.shape) != (3, 5, 2)
except RuntimeError as e:
    print("sample(5, ctx[3], batch_size=2) raises:", str(e)[:80]); bad = 1
s = d.sample(4, context=ctx, batch_size=2)
print("sample(4, ctx[3], batch_size=2).shape =", tuple(s.shape), "(expected (3, 4, 2))")
bad |= tuple(s.shape) != (3, 4, 2)
s = d.sample(5, batch_size=2)
bad |= tuple(s.shape) != (5, 2)
sys.exit(int(bad))
