"""Single-edit variants of /repo/nflows used to test the checkers both ways.

MUTANTS: (id, [properties], [(relpath, old, new)], expected rule id or None)
BENIGN:  (id, [properties], [(relpath, old, new)])   -- behaviour-preserving edits
"""

T = "nflows/transforms/"
MADE1 = T + "made.py"
MADE2 = "nflows/nn/nde/made.py"
AR = T + "autoregressive.py"
TU = "nflows/utils/torchutils.py"
LIN = T + "linear.py"
NORM = T + "normalization.py"

MUTANTS = [
    # ---- C06 ----
    ("c06-out-ge-1", ["C06"], [(MADE1, "mask = (out_degrees[..., None] > in_degrees).float()", "mask = (out_degrees[..., None] >= in_degrees).float()")], "DEG-OUT"),
    ("c06-out-ge-2", ["C06"], [(MADE2, "mask = (out_degrees[..., None] > in_degrees).float()", "mask = (out_degrees[..., None] >= in_degrees).float()")], "DEG-OUT"),
    ("c06-hid-flip", ["C06"], [(MADE1, "mask = (out_degrees[..., None] >= in_degrees).float()", "mask = (out_degrees[..., None] <= in_degrees).float()")], "DEG-HID"),
    ("c06-hid-orient", ["C06"], [(MADE2, "mask = (out_degrees[..., None] >= in_degrees).float()", "mask = (out_degrees >= in_degrees[..., None]).float()")], "DEG-HID"),
    ("c06-nomask", ["C06"], [(MADE1, "return F.linear(x, self.weight * self.mask, self.bias)", "return F.linear(x, self.weight, self.bias)")], "DEG-APPLY"),
    ("c06-nomask-2", ["C06"], [(MADE2, "return F.linear(x, self.weight * self.mask, self.bias)", "return F.linear(x, self.weight, self.bias)")], "DEG-APPLY"),
    ("c06-wrong-prev", ["C06"], [(MADE1, "                    in_degrees=prev_out_degrees,\n                    autoregressive_features=features,\n                    context_features=context_features,", "                    in_degrees=self.initial_layer.degrees,\n                    autoregressive_features=features,\n                    context_features=context_features,")], "DEG-WIRE"),
    ("c06-final-wrong-in", ["C06"], [(MADE2, "        self.final_layer = MaskedLinear(\n            in_degrees=prev_out_degrees,", "        self.final_layer = MaskedLinear(\n            in_degrees=self.initial_layer.degrees,")], "DEG-WIRE"),
    ("c06-no-res-guard", ["C06"], [(MADE1, "        if torch.all(self.degrees >= in_degrees).item() != 1:\n            raise RuntimeError(", "        if False:\n            raise RuntimeError(")], "DEG-RES"),
    ("c06-res-guard-weak", ["C06"], [(MADE2, "if torch.all(self.degrees >= in_degrees).item() != 1:", "if torch.any(self.degrees >= in_degrees).item() != 1:")], "DEG-RES"),
    ("c06-tile-repeat", ["C06"], [(TU, "    x_ = x_.reshape(n, -1)\n    x_ = x_.transpose(1, 0)\n    x_ = x_.reshape(-1)\n    return x_", "    return x_")], "DEG-TILE"),
    ("c06-view-mult-major", ["C06"], [(AR, "        autoregressive_params = autoregressive_params.view(\n            -1, self.features, self._output_dim_multiplier()\n        )", "        autoregressive_params = autoregressive_params.view(\n            -1, self._output_dim_multiplier(), self.features\n        ).transpose(1, 2)")], "DEG-USE"),
    ("c06-skip-unmasked", ["C06"], [(MADE1, "        outputs = self.final_layer(temps)\n        return outputs", "        outputs = self.final_layer(temps) + self.skip(inputs)\n        return outputs"), (MADE1, "        self.use_residual_blocks = use_residual_blocks", "        self.use_residual_blocks = use_residual_blocks\n        self.skip = nn.Linear(features, features * output_multiplier)")], "DEG-ELEM"),
    ("c06-res-second-layer-in", ["C06"], [(MADE1, "        linear_1 = MaskedLinear(\n            in_degrees=linear_0.degrees,", "        linear_1 = MaskedLinear(\n            in_degrees=in_degrees,")], "DEG-WIRE"),
    ("c06-final-not-output", ["C06"], [(MADE1, "            random_mask=random_mask,\n            is_output=True,", "            random_mask=random_mask,\n            is_output=False,")], "DEG-WIRE"),
    ("c06-mask-overwrite", ["C06"], [(MADE2, "        self.final_layer.weight.data[::3, :] = self.epsilon * torch.randn(", "        self.final_layer.mask[::3, :] = 1.0\n        self.final_layer.weight.data[::3, :] = self.epsilon * torch.randn(")], "DEG-OWN"),
    ("c06-inv-passes", ["C06"], [(AR, "num_inputs = int(np.prod(inputs.shape[1:]))", "num_inputs = int(np.prod(inputs.shape[1:])) - 1")], "INV-AR"),
    ("c06-inv-cond-on-inputs", ["C06"], [(AR, "autoregressive_params = self.autoregressive_net(outputs, context)", "autoregressive_params = self.autoregressive_net(inputs, context)")], "INV-AR"),
    ("c06-indeg", ["C06"], [(MADE1, "return torch.arange(1, in_features + 1)", "return torch.arange(0, in_features)")], "DEG-IN"),
    ("c06-mog-reshape", ["C06"], [(MADE2, "outputs = outputs.reshape(*inputs.shape, self.num_mixture_components, 3)", "outputs = outputs.reshape(inputs.shape[0], self.num_mixture_components, 3, inputs.shape[1]).permute(0, 3, 1, 2)")], "DEG-USE"),
    # ---- C10 ----
    ("c10-no-guard-training", ["C10"], [(LIN, "    def inverse(self, inputs, context=None):\n        if not self.training and self.using_cache:", "    def inverse(self, inputs, context=None):\n        if self.using_cache:")], "CACHE-STALE"),
    ("c10-swap-field", ["C10"], [(LIN, "self.cache.inverse = self.weight_inverse()", "self.cache.inverse = self.weight()")], "CACHE-MAP"),
    ("c10-no-invalidate-train", ["C10"], [(LIN, "            self.cache.invalidate()\n        return super().train(mode)", "            pass\n        return super().train(mode)")], "CACHE-STALE"),
    ("c10-no-invalidate-load", ["C10"], [(LIN, "    def _load_from_state_dict(self, *args, **kwargs):\n        # Parameters are about to be overwritten: cached tensors would be stale.\n        self.cache.invalidate()", "    def _load_from_state_dict(self, *args, **kwargs):")], "CACHE-STALE"),
    ("c10-partial-invalidate", ["C10"], [(LIN, "    def invalidate(self):\n        self.weight = None\n        self.inverse = None", "    def invalidate(self):\n        self.weight = None")], "CACHE-"),
    ("c10-sign", ["C10"], [(LIN, "logabsdet = (-self.cache.logabsdet) * outputs.new_ones(outputs.shape[0])", "logabsdet = self.cache.logabsdet * outputs.new_ones(outputs.shape[0])")], "CACHE-USE"),
    ("c10-wrong-matrix", ["C10"], [(LIN, "outputs = F.linear(inputs - self.bias, self.cache.inverse)", "outputs = F.linear(inputs - self.bias, self.cache.weight)")], "CACHE-"),
    ("c10-bias-after", ["C10"], [(LIN, "outputs = F.linear(inputs - self.bias, self.cache.inverse)", "outputs = F.linear(inputs, self.cache.inverse) - self.bias")], "CACHE-USE"),
    ("c10-tuple-order", ["C10"], [(LIN, "        return weight_inv, logabsdet", "        return logabsdet, weight_inv")], "CACHE-MAP"),
    ("c10-second-graph-store", ["C10"], [(LIN, "            self.cache.invalidate()\n        return super().train(mode)", "            self.cache.invalidate()\n        else:\n            self.cache.weight = self.weight()\n        return super().train(mode)")], "CACHE-GRAPH"),
    # ---- C13 ----
    ("c13-inputs-sub", ["C13"], [(T + "lu.py", "outputs = inputs - self.bias", "inputs -= self.bias\n        outputs = inputs")], "OWN-ARG"),
    ("c13-param-div", ["C13"], [(T + "nonlinearities.py", "unnormalized_pdf = _share_across_batch(self.unnormalized_pdf, batch_size)", "unnormalized_pdf = _share_across_batch(self.unnormalized_pdf, batch_size)\n        unnormalized_pdf /= 2.0")], "OWN-STATE"),
    ("c13-bn-eval-update", ["C13", "C14"], [(NORM, "        if self.training:\n            mean, var = inputs.mean(0), inputs.var(0)", "        if True:\n            mean, var = inputs.mean(0), inputs.var(0)")], "OWN-STATE"),
    ("c13-svd-alias", ["C13"], [(T + "svd.py", "outputs, _ = self.orthogonal_2(inputs)  # Ignore logabsdet as we know it's zero.", "outputs = inputs")], "OWN-ARG"),
    ("c13-masked-store", ["C13"], [(T + "nonlinearities.py", "        outputs = torch.zeros_like(inputs)\n        outputs[mask_middle] = torch.tanh(inputs[mask_middle])", "        outputs = inputs\n        outputs[mask_middle] = torch.tanh(inputs[mask_middle])")], "OWN-ARG"),
    ("c13-clamp-inplace", ["C13"], [(T + "nonlinearities.py", "inputs = torch.clamp(inputs, self.eps, 1 - self.eps)", "inputs = inputs.clamp_(self.eps, 1 - self.eps)")], "OWN-ARG"),
    ("c13-temperature-data", ["C13"], [(T + "nonlinearities.py", "        inputs = self.temperature * inputs\n        outputs = torch.sigmoid(inputs)", "        self.temperature.data = self.temperature.data.clamp(1e-3)\n        inputs = self.temperature * inputs\n        outputs = torch.sigmoid(inputs)")], "OWN-STATE"),
    ("c13-spline-state", ["C13"], [(T + "splines/rational_quadratic.py", "    widths = F.softmax(unnormalized_widths, dim=-1)\n    widths = min_bin_width + (1 - min_bin_width * num_bins) * widths\n    cumwidths", "    unnormalized_widths -= unnormalized_widths.max(dim=-1, keepdim=True)[0]\n    widths = F.softmax(unnormalized_widths, dim=-1)\n    widths = min_bin_width + (1 - min_bin_width * num_bins) * widths\n    cumwidths")], "OWN-"),
    ("c13-actnorm-eval-init", ["C13", "C14"], [(NORM, "if self.training and not self.initialized:", "if not self.initialized:")], "OWN-STATE"),
    ("c13-attr-rebind", ["C13"], [(T + "permutations.py", "        return self._permute(inputs, self._inverse_permutation, self._dim)", "        self._last = inputs\n        return self._permute(inputs, self._inverse_permutation, self._dim)")], "OWN-ATTR"),
    ("c13-context-scale", ["C13"], [("nflows/flows/base.py", "        embedded_context = self._embedding_net(context)\n        noise, logabsdet = self._transform(inputs, context=embedded_context)", "        embedded_context = self._embedding_net(context)\n        inputs *= 1.0\n        noise, logabsdet = self._transform(inputs, context=embedded_context)")], "OWN-ARG"),
    # ---- C14 ----
    ("c14-init-every-train-fwd", ["C14"], [(NORM, "if self.training and not self.initialized:", "if self.training:")], "ACT-ONCE"),
    ("c14-flag-nonpersistent", ["C14"], [(NORM, 'self.register_buffer("initialized", torch.tensor(False, dtype=torch.bool))', 'self.register_buffer("initialized", torch.tensor(False, dtype=torch.bool), persistent=False)')], "ACT-ONCE"),
    ("c14-flag-plain", ["C14"], [(NORM, 'self.register_buffer("initialized", torch.tensor(False, dtype=torch.bool))', 'self.initialized = torch.tensor(False, dtype=torch.bool)')], "ACT-ONCE"),
    ("c14-init-from-inverse", ["C14"], [(NORM, "        scale, shift = self._broadcastable_scale_shift(inputs)\n        outputs = (inputs - shift) / scale", "        if not self.initialized:\n            self._initialize(inputs)\n        scale, shift = self._broadcastable_scale_shift(inputs)\n        outputs = (inputs - shift) / scale")], "ACT-"),
    ("c14-momentum-swapped", ["C14"], [(NORM, "self.running_mean.mul_(1 - self.momentum).add_(mean.detach() * self.momentum)", "self.running_mean.mul_(self.momentum).add_(mean.detach() * (1 - self.momentum))")], "BN-MOMENTUM"),
    ("c14-no-detach", ["C14"], [(NORM, "add_(var.detach() * self.momentum)", "add_(var * self.momentum)")], "BN-STATS"),
    ("c14-eval-batch-var", ["C14"], [(NORM, "            mean, var = self.running_mean, self.running_var", "            mean, var = self.running_mean, inputs.var(0)")], "BN-STATS"),
    ("c14-flag-not-set", ["C14"], [(NORM, "            self.initialized.data = torch.tensor(True, dtype=torch.bool)", "            pass")], "ACT-"),
    ("c14-train-uses-running", ["C14"], [(NORM, "        outputs = (\n            self.weight * ((inputs - mean) / torch.sqrt((var + self.eps))) + self.bias\n        )", "        outputs = (\n            self.weight * ((inputs - self.running_mean) / torch.sqrt((var + self.eps))) + self.bias\n        )")], "BN-STATS"),
    ("c14-inverse-in-training", ["C14"], [(NORM, "        if self.training:\n            raise InverseNotAvailable(", "        if False:\n            raise InverseNotAvailable(")], "BN-INV"),
    ("c14-shift-not-set", ["C14"], [(NORM, "            self.shift.data = -mu\n", "")], "ACT-MUST"),
]

MUTANTS += [
    # ---- C15 ----
    ("c15-perm-plain", ["C15"], [(T + "permutations.py", 'self.register_buffer("_permutation", permutation)', 'self._permutation = permutation')], "PERS-RNG"),
    ("c15-mask-nonpersistent", ["C15"], [(MADE1, 'self.register_buffer("mask", mask)', 'self.register_buffer("mask", mask, persistent=False)')], "PERS-RNG"),
    ("c15-degrees-nonpersistent-2", ["C15"], [(MADE2, 'self.register_buffer("degrees", degrees)', 'self.register_buffer("degrees", degrees, persistent=False)')], "PERS-RNG"),
    ("c15-blocks-list", ["C15"], [(MADE1, "self.blocks = nn.ModuleList(blocks)", "self.blocks = blocks")], "PERS-CALL"),
    ("c15-running-var-np", ["C15"], [(NORM, 'self.register_buffer("running_var", torch.zeros(features))', 'self.register_buffer("running_var", torch.zeros(features), persistent=False)')], "PERS-"),
    ("c15-initialized-np", ["C15", "C14"], [(NORM, 'self.register_buffer("initialized", torch.tensor(False, dtype=torch.bool))', 'self.register_buffer("initialized", torch.tensor(False, dtype=torch.bool), persistent=False)')], "PERS-MUT"),
    ("c15-random-plain-used", ["C15"], [(T + "nonlinearities.py", "        self.negative_slope = negative_slope\n        self.log_negative_slope = torch.log(torch.as_tensor(self.negative_slope))", "        self.negative_slope = negative_slope\n        self.jitter = 1e-3 * torch.rand(1)\n        self.log_negative_slope = torch.log(torch.as_tensor(self.negative_slope)) + self.jitter")], "PERS-RNG"),
    # ---- C16 ----
    ("c16-detach-logscale", ["C16"], [(T + "coupling.py", "log_scale = torch.log(scale)\n        outputs = inputs * scale + shift", "log_scale = torch.log(scale).detach()\n        outputs = inputs * scale + shift")], "GRAD-CUT"),
    ("c16-data-diag", ["C16"], [(T + "lu.py", "return F.softplus(self.unconstrained_upper_diag) + self.eps", "return F.softplus(self.unconstrained_upper_diag.data) + self.eps")], "GRAD-CUT"),
    ("c16-nograd-spline", ["C16"], [(T + "nonlinearities.py", "        outputs, logabsdet = spline_fn(\n            inputs=inputs,\n            unnormalized_widths=unnormalized_widths,\n            unnormalized_heights=unnormalized_heights,\n            unnormalized_derivatives=unnormalized_derivatives,", "        with torch.no_grad():\n          outputs, logabsdet = spline_fn(\n            inputs=inputs,\n            unnormalized_widths=unnormalized_widths,\n            unnormalized_heights=unnormalized_heights,\n            unnormalized_derivatives=unnormalized_derivatives,")], "GRAD-CUT"),
    ("c16-float-temperature", ["C16"], [(T + "nonlinearities.py", "inputs = self.temperature * inputs\n        outputs = torch.sigmoid(inputs)", "inputs = float(self.temperature) * inputs\n        outputs = torch.sigmoid(inputs)")], "GRAD-CUT"),
    ("c16-unused-param", ["C16"], [(T + "qr.py", "        upper[self.upper_indices[0], self.upper_indices[1]] = self.upper_entries\n", "")], "GRAD-REACH"),
    ("c16-detach-logstd", ["C16"], [("nflows/distributions/normal.py", "        log_prob -= torchutils.sum_except_batch(log_stds, num_batch_dims=1)\n        log_prob -= self._log_z\n        return log_prob\n\n    def _sample(self, num_samples, context):\n        raise", "        log_prob -= torchutils.sum_except_batch(log_stds.detach(), num_batch_dims=1)\n        log_prob -= self._log_z\n        return log_prob\n\n    def _sample(self, num_samples, context):\n        raise")], "GRAD-CUT"),
    ("c16-tensor-copy", ["C16"], [(T + "standard.py", "        outputs = inputs * self._scale + self._shift", "        outputs = torch.tensor(inputs) * self._scale + self._shift")], "GRAD-CUT"),
    ("c16-item-logdet", ["C16"], [(T + "svd.py", "        return torch.sum(self.log_diagonal)", "        return torch.sum(self.log_diagonal).item()")], "GRAD-"),
    ("c16-householder-detach", ["C16"], [(T + "orthogonal.py", "temp = torch.ger(temp, (2.0 / squared_norm) * q_vector)  # Outer product.", "temp = torch.ger(temp, (2.0 / squared_norm.detach()) * q_vector)  # Outer product.")], "GRAD-CUT"),
]

CPL = T + "coupling.py"
MUTANTS += [
    # ---- C07 ----
    ("c07-cond-on-inputs", ["C07"], [(CPL, "transform_params = self.transform_net(identity_split, context)\n        transform_split, logabsdet = self._coupling_transform_forward(", "transform_params = self.transform_net(inputs, context)\n        transform_split, logabsdet = self._coupling_transform_forward(")], "CPL-COND"),
    ("c07-cond-on-transform-split", ["C07"], [(CPL, "        transform_params = self.transform_net(identity_split, context)\n        transform_split, logabsdet_split", "        transform_params = self.transform_net(transform_split, context)\n        transform_split, logabsdet_split")], "CPL-COND"),
    ("c07-identity-times-one", ["C07"], [(CPL, "        outputs[:, self.identity_features, ...] = identity_split\n", "        outputs[:, self.identity_features, ...] = identity_split * 1.0\n")], "CPL-COPY"),
    ("c07-swap-scatter", ["C07"], [(CPL, "        outputs[:, self.identity_features] = identity_split\n        outputs[:, self.transform_features] = transform_split", "        outputs[:, self.transform_features] = identity_split\n        outputs[:, self.identity_features] = transform_split")], "CPL-SCAT"),
    ("c07-partition-gap", ["C07"], [(CPL, "features_vector.masked_select(mask <= 0)", "features_vector.masked_select(mask < 0)")], "CPL-PART"),
    ("c07-inverse-cond-before-uncond", ["C07"], [(CPL, "        logabsdet = 0.0\n        if self.unconditional_transform is not None:\n            identity_split, logabsdet = self.unconditional_transform.inverse(\n                identity_split, context\n            )\n\n        transform_params = self.transform_net(identity_split, context)", "        logabsdet = 0.0\n        transform_params = self.transform_net(identity_split, context)\n        if self.unconditional_transform is not None:\n            identity_split, logabsdet = self.unconditional_transform.inverse(\n                identity_split, context\n            )\n")], "CPL-COND"),
    ("c07-forward-cond-after-uncond", ["C07"], [(CPL, "        transform_params = self.transform_net(identity_split, context)\n        transform_split, logabsdet = self._coupling_transform_forward(\n            inputs=transform_split, transform_params=transform_params\n        )\n\n        if self.unconditional_transform is not None:\n            identity_split, logabsdet_identity = self.unconditional_transform(\n                identity_split, context\n            )\n            logabsdet += logabsdet_identity\n", "        logabsdet_identity = 0.0\n        if self.unconditional_transform is not None:\n            identity_split, logabsdet_identity = self.unconditional_transform(\n                identity_split, context\n            )\n        transform_params = self.transform_net(identity_split, context)\n        transform_split, logabsdet = self._coupling_transform_forward(\n            inputs=transform_split, transform_params=transform_params\n        )\n        logabsdet = logabsdet + logabsdet_identity\n")], "CPL-COND"),
    ("c07-conditional-scatter", ["C07"], [(CPL, "        outputs[:, self.transform_features] = transform_split\n\n        return outputs, logabsdet\n\n    def _transform_dim_multiplier", "        if context is not None:\n            outputs[:, self.transform_features] = transform_split\n\n        return outputs, logabsdet\n\n    def _transform_dim_multiplier")], "CPL-SCAT"),
    ("c07-piecewise-direction", ["C07"], [(CPL, "return self._coupling_transform(inputs, transform_params, inverse=True)", "return self._coupling_transform(inputs, transform_params, inverse=False)")], "CPL-HOOKS"),
    ("c07-mask-sign", ["C07"], [(CPL, '"transform_features", features_vector.masked_select(mask > 0)', '"transform_features", features_vector.masked_select(mask <= 0)'), (CPL, '"identity_features", features_vector.masked_select(mask <= 0)', '"identity_features", features_vector.masked_select(mask > 0)')], "CPL-PART"),
    # ---- C12 ----
    ("c12-bn-eval-batch-mean", ["C12"], [(NORM, "            mean, var = self.running_mean, self.running_var", "            mean, var = inputs.mean(0), self.running_var")], "BM-"),
    ("c12-sum-batch-dim", ["C12"], [(T + "nonlinearities.py", "logabsdet = torchutils.sum_except_batch(inputs, num_batch_dims=1)\n\n        return outputs, logabsdet", "logabsdet = torchutils.sum_except_batch(inputs, num_batch_dims=0) * inputs.new_ones(inputs.shape[0])\n\n        return outputs, logabsdet")], "BM-REDUCE"),
    ("c12-wrong-mask-param", ["C12"], [(T + "splines/quadratic.py", "unnormalized_heights=unnormalized_heights[inside_interval_mask, :],", "unnormalized_heights=unnormalized_heights[outside_interval_mask, :],")], "BM-MASK"),
    ("c12-conv-reshape-no-permute", ["C12"], [(T + "conv.py", "outputs = outputs.reshape(b, h, w, c).permute(0, 3, 1, 2)", "outputs = outputs.reshape(b, c, h, w)")], "BM-ROWS"),
    ("c12-conv-batch-last", ["C12"], [(T + "conv.py", "inputs = inputs.permute(0, 2, 3, 1).reshape(b * h * w, c)", "inputs = inputs.permute(1, 2, 3, 0).reshape(b * h * w, c)")], "BM-ROWS"),
    ("c12-actnorm-center-batch", ["C12"], [(NORM, "        scale, shift = self._broadcastable_scale_shift(inputs)\n        outputs = scale * inputs + shift", "        scale, shift = self._broadcastable_scale_shift(inputs)\n        outputs = scale * (inputs - inputs.mean()) + shift")], "BM-REDUCE"),
    ("c12-cubic-wrong-mask", ["C12"], [(T + "splines/cubic.py", "outputs[one_root_mask] = (\n            (p + q) - inputs_b_[one_root_mask] + input_left_cumwidths[one_root_mask]\n        )", "outputs[one_root_mask] = (\n            (p + q) - inputs_b_[one_root_mask] + input_left_cumwidths[three_roots_mask]\n        )")], "BM-MASK"),
    ("c12-umnn-reshape", ["C12"], [(CPL, "log_det_jac = jac.log().reshape(B, -1).sum(1)\n            return z.reshape(B, H, W, C).permute(0, 3, 1, 2), log_det_jac", "log_det_jac = jac.log().reshape(B, -1).sum(1)\n            return z.reshape(B, C, H, W), log_det_jac")], "BM-ROWS"),
    ("c12-batch-dependent-branch", ["C12"], [(T + "nonlinearities.py", "        outputs = torch.tanh(inputs)\n        logabsdet = torch.log(1 - outputs ** 2)", "        if inputs.abs().max() > 10:\n            inputs = inputs / 2\n        outputs = torch.tanh(inputs)\n        logabsdet = torch.log(1 - outputs ** 2)")], "BM-REDUCE"),
    ("c12-global-normalise", ["C12"], [("nflows/distributions/normal.py", "        neg_energy = -0.5 * \\\n            torchutils.sum_except_batch(inputs ** 2, num_batch_dims=1)", "        neg_energy = -0.5 * \\\n            torchutils.sum_except_batch((inputs - inputs.mean(dim=0)) ** 2, num_batch_dims=1)")], "BM-REDUCE"),
]

MUTANTS += [
    # ---- C19 ----
    ("c19-leaky-type-tensor", ["C19"], [(T + "nonlinearities.py", "        mask = (inputs < 0).to(inputs.dtype)\n        logabsdet = self.log_negative_slope * mask", "        mask = (inputs < 0).type(torch.Tensor)\n        logabsdet = self.log_negative_slope * mask")], "DT-RESULT"),
    ("c19-householder-eye", ["C19"], [(T + "orthogonal.py", "            dtype=self.q_vectors.dtype,\n", "")], "DT-MIX"),
    ("c19-naive-eye", ["C19"], [(LIN, "            dtype=self._weight.dtype,\n", "")], "DT-MIX"),
    ("c19-lu-zeros", ["C19"], [(T + "lu.py", "lower = self.lower_entries.new_zeros(self.features, self.features)", "lower = torch.zeros(self.features, self.features)")], "DT-MIX"),
    ("c19-identity-logdet-float", ["C19"], [(T + "permutations.py", "        logabsdet = inputs.new_zeros(batch_size)", "        logabsdet = torch.zeros(batch_size)")], "DT-RESULT"),
    ("c19-exp-float-cast", ["C19"], [(T + "nonlinearities.py", "        outputs = torch.exp(inputs)\n        logabsdet = torchutils.sum_except_batch(inputs, num_batch_dims=1)", "        outputs = torch.exp(inputs)\n        logabsdet = torchutils.sum_except_batch(inputs.float(), num_batch_dims=1)")], "DT-RESULT"),
    ("c19-qr-diag-mm", ["C19"], [(T + "svd.py", "        diagonal = torch.diag(self.diagonal)\n        weight, _ = self.orthogonal_2.inverse(diagonal)", "        diagonal = torch.eye(self.features) * 1.0\n        weight, _ = self.orthogonal_2.inverse(diagonal)")], "DT-MIX"),
]

FB = "nflows/flows/base.py"
DB = "nflows/distributions/base.py"
DN = "nflows/distributions/normal.py"
MUTANTS += [
    # ---- C03 ----
    ("c03-drop-logabsdet", ["C03"], [(FB, "        return log_prob + logabsdet", "        return log_prob")], "COV-ASSEMBLE"),
    ("c03-minus-logabsdet", ["C03"], [(FB, "        return log_prob + logabsdet", "        return log_prob - logabsdet")], "COV-ASSEMBLE"),
    ("c03-double-logabsdet", ["C03"], [(FB, "        return log_prob + logabsdet", "        return log_prob + logabsdet + logabsdet")], "COV-ASSEMBLE"),
    ("c03-base-at-inputs", ["C03"], [(FB, "            log_prob = self._distribution.log_prob(noise, context=embedded_context)", "            log_prob = self._distribution.log_prob(inputs, context=embedded_context)")], "COV-ASSEMBLE"),
    ("c03-inverse-direction", ["C03"], [(FB, "        noise, logabsdet = self._transform(inputs, context=embedded_context)\n        if self._context_used_in_base:", "        noise, logabsdet = self._transform.inverse(inputs, context=embedded_context)\n        if self._context_used_in_base:")], "COV-ASSEMBLE"),
    ("c03-raw-context-to-base", ["C03"], [(FB, "            log_prob = self._distribution.log_prob(noise, context=embedded_context)", "            log_prob = self._distribution.log_prob(noise, context=context)")], "COV-ASSEMBLE"),
    ("c03-normal-plus-logz", ["C03"], [(DN, "        return neg_energy - self._log_z", "        return neg_energy + self._log_z")], "BASE-TERMS"),
    ("c03-normal-no-half", ["C03"], [(DN, "        neg_energy = -0.5 * \\\n            torchutils.sum_except_batch(inputs ** 2, num_batch_dims=1)", "        neg_energy = -1.0 * \\\n            torchutils.sum_except_batch(inputs ** 2, num_batch_dims=1)")], "BASE-TERMS"),
    ("c03-diag-logstd-sign", ["C03"], [(DN, "        log_prob -= torchutils.sum_except_batch(log_stds, num_batch_dims=1)\n        log_prob -= self._log_z\n        return log_prob\n\n    def _sample(self, num_samples, context):\n        raise", "        log_prob += torchutils.sum_except_batch(log_stds, num_batch_dims=1)\n        log_prob -= self._log_z\n        return log_prob\n\n    def _sample(self, num_samples, context):\n        raise")], "BASE-TERMS"),
    ("c03-cond-no-logstd", ["C03"], [(DN, "        log_prob -= torchutils.sum_except_batch(log_stds, num_batch_dims=1)\n        log_prob -= self._log_z\n        return log_prob\n\n    def _sample(self, num_samples, context):\n        # Compute", "        log_prob -= self._log_z\n        return log_prob\n\n    def _sample(self, num_samples, context):\n        # Compute")], "BASE-TERMS"),
    ("c03-exp-plus-logstd", ["C03"], [(DN, "        norm_inputs = (inputs - means) * torch.exp(-log_stds)\n        log_prob = -0.5 * torchutils.sum_except_batch(\n            norm_inputs ** 2, num_batch_dims=1\n        )\n        log_prob -= torchutils.sum_except_batch(log_stds, num_batch_dims=1)\n        log_prob -= self._log_z\n        return log_prob\n\n    def _sample(self, num_samples, context):\n        # Compute", "        norm_inputs = (inputs - means) * torch.exp(log_stds)\n        log_prob = -0.5 * torchutils.sum_except_batch(\n            norm_inputs ** 2, num_batch_dims=1\n        )\n        log_prob -= torchutils.sum_except_batch(log_stds, num_batch_dims=1)\n        log_prob -= self._log_z\n        return log_prob\n\n    def _sample(self, num_samples, context):\n        # Compute")], "BASE-TERMS"),
    # ---- C04 ----
    ("c04-plus-logabsdet", ["C04"], [(FB, "        return samples, log_prob - logabsdet", "        return samples, log_prob + logabsdet")], "SLP-ASSEMBLE"),
    ("c04-forward-in-sampling", ["C04"], [(FB, "        samples, logabsdet = self._transform.inverse(noise, context=embedded_context)", "        samples, logabsdet = self._transform(noise, context=embedded_context)")], "SLP-ASSEMBLE"),
    ("c04-context-tiled", ["C04", "C18"], [(FB, "            embedded_context = torchutils.repeat_rows(\n                embedded_context, num_reps=num_samples\n            )\n\n        samples, logabsdet", "            embedded_context = embedded_context.repeat(num_samples, *([1] * (embedded_context.dim() - 1)))\n\n        samples, logabsdet")], "LEAD-LAYOUT"),
    ("c04-split-swapped", ["C04", "C18"], [(FB, "            samples = torchutils.split_leading_dim(samples, shape=[-1, num_samples])\n\n        return samples\n", "            samples = torchutils.split_leading_dim(samples, shape=[num_samples, -1])\n\n        return samples\n")], "LEAD-LAYOUT"),
    ("c04-noise-not-from-base", ["C04"], [(FB, "            noise = self._distribution.sample(num_samples, context=embedded_context)", "            noise = torch.randn(embedded_context.shape[0], num_samples, 2)")], "NOISE-SRC"),
    ("c04-fresh-noise-for-logprob", ["C04"], [(FB, "        samples, logabsdet = self._transform.inverse(noise, context=embedded_context)\n\n        if embedded_context is not None:\n            # Split the context dimension from sample dimension.\n            samples = torchutils.split_leading_dim(samples, shape=[-1, num_samples])\n            logabsdet", "        samples, logabsdet = self._transform.inverse(torch.randn_like(noise), context=embedded_context)\n\n        if embedded_context is not None:\n            # Split the context dimension from sample dimension.\n            samples = torchutils.split_leading_dim(samples, shape=[-1, num_samples])\n            logabsdet")], "SLP-ASSEMBLE"),
    ("c04-cdn-means-tiled", ["C04"], [(DN, "        means = torchutils.repeat_rows(means, num_samples)", "        means = means.repeat(num_samples, 1)")], "LEAD-LAYOUT"),
    ("c04-dist-slp-split", ["C04", "C18"], [(DB, "            log_prob = torchutils.split_leading_dim(log_prob, shape=[-1, num_samples])", "            log_prob = torchutils.split_leading_dim(log_prob, shape=[num_samples, -1])")], "LEAD-LAYOUT"),
    # ---- C18 ----
    ("c18-cat-dim0", ["C18"], [(DB, "return torch.cat(samples, dim=0 if context is None else 1)", "return torch.cat(samples, dim=0)")], "BATCH-CAT"),
    ("c18-cat-dim-swapped", ["C18"], [(DB, "return torch.cat(samples, dim=0 if context is None else 1)", "return torch.cat(samples, dim=1 if context is None else 0)")], "BATCH-CAT"),
    ("c18-no-remainder", ["C18"], [(DB, "            if num_leftover > 0:\n                samples.append(self._sample(num_leftover, context))\n", "")], "BATCH-COUNT"),
    ("c18-remainder-batchsize", ["C18"], [(DB, "samples.append(self._sample(num_leftover, context))", "samples.append(self._sample(batch_size, context))")], "BATCH-COUNT"),
    ("c18-valueerror-type", ["C18"], [(DB, '            raise TypeError("Number of samples must be a positive integer.")', '            raise ValueError("Number of samples must be a positive integer.")')], "ARG-CHECK"),
    ("c18-no-rowcount-check", ["C18"], [(DB, "            if inputs.shape[0] != context.shape[0]:\n                raise ValueError(\n                    \"Number of input items must be equal to number of context items.\"\n                )\n", "")], "ARG-CHECK"),
    ("c18-rowcount-typeerror", ["C18"], [(DB, "                raise ValueError(\n                    \"Number of input items", "                raise TypeError(\n                    \"Number of input items")], "ARG-CHECK"),
    ("c18-batchsize-unchecked", ["C18"], [(DB, "            if not check.is_positive_int(batch_size):\n                raise TypeError(\"Batch size must be a positive integer.\")\n", "")], "ARG-CHECK"),
    ("c18-leftover-dropped-context", ["C18"], [(DB, "samples.append(self._sample(num_leftover, context))", "samples.append(self._sample(num_leftover, None))")], "BATCH-COUNT"),
    ("c18-normal-sample-shape", ["C18"], [(DN, "            return torchutils.split_leading_dim(samples, [context_size, num_samples])\n\n    def _mean(self, context):\n        if context is None:", "            return torchutils.split_leading_dim(samples, [num_samples, context_size])\n\n    def _mean(self, context):\n        if context is None:")], "SHAPE"),
]

DD = "nflows/distributions/discrete.py"
MUTANTS += [
    # ---- C05 ----
    ("c05-mean-method", ["C05"], [(DN, "        return self.mean_.reshape(self._shape)", "        return self.mean")], "RES-2"),
    ("c05-mog-none-context", ["C05"], [(MADE2, "            num_rows = num_samples if context is None else context.shape[0]", "            num_rows = context.shape[0]")], "NULL-1"),
    ("c05-flow-none-context", ["C05"], [(FB, "        elif embedded_context is None:\n            noise = self._distribution.sample(num_samples)\n        else:", "        else:")], "NULL-1"),
    ("c05-normal-mean-none", ["C05"], [(DN, "        if context is None:\n            return self._log_z.new_zeros(self._shape)\n        else:\n            # The value of the context is ignored, only its size is taken into account.\n            return context.new_zeros(context.shape[0], *self._shape)", "        return context.new_zeros(context.shape[0], *self._shape)")], "NULL-1"),
    ("c05-bernoulli-sign", ["C05"], [(DD, "log_prob = -inputs * F.softplus(-logits) - (1.0 - inputs) * F.softplus(logits)", "log_prob = -inputs * F.softplus(logits) - (1.0 - inputs) * F.softplus(-logits)")], "DIST-TERMS"),
    ("c05-bernoulli-batchdims", ["C05"], [(DD, "log_prob = torchutils.sum_except_batch(log_prob, num_batch_dims=1)", "log_prob = torchutils.sum_except_batch(log_prob, num_batch_dims=2)")], "DIST-TERMS"),
    ("c05-bernoulli-mean-logits", ["C05"], [(DD, "        logits = self._compute_params(context)\n        return torch.sigmoid(logits)", "        logits = self._compute_params(context)\n        return logits")], "DIST-TERMS"),
    ("c05-cdn-sample-logstd", ["C05"], [(DN, "        stds = torch.exp(log_stds)\n", "        stds = log_stds\n")], "DIST-TERMS"),
    ("c05-cdn-roles-swapped", ["C05"], [(DN, "        means, _ = self._compute_params(context)\n        return means", "        _, means = self._compute_params(context)\n        return means")], "DIST-TERMS"),
    ("c05-mog-wrong-axis", ["C05"], [(MADE2, "                dim=-1,\n            ),\n            dim=-1,\n        )\n        return log_prob", "                dim=-2,\n            ),\n            dim=-1,\n        )\n        return log_prob")], "DIST-TERMS"),
    ("c05-mog-no-mixture-weights", ["C05"], [(MADE2, "                log_mixture_coefficients\n                - 0.5", "                0.0\n                - 0.5")], "DIST-TERMS"),
    ("c05-mog-sample-slot", ["C05"], [(MADE2, "                    outputs[:, feature, :, 1],\n                    outputs[:, feature, :, 2],", "                    outputs[:, feature, :, 2],\n                    outputs[:, feature, :, 1],")], "DIST-TERMS"),
    ("c05-logz-param", ["C05", "C03"], [(DN, "        neg_energy = -0.5 * \\\n            torchutils.sum_except_batch(inputs ** 2, num_batch_dims=1)\n        return neg_energy - self._log_z", "        neg_energy = -0.5 * \\\n            torchutils.sum_except_batch(inputs ** 2, num_batch_dims=1)\n        return neg_energy")], "BASE-TERMS"),
    ("c05-unresolved-attr", ["C05"], [(DN, "            return self._log_z.new_zeros(self._shape)", "            return self._log_z.new_zeros(self._event_shape)")], "RES-1"),
]

TB = T + "base.py"
MUTANTS += [
    # ---- C08 ----
    ("c08-cascade-drop-logdet", ["C08"], [(TB, "            outputs, logabsdet = func(outputs, context)\n            total_logabsdet += logabsdet", "            outputs, _ = func(outputs, context)")], "CMP-THREAD"),
    ("c08-cascade-not-threaded", ["C08"], [(TB, "            outputs, logabsdet = func(outputs, context)\n            total_logabsdet += logabsdet", "            outputs, logabsdet = func(inputs, context)\n            total_logabsdet += logabsdet")], "CMP-THREAD"),
    ("c08-cascade-minus", ["C08"], [(TB, "            total_logabsdet += logabsdet\n        return outputs, total_logabsdet", "            total_logabsdet -= logabsdet\n        return outputs, total_logabsdet")], "CMP-THREAD"),
    ("c08-inverse-not-reversed", ["C08"], [(TB, "funcs = (transform.inverse for transform in self._transforms[::-1])", "funcs = (transform.inverse for transform in self._transforms)")], "CMP-ORDER"),
    ("c08-inverse-forward-parts", ["C08"], [(TB, "funcs = (transform.inverse for transform in self._transforms[::-1])", "funcs = (transform for transform in self._transforms[::-1])")], "CMP-ORDER"),
    ("c08-forward-reversed", ["C08"], [(TB, "        funcs = self._transforms\n        return self._cascade(inputs, funcs, context)", "        funcs = self._transforms[::-1]\n        return self._cascade(inputs, funcs, context)")], "CMP-ORDER"),
    ("c08-swap-broken", ["C08"], [(TB, "        return self._transform.inverse(inputs, context)\n\n    def inverse(self, inputs, context=None):\n        return self._transform(inputs, context)", "        return self._transform.inverse(inputs, context)\n\n    def inverse(self, inputs, context=None):\n        return self._transform.inverse(inputs, context)")], "CMP-SWAP"),
    ("c08-swap-drop-context", ["C08"], [(TB, "        return self._transform.inverse(inputs, context)\n\n    def inverse(self, inputs, context=None):", "        return self._transform.inverse(inputs)\n\n    def inverse(self, inputs, context=None):")], "CMP-SWAP"),
    ("c08-ms-cat-order", ["C08"], [(TB, "tmp_concat_inputs = torch.cat([input_chunk, hiddens], dim=self._split_dim)", "tmp_concat_inputs = torch.cat([hiddens, input_chunk], dim=self._split_dim)")], "MS-SPLIT"),
    ("c08-ms-output-floor", ["C08"], [(TB, "            output_shape[self._split_dim - 1] = (\n                output_shape[self._split_dim - 1] + 1\n            ) // 2", "            output_shape[self._split_dim - 1] = (\n                output_shape[self._split_dim - 1]\n            ) // 2")], "MS-SPLIT"),
    ("c08-ms-index-off-by-one", ["C08"], [(TB, "            hidden_shape[self._split_dim - 1] = hidden_shape[self._split_dim - 1] // 2", "            hidden_shape[self._split_dim] = hidden_shape[self._split_dim] // 2")], "MS-SPLIT"),
    ("c08-ms-lost-last-logdet", ["C08"], [(TB, "        hiddens, logabsdet = rev_inv_transforms[0](rev_split_inputs[0], context)\n        total_logabsdet += logabsdet", "        hiddens, logabsdet = rev_inv_transforms[0](rev_split_inputs[0], context)")], "MS-SPLIT"),
    ("c08-ms-pieces-not-reversed", ["C08"], [(TB, "        rev_split_inputs = split_inputs[::-1]", "        rev_split_inputs = split_inputs")], "MS-SPLIT"),
    ("c08-ms-cat-dim", ["C08"], [(TB, "tmp_concat_inputs = torch.cat([input_chunk, hiddens], dim=self._split_dim)", "tmp_concat_inputs = torch.cat([input_chunk, hiddens], dim=1)")], "MS-SPLIT"),
    ("c08-ms-chunk-dim", ["C08"], [(TB, "                    transform_outputs, chunks=2, dim=self._split_dim\n", "                    transform_outputs, chunks=2, dim=self._split_dim - 1\n")], "MS-SPLIT"),
    ("c08-ms-carry-first-chunk", ["C08"], [(TB, "                outputs, hiddens = torch.chunk(", "                hiddens, outputs = torch.chunk(")], "MS-SPLIT"),
    ("c08-ms-shapes-twice", ["C08"], [(TB, "        self._output_shapes.append(output_shape)\n        return hidden_shape", "        self._output_shapes.append(output_shape)\n        if hidden_shape is None:\n            self._output_shapes.append(output_shape)\n        return hidden_shape")], "MS-STATE"),
    ("c08-ms-forward-logdet", ["C08"], [(TB, "            all_outputs.append(outputs.reshape(batch_size, -1))\n            total_logabsdet += logabsdet", "            all_outputs.append(outputs.reshape(batch_size, -1))\n            total_logabsdet = logabsdet")], "MS-SPLIT"),
]

SL = T + "splines/linear.py"
SQ = T + "splines/quadratic.py"
SC = T + "splines/cubic.py"
SR = T + "splines/rational_quadratic.py"
NL = T + "nonlinearities.py"
MUTANTS += [
    # ---- C09 ----
    ("c09-lin-no-pin", ["C09"], [(SL, "    cdf[..., -1] = 1.0\n", "")], "SPL-PIN"),
    ("c09-quad-no-pin-loc", ["C09"], [(SQ, "    bin_locations[..., -1] = 1.0\n", "")], "SPL-PIN"),
    ("c09-cubic-no-pin-h", ["C09"], [(SC, "    cumheights[..., -1] = 1\n", "")], "SPL-PIN"),
    ("c09-rq-no-pin-top", ["C09"], [(SR, "    cumheights[..., -1] = top\n", "")], "SPL-PIN"),
    ("c09-rq-pin-wrong-side", ["C09"], [(SR, "    cumheights[..., -1] = top\n", "    cumheights[..., -1] = right\n")], "SPL-PIN"),
    ("c09-rq-no-pin-left", ["C09"], [(SR, "    cumwidths[..., 0] = left\n", "")], "SPL-PIN"),
    ("c09-quad-pad-right", ["C09"], [(SQ, "    bin_left_cdf = F.pad(bin_left_cdf, pad=(1, 0), mode=\"constant\", value=0.0)", "    bin_left_cdf = F.pad(bin_left_cdf, pad=(1, 0), mode=\"constant\", value=1e-6)")], "SPL-PIN"),
    ("c09-rq-search-wrong-knots", ["C09"], [(SR, "            cumheights, inputs, eps=1e-6 * (top - bottom)", "            cumwidths, inputs, eps=1e-6 * (top - bottom)")], "INV-SIDE"),
    ("c09-cubic-search-wrong-knots", ["C09"], [(SC, "        bin_idx = torchutils.searchsorted(cumheights, inputs)[..., None]", "        bin_idx = torchutils.searchsorted(cumwidths, inputs)[..., None]")], "INV-SIDE"),
    ("c09-quad-denorm-wrong-box", ["C09"], [(SQ, "    if inverse:\n        outputs = outputs * (right - left) + left\n    else:\n        outputs = outputs * (top - bottom) + bottom", "    if inverse:\n        outputs = outputs * (top - bottom) + bottom\n    else:\n        outputs = outputs * (right - left) + left")], "INV-SIDE"),
    ("c09-lin-norm-wrong-box", ["C09"], [(SL, "    if inverse:\n        inputs = (inputs - bottom) / (top - bottom)\n    else:\n        inputs = (inputs - left) / (right - left)", "    if inverse:\n        inputs = (inputs - left) / (right - left)\n    else:\n        inputs = (inputs - left) / (right - left)")], "INV-SIDE"),
    ("c09-rq-no-floor", ["C09"], [(SR, "    widths = min_bin_width + (1 - min_bin_width * num_bins) * widths\n    cumwidths", "    widths = (1 - min_bin_width * num_bins) * widths\n    cumwidths")], "SPL-FLOOR"),
    ("c09-rq-derivative-relu", ["C09"], [(SR, "derivatives = min_derivative + F.softplus(unnormalized_derivatives, beta=beta)", "derivatives = min_derivative * 0 + F.relu(unnormalized_derivatives)")], "SPL-FLOOR"),
    ("c09-cubic-no-valueerror", ["C09"], [(SC, "    if min_bin_width * num_bins > 1.0:\n        raise ValueError(\"Minimal bin width too large for the number of bins\")\n", "")], "SPL-FLOOR"),
    ("c09-quad-heights-minus", ["C09"], [(SQ, "unnorm_heights_exp = F.softplus(unnormalized_heights) + 1e-3", "unnorm_heights_exp = F.softplus(unnormalized_heights) - 1e-3")], "SPL-FLOOR"),
    ("c09-tail-open-mask", ["C09", "C17"], [(SR, "inside_interval_mask = (inputs >= -tail_bound) & (inputs <= tail_bound)", "inside_interval_mask = (inputs > -tail_bound) & (inputs < tail_bound)")], "SPL-TAIL"),
    ("c09-tail-nonsquare", ["C09", "C17"], [(SQ, "            bottom=-tail_bound,\n            top=tail_bound,", "            bottom=0.0,\n            top=1.0,")], "SPL-"),
    ("c09-tail-outside-noncomplement", ["C09"], [(SC, "    outside_interval_mask = ~inside_interval_mask", "    outside_interval_mask = (inputs <= -tail_bound) | (inputs >= tail_bound)")], "SPL-TAIL"),
    ("c09-tail-logdet-nonzero", ["C09"], [(SL, "        logabsdet[outside_interval_mask] = 0\n", "        logabsdet[outside_interval_mask] = 1\n")], "SPL-TAIL"),
    ("c09-tail-rq-const", ["C09"], [(SR, "        constant = np.log(np.exp(1 - min_derivative) - 1)\n        unnormalized_derivatives[..., 0] = constant", "        constant = np.log(np.exp(1.0) - 1)\n        unnormalized_derivatives[..., 0] = constant")], "SPL-TAIL"),
    ("c09-tail-minderiv-not-forwarded", ["C09"], [(SR, "            min_derivative=min_derivative,\n            enable_identity_init=enable_identity_init,\n        )\n\n    return outputs, logabsdet", "            enable_identity_init=enable_identity_init,\n        )\n\n    return outputs, logabsdet")], "SPL-TAIL"),
    ("c09-lin-no-clamp", ["C09"], [(SL, "        outputs += alpha * input_pdfs\n        outputs = torch.clamp(outputs, 0, 1)\n", "        outputs += alpha * input_pdfs\n")], "SPL-CLAMP"),
    ("c09-lin-no-index-repair", ["C09"], [(SL, "        bin_idx[bin_idx >= num_bins] = num_bins - 1\n", "")], "SPL-CLAMP"),
    ("c09-tail-two-bounds", ["C09", "C17"], [(SC, "inside_interval_mask = (inputs >= -tail_bound) & (inputs <= tail_bound)", "inside_interval_mask = (inputs >= -tail_bound) & (inputs <= 1.0)")], "SPL-TAIL"),
    # ---- C17 ----
    ("c17-exp-closed", ["C17"], [(NL, "        if torch.min(inputs) <= 0.:", "        if torch.min(inputs) < 0.:")], "DOM-GUARD"),
    ("c17-tanh-closed-upper", ["C17"], [(NL, "if torch.min(inputs) <= -1 or torch.max(inputs) >= 1:", "if torch.min(inputs) <= -1 or torch.max(inputs) > 1:")], "DOM-GUARD"),
    ("c17-sigmoid-open", ["C17"], [(NL, "        if torch.min(inputs) < 0 or torch.max(inputs) > 1:\n            raise InputOutsideDomain()\n\n        inputs = torch.clamp", "        if torch.min(inputs) <= 0 or torch.max(inputs) >= 1:\n            raise InputOutsideDomain()\n\n        inputs = torch.clamp")], "DOM-GUARD"),
    ("c17-cauchy-no-guard", ["C17"], [(NL, "        if torch.min(inputs) < 0 or torch.max(inputs) > 1:\n            raise InputOutsideDomain()\n\n        outputs = torch.tan", "        outputs = torch.tan")], "DOM-GUARD"),
    ("c17-spline-guard-after-norm", ["C17"], [(SQ, "    if torch.min(inputs) < left or torch.max(inputs) > right:\n        raise InputOutsideDomain()\n\n    if inverse:\n        inputs = (inputs - bottom) / (top - bottom)\n    else:\n        inputs = (inputs - left) / (right - left)\n", "    if inverse:\n        inputs = (inputs - bottom) / (top - bottom)\n    else:\n        inputs = (inputs - left) / (right - left)\n\n    if torch.min(inputs) < left or torch.max(inputs) > right:\n        raise InputOutsideDomain()\n")], "DOM-GUARD"),
    ("c17-spline-strict", ["C17"], [(SR, "    if torch.min(inputs) < left or torch.max(inputs) > right:", "    if torch.min(inputs) <= left or torch.max(inputs) >= right:")], "DOM-GUARD"),
    ("c17-spline-only-min", ["C17"], [(SC, "    if torch.min(inputs) < left or torch.max(inputs) > right:", "    if torch.min(inputs) < left:")], "DOM-GUARD"),
    ("c17-sigmoid-no-clamp", ["C17"], [(NL, "        inputs = torch.clamp(inputs, self.eps, 1 - self.eps)\n", "")], "DOM-CLAMP"),
    ("c17-rq-absolute-eps", ["C17"], [(SR, "            cumwidths, inputs, eps=1e-6 * (right - left)", "            cumwidths, inputs")], "EPS-UNITS"),
    ("c17-rq-eps-wrong-box", ["C17"], [(SR, "            cumheights, inputs, eps=1e-6 * (top - bottom)", "            cumheights, inputs, eps=1e-6")], "EPS-UNITS"),
    ("c17-nonsquare-callsite", ["C17"], [(T + "autoregressive.py", "        outputs, logabsdet = linear_spline(\n            inputs=inputs, unnormalized_pdf=unnormalized_pdf, inverse=inverse\n        )", "        outputs, logabsdet = linear_spline(\n            inputs=inputs, unnormalized_pdf=unnormalized_pdf, inverse=inverse, left=-1.0, right=1.0\n        )")], "SPL-SQUARE"),
    ("c17-logit-not-inverse-sigmoid", ["C17"], [(NL, "class Logit(InverseTransform):\n    def __init__(self, temperature=1, eps=1e-6):\n        super().__init__(Sigmoid(temperature=temperature, eps=eps))", "class Logit(Sigmoid):\n    def __init__(self, temperature=1, eps=1e-6):\n        super().__init__(temperature=temperature, eps=eps)")], "DOM-GUARD"),
]

TCK = "nflows/utils/typechecks.py"
MUTANTS += [
    # ---- C20 ----
    ("c20-searchsorted-inplace", ["C20"], [(TU, "    bin_locations = bin_locations.clone()\n", "")], "UT-PURE"),
    ("c20-searchsorted-gt", ["C20"], [(TU, "return torch.sum(inputs[..., None] >= bin_locations, dim=-1) - 1", "return torch.sum(inputs[..., None] > bin_locations, dim=-1) - 1")], "UT-SEARCH"),
    ("c20-searchsorted-eps-all", ["C20"], [(TU, "    bin_locations[..., -1] += eps\n", "    bin_locations += eps\n")], "UT-SEARCH"),
    ("c20-searchsorted-no-minus", ["C20"], [(TU, "return torch.sum(inputs[..., None] >= bin_locations, dim=-1) - 1", "return torch.sum(inputs[..., None] >= bin_locations, dim=-1)")], "UT-SEARCH"),
    ("c20-repeat-rows-tile", ["C20"], [(TU, "    shape = x.shape\n    x = x.unsqueeze(1)\n    x = x.expand(shape[0], num_reps, *shape[1:])\n    return merge_leading_dims(x, num_dims=2)", "    return x.repeat(num_reps, *([1] * (x.dim() - 1)))")], "UT-RESHAPE"),
    ("c20-repeat-rows-axis", ["C20"], [(TU, "    x = x.unsqueeze(1)\n    x = x.expand(shape[0], num_reps, *shape[1:])", "    x = x.unsqueeze(0)\n    x = x.expand(num_reps, shape[0], *shape[1:])")], "UT-RESHAPE"),
    ("c20-sum-except-batch-range", ["C20"], [(TU, "reduce_dims = list(range(num_batch_dims, x.ndimension()))", "reduce_dims = list(range(num_batch_dims + 1, x.ndimension()))")], "UT-RESHAPE"),
    ("c20-merge-permute", ["C20"], [(TU, "    new_shape = torch.Size([-1]) + x.shape[num_dims:]\n    return torch.reshape(x, new_shape)", "    new_shape = torch.Size([-1]) + x.shape[num_dims:]\n    return torch.reshape(x.transpose(0, 1), new_shape)")], "UT-RESHAPE"),
    ("c20-tile-layout", ["C20"], [(TU, "    x_ = x_.reshape(n, -1)\n    x_ = x_.transpose(1, 0)\n    x_ = x_.reshape(-1)\n    return x_", "    return x_")], "UT-TILE"),
    ("c20-alt-mask-start", ["C20"], [(TU, "    start = 0 if even else 1", "    start = 1 if even else 0")], "UT-MASK"),
    ("c20-mid-mask-floor", ["C20"], [(TU, "    midpoint = features // 2 if features % 2 == 0 else features // 2 + 1", "    midpoint = features // 2")], "UT-MASK"),
    ("c20-random-mask-replacement", ["C20"], [(TU, "        input=weights, num_samples=num_samples, replacement=False", "        input=weights, num_samples=num_samples, replacement=True")], "UT-MASK"),
    ("c20-positive-int-ge", ["C20"], [(TCK, "    return is_int(x) and x > 0", "    return is_int(x) and x >= 0")], "UT-PRED"),
    ("c20-pow2", ["C20"], [(TCK, "        return not n & (n - 1)", "        return not n & (n + 1)")], "UT-PRED"),
    ("c20-tile-no-validation", ["C20"], [(TU, "    if not check.is_positive_int(n):\n        raise TypeError(\"Argument 'n' must be a positive integer.\")\n", "")], "UT-PRED"),
    ("c20-cbrt-no-sign", ["C20"], [(TU, "    return torch.sign(x) * torch.exp(torch.log(torch.abs(x)) / 3.0)", "    return torch.exp(torch.log(torch.abs(x)) / 3.0)")], "UT-FORM"),
    ("c20-logabsdet-sign-component", ["C20"], [(TU, "    _, res = torch.slogdet(x)\n    return res", "    res, _ = torch.slogdet(x)\n    return res")], "UT-FORM"),
    ("c20-kde-eye", ["C20"], [(TU, "    precision = (1 / (std ** 2)) * torch.eye(\n        D, dtype=samples.dtype, device=samples.device\n    )", "    precision = (1 / (std ** 2)) * torch.eye(D)")], "UT-DTYPE"),
    ("c20-split-mutates-shape", ["C20"], [(TU, "    new_shape = torch.Size(shape) + x.shape[1:]\n    return torch.reshape(x, new_shape)", "    x *= 1\n    new_shape = torch.Size(shape) + x.shape[1:]\n    return torch.reshape(x, new_shape)")], "UT-PURE"),
]

LU = T + "lu.py"
QR = T + "qr.py"
SVD = T + "svd.py"
ORT = T + "orthogonal.py"
STD = T + "standard.py"
MUTANTS += [
    # ---- C01 ----
    ("c01-coupling-drop-identity-ld", ["C01"], [(CPL, "            logabsdet += logabsdet_identity\n", "")], "LD-NODROP"),
    ("c01-multiscale-drop", ["C01"], [(TB, "            all_outputs.append(outputs.reshape(batch_size, -1))\n            total_logabsdet += logabsdet", "            all_outputs.append(outputs.reshape(batch_size, -1))")], "LD-NODROP"),
    ("c01-conv-drop", ["C01"], [(T + "conv.py", "        return outputs, torchutils.sum_except_batch(logabsdet)", "        return outputs, torchutils.sum_except_batch(logabsdet * 0)")], None),
    ("c01-flow-drop", ["C01", "C03"], [(FB, "        return log_prob + logabsdet", "        return log_prob")], "LD-NODROP"),
    ("c01-piecewise-coupling-batchdims", ["C01"], [(CPL, "        return outputs, torchutils.sum_except_batch(logabsdet)\n\n    def _piecewise_cdf", "        return outputs, torchutils.sum_except_batch(logabsdet, num_batch_dims=2)\n\n    def _piecewise_cdf")], "LD-SHAPE"),
    ("c01-affine-sum-dim0", ["C01"], [(CPL, "        logabsdet = torchutils.sum_except_batch(log_scale, num_batch_dims=1)\n        return outputs, logabsdet\n\n    def _coupling_transform_inverse", "        logabsdet = torch.sum(log_scale, dim=0)\n        return outputs, logabsdet\n\n    def _coupling_transform_inverse")], "LD-SHAPE"),
    ("c01-exp-unreduced", ["C01"], [(NL, "        outputs = torch.exp(inputs)\n        logabsdet = torchutils.sum_except_batch(inputs, num_batch_dims=1)", "        outputs = torch.exp(inputs)\n        logabsdet = torch.log(outputs)")], "LD-SHAPE"),
    ("c01-glu-flatten", ["C01"], [(NL, "        logabsdet = torchutils.sum_except_batch(torch.log(gate).expand_as(outputs))\n        return outputs, logabsdet\n\n    def inverse", "        logabsdet = torch.log(gate).reshape(-1)\n        return outputs, logabsdet\n\n    def inverse")], "LD-SHAPE"),
    ("c01-actnorm-no-hw", ["C01"], [(NORM, "            logabsdet = h * w * torch.sum(self.log_scale) * outputs.new_ones(batch_size)", "            logabsdet = torch.sum(self.log_scale) * outputs.new_ones(batch_size)")], "LD-MULT"),
    ("c01-actnorm-h-only", ["C01"], [(NORM, "            logabsdet = -h * w * torch.sum(self.log_scale) * outputs.new_ones(batch_size)", "            logabsdet = -h * torch.sum(self.log_scale) * outputs.new_ones(batch_size)")], "LD-MULT"),
    ("c01-conv-no-pixel-sum", ["C01"], [(T + "conv.py", "        logabsdet = logabsdet.reshape(b, h, w)\n\n        return outputs, torchutils.sum_except_batch(logabsdet)", "        logabsdet = logabsdet.reshape(b, h, w)[:, 0, 0]\n\n        return outputs, logabsdet")], "LD-MULT"),
    ("c01-pointwise-no-numel", ["C01"], [(STD, "            return self._log_abs_scale * torch.Size(batch_shape).numel()", "            return self._log_abs_scale")], "LD-MULT"),
    ("c01-scalar-logdet", ["C01"], [(LU, "        logabsdet = self.logabsdet() * inputs.new_ones(outputs.shape[0])\n        return outputs, logabsdet", "        logabsdet = self.logabsdet()\n        return outputs, logabsdet")], "LD-SHAPE"),
    ("c01-uncond-spline-drop", ["C01"], [(SL, "        outputs[inside_interval_mask], logabsdet[inside_interval_mask] = linear_spline(", "        outputs[inside_interval_mask], _ = linear_spline(")], "LD-NODROP"),
    # ---- C02 ----
    ("c02-affine-inverse-sign", ["C02"], [(CPL, "        logabsdet = -torchutils.sum_except_batch(log_scale, num_batch_dims=1)", "        logabsdet = torchutils.sum_except_batch(log_scale, num_batch_dims=1)")], "INV-SIGN"),
    ("c02-leaky-sign", ["C02"], [(NL, "        logabsdet = -self.log_negative_slope * mask", "        logabsdet = self.log_negative_slope * mask")], "INV-SIGN"),
    ("c02-cauchy-sign", ["C02"], [(NL, "        outputs = torch.tan(np.pi * (inputs - 0.5))\n        logabsdet = -torchutils.sum_except_batch(", "        outputs = torch.tan(np.pi * (inputs - 0.5))\n        logabsdet = torchutils.sum_except_batch(")], "INV-SIGN"),
    ("c02-rq-inverse-sign", ["C02"], [(SR, "        return outputs, -logabsdet", "        return outputs, logabsdet")], "INV-SIGN"),
    ("c02-lu-inverse-sign", ["C02", "C11"], [(LU, "        logabsdet = -self.logabsdet()\n        logabsdet = logabsdet * inputs.new_ones(outputs.shape[0])", "        logabsdet = self.logabsdet()\n        logabsdet = logabsdet * inputs.new_ones(outputs.shape[0])")], "INV-SIGN"),
    ("c02-actnorm-inverse-sign", ["C02"], [(NORM, "            logabsdet = -torch.sum(self.log_scale) * outputs.new_ones(batch_size)", "            logabsdet = torch.sum(self.log_scale) * outputs.new_ones(batch_size)")], "INV-SIGN"),
    ("c02-bn-inverse-sign", ["C02"], [(NORM, "        logabsdet_ = -torch.log(self.weight) + 0.5 * torch.log(\n            self.running_var + self.eps\n        )", "        logabsdet_ = -torch.log(self.weight) - 0.5 * torch.log(\n            self.running_var + self.eps\n        )")], "INV-SIGN"),
    ("c02-pointwise-sign", ["C02"], [(STD, "        logabsdet = -self._batch_logabsdet(batch_shape).expand(batch_size)", "        logabsdet = self._batch_logabsdet(batch_shape).expand(batch_size)")], "INV-SIGN"),
    ("c02-cdf-flag", ["C02"], [(NL, "        return self._spline(inputs, inverse=True)\n\n\nclass PiecewiseQuadraticCDF", "        return self._spline(inputs, inverse=False)\n\n\nclass PiecewiseQuadraticCDF")], "INV-FLAG"),
    ("c02-ar-flag", ["C02"], [(AR, "    def _elementwise_inverse(self, inputs, autoregressive_params):\n        return self._elementwise(inputs, autoregressive_params, inverse=True)\n\n\nclass MaskedPiecewiseQuadratic", "    def _elementwise_inverse(self, inputs, autoregressive_params):\n        return self._elementwise(inputs, autoregressive_params)\n\n\nclass MaskedPiecewiseQuadratic")], "INV-FLAG"),
    ("c02-squeeze-guard-4", ["C02"], [(T + "reshape.py", "        if c < self.factor ** 2 or c % self.factor ** 2 != 0:", "        if c < 4 or c % 4 != 0:")], "INV-CONFIG"),
    ("c02-squeeze-divisor", ["C02"], [(T + "reshape.py", "            batch_size, c // self.factor ** 2, self.factor, self.factor, h, w\n", "            batch_size, c // (2 * self.factor), self.factor, self.factor, h, w\n")], "INV-CONFIG"),
    ("c02-scale-relu", ["C02"], [(AR, "        scale = F.softplus(unconstrained_scale) + self._epsilon\n        log_scale = torch.log(scale)\n        outputs = (inputs - shift) / scale", "        scale = F.softplus(unconstrained_scale) - self._epsilon\n        log_scale = torch.log(scale)\n        outputs = (inputs - shift) / scale")], "INV-POS"),
    ("c02-general-activation-clamp", ["C02"], [(CPL, "GENERAL_SCALE_ACTIVATION = lambda x : (softplus(x) + 1e-3).clamp(0, 3)", "GENERAL_SCALE_ACTIVATION = lambda x : (softplus(x) - 1e-3).clamp(0, 3)")], "INV-POS"),
    ("c02-bn-weight-no-eps", ["C02"], [(NORM, "        return F.softplus(self.unconstrained_weight) + self.eps", "        return F.relu(self.unconstrained_weight) + self.eps * 0")], "INV-POS"),
    # ---- C11 ----
    ("c11-lu-logdet-wrong-diag", ["C11"], [(LU, "        return torch.sum(torch.log(self.upper_diag))", "        return torch.sum(torch.log(F.softplus(self.unconstrained_upper_diag)))")], "LIN-LOGDET"),
    ("c11-lu-upper-diag-raw", ["C11"], [(LU, "        upper[self.diag_indices[0], self.diag_indices[1]] = self.upper_diag", "        upper[self.diag_indices[0], self.diag_indices[1]] = self.unconstrained_upper_diag")], "LIN-LOGDET"),
    ("c11-qr-diag-no-exp", ["C11"], [(QR, "        upper[self.diag_indices[0], self.diag_indices[1]] = torch.exp(\n            self.log_upper_diag\n        )", "        upper[self.diag_indices[0], self.diag_indices[1]] = F.softplus(\n            self.log_upper_diag\n        )")], "LIN-LOGDET"),
    ("c11-svd-inverse-mul", ["C11"], [(SVD, "        outputs /= self.diagonal", "        outputs /= self.diagonal + self.eps")], "LIN-LOGDET"),
    ("c11-svd-weight-inverse", ["C11"], [(SVD, "        diagonal_inv = torch.diag(torch.reciprocal(self.diagonal))", "        diagonal_inv = torch.diag(self.diagonal)")], "LIN-LOGDET"),
    ("c11-diag-not-positive", ["C11"], [(SVD, "        return self.eps + F.softplus(self.unconstrained_diagonal)", "        return self.eps + self.unconstrained_diagonal")], "LIN-POS"),
    ("c11-householder-not-reversed", ["C11"], [(ORT, "        reverse_idx = torch.arange(self.num_transforms - 1, -1, -1)", "        reverse_idx = torch.arange(0, self.num_transforms)")], "ORTH-REV"),
    ("c11-householder-skip-first", ["C11"], [(ORT, "        reverse_idx = torch.arange(self.num_transforms - 1, -1, -1)", "        reverse_idx = torch.arange(self.num_transforms - 1, 0, -1)")], "ORTH-REV"),
    ("c11-reflection-coefficient", ["C11"], [(ORT, "temp = torch.ger(temp, (2.0 / squared_norm) * q_vector)  # Outer product.", "temp = torch.ger(temp, (1.0 / squared_norm) * q_vector)  # Outer product.")], "ORTH-REV"),
    ("c11-conv-override-weight", ["C11"], [(T + "conv.py", "    def forward(self, inputs, context=None):\n        if inputs.dim() != 4:", "    def weight(self):\n        return self.permutation(super().weight())[0]\n\n    def forward(self, inputs, context=None):\n        if inputs.dim() != 4:")], "UNDECIDED"),
    ("c11-naive-logdet-other", ["C11"], [(LIN, "        return torchutils.logabsdet(self._weight)\n", "        return torchutils.logabsdet(self._weight.t() @ self._weight) / 1.0\n")], "LIN-LOGDET"),
    ("c11-abstract-accessor", ["C11"], [(QR, "    def weight_inverse(self):", "    def _weight_inverse_unused(self):")], "LIN-COMPLETE"),
]

# ---- round-2 rules: SLP-CTX, CMP-ORDER sequence forms, NUM-LOGSPACE ----
MUTANTS += [
    ("c04-sample-base-raw-context", ["C04"], [(FB, "            noise = self._distribution.sample(num_samples, context=embedded_context)", "            noise = self._distribution.sample(num_samples, context=context)")], "SLP-CTX"),
    ("c04-slp-base-raw-context", ["C04"], [(FB, "            noise, log_prob = self._distribution.sample_and_log_prob(\n                num_samples, context=embedded_context\n            )", "            noise, log_prob = self._distribution.sample_and_log_prob(\n                num_samples, context=context\n            )")], "SLP-CTX"),
    ("c04-logprob-transform-raw-context", ["C04"], [(FB, "        noise, logabsdet = self._transform(inputs, context=embedded_context)", "        noise, logabsdet = self._transform(inputs, context=context)")], "SLP-CTX"),
    ("c04-sample-double-embedding", ["C04"], [(FB, "        samples, _ = self._transform.inverse(noise, context=embedded_context)", "        samples, _ = self._transform.inverse(noise, context=self._embedding_net(embedded_context))")], "SLP-CTX"),
    ("c08-ctor-reversed", ["C08"], [(TB, "        self._transforms = nn.ModuleList(transforms)", "        self._transforms = nn.ModuleList(reversed(list(transforms)))")], "CMP-ORDER"),
    ("c08-inverse-list-forward-order", ["C08"], [(TB, "funcs = (transform.inverse for transform in self._transforms[::-1])", "funcs = list(t.inverse for t in list(self._transforms))")], "CMP-ORDER"),
    ("c08-inverse-double-reverse", ["C08"], [(TB, "funcs = (transform.inverse for transform in self._transforms[::-1])", "funcs = reversed([t.inverse for t in self._transforms[::-1]])")], "CMP-ORDER"),
    ("c19-svd-log-prod", ["C19"], [(SVD, "        return torch.sum(self.log_diagonal)", "        return torch.log(torch.prod(self.diagonal))")], "NUM-LOGSPACE"),
    ("c19-logabsdet-via-det", ["C19"], [(TU, "    _, res = torch.slogdet(x)\n    return res", "    det = torch.det(x)\n    return torch.log(torch.abs(det))")], "NUM-LOGSPACE"),
    ("c19-lu-log-prod-method", ["C19"], [(LU, "        return torch.sum(torch.log(self.upper_diag))", "        return self.upper_diag.prod().log()")], "NUM-LOGSPACE"),
]

MUTANTS += [
    ("c10-cached-forward-no-transpose", ["C10"], [(LIN, "            outputs = F.linear(inputs, self.cache.weight, self.bias)", "            outputs = inputs @ self.cache.weight + self.bias")], "CACHE-USE"),
    ("c10-cached-inverse-bias-scaled", ["C10"], [(LIN, "            outputs = F.linear(inputs - self.bias, self.cache.inverse)", "            outputs = F.linear(inputs, self.cache.inverse, -self.bias)")], "CACHE-USE"),
]

MUTANTS += [
    ("c12-functional-dropout-default", ["C12"], [("nflows/nn/nets/resnet.py", "        temps = self.dropout(temps)\n        temps = self.linear_layers[1](temps)", "        temps = F.dropout(temps, p=0.1)\n        temps = self.linear_layers[1](temps)")], "BM-RNG"),
    ("c12-noise-in-forward", ["C12"], [("nflows/transforms/nonlinearities.py", "        outputs = torch.tanh(inputs)\n", "        outputs = torch.tanh(inputs + 1e-6 * torch.randn_like(inputs))\n")], "BM-RNG"),
]

MUTANTS += [
    ("c11o-not-threaded", ["C11"], [(ORT, "            outputs = outputs - temp", "            outputs = inputs - temp")], "ORTH-REV"),
    ("c11o-inner-with-inputs", ["C11"], [(ORT, "            temp = outputs @ q_vector  # Inner product.", "            temp = inputs @ q_vector  # Inner product.")], "ORTH-REV"),
    ("c11o-norm-multiplies", ["C11"], [(ORT, "temp = torch.ger(temp, (2.0 / squared_norm) * q_vector)  # Outer product.", "temp = torch.ger(temp, (2.0 * squared_norm) * q_vector)  # Outer product.")], "ORTH-REV"),
    ("c11o-norms-of-other-axis", ["C11"], [(ORT, "        squared_norms = torch.sum(q_vectors ** 2, dim=-1)", "        squared_norms = torch.sum(q_vectors ** 2, dim=0)")], "ORTH-REV"),
    ("c11o-norm-not-squared", ["C11"], [(ORT, "        squared_norms = torch.sum(q_vectors ** 2, dim=-1)", "        squared_norms = torch.sum(torch.abs(q_vectors), dim=-1)")], "ORTH-REV"),
    ("c11o-added", ["C11"], [(ORT, "            outputs = outputs - temp", "            outputs = outputs + temp")], "ORTH-REV"),
    ("c11o-inverse-flip-feature-axis", ["C11"], [(ORT, "        reverse_idx = torch.arange(self.num_transforms - 1, -1, -1)\n        return self._apply_transforms(inputs, self.q_vectors[reverse_idx])", "        return self._apply_transforms(inputs, self.q_vectors.flip(1))")], "ORTH-REV"),
    ("c11o-inverse-same-order", ["C11"], [(ORT, "        return self._apply_transforms(inputs, self.q_vectors[reverse_idx])", "        return self._apply_transforms(inputs, self.q_vectors)")], "ORTH-REV"),
]

MUTANTS += [
    ("c05-cdn-noise-sample-major", ["C05", "C04"], [("nflows/distributions/normal.py", "        means = torchutils.repeat_rows(means, num_samples)\n        stds = torchutils.repeat_rows(stds, num_samples)\n", ""), ("nflows/distributions/normal.py", "        noise = torch.randn(context_size * num_samples, *\n                            self._shape, device=means.device)\n        samples = means + stds * noise", "        noise = torch.randn(num_samples, context_size, *self._shape, device=means.device)\n        samples = torchutils.merge_leading_dims(means + stds * noise, num_dims=2)")], "LEAD-LAYOUT"),
    ("c05-cdn-rows-on-sample-axis", ["C05"], [("nflows/distributions/normal.py", "        means = torchutils.repeat_rows(means, num_samples)\n        stds = torchutils.repeat_rows(stds, num_samples)\n", ""), ("nflows/distributions/normal.py", "        noise = torch.randn(context_size * num_samples, *\n                            self._shape, device=means.device)\n        samples = means + stds * noise\n        return torchutils.split_leading_dim(samples, [context_size, num_samples])", "        noise = torch.randn(context_size, num_samples, *self._shape, device=means.device)\n        return means + stds * noise")], "LEAD-LAYOUT"),
    ("c20-mid-round", ["C20"], [(TU, "    midpoint = features // 2 if features % 2 == 0 else features // 2 + 1", "    midpoint = round(features / 2)")], "UT-MASK"),
    ("c08-ms-output-round", ["C08"], [(TB, "            output_shape[self._split_dim - 1] = (\n                output_shape[self._split_dim - 1] + 1\n            ) // 2", "            output_shape[self._split_dim - 1] = round(output_shape[self._split_dim - 1] / 2)")], "MS-SPLIT"),
]

DNF = "nflows/distributions/normal.py"
MUTANTS += [
    ("c03-normal-times-std", ["C03", "C05"], [(DNF, "        norm_inputs = (inputs - means) * torch.exp(-log_stds)", "        norm_inputs = (inputs - means) * torch.exp(log_stds)")], "BASE-TERMS"),
    ("c03-normal-roles-swapped", ["C03", "C05"], [(DNF, "        norm_inputs = (inputs - means) * torch.exp(-log_stds)", "        norm_inputs = (inputs - log_stds) * torch.exp(-means)")], "BASE-TERMS"),
    ("c03-normal-quarter", ["C03"], [(DNF, "        neg_energy = -0.5 * \\\n            torchutils.sum_except_batch(inputs ** 2, num_batch_dims=1)", "        neg_energy = -torchutils.sum_except_batch(inputs ** 2, num_batch_dims=1) / 4")], "BASE-TERMS"),
    ("c03-normal-cube", ["C03"], [(DNF, "            torchutils.sum_except_batch(inputs ** 2, num_batch_dims=1)", "            torchutils.sum_except_batch(inputs ** 2 * inputs, num_batch_dims=1)")], "BASE-TERMS"),
]

MUTANTS += [
    ("c06-inverse-one-pass-short", ["C06"], [(AR, "        for _ in range(num_inputs):\n            autoregressive_params = self.autoregressive_net(outputs, context)\n            outputs, logabsdet = self._elementwise_inverse(\n                inputs, autoregressive_params\n            )", "        for _ in range(num_inputs - 2):\n            autoregressive_params = self.autoregressive_net(outputs, context)\n            outputs, _ = self._elementwise_inverse(inputs, autoregressive_params)\n        autoregressive_params = self.autoregressive_net(outputs, context)\n        outputs, logabsdet = self._elementwise_inverse(inputs, autoregressive_params)")], "INV-AR"),
    ("c06-inverse-logdet-of-first-pass", ["C06"], [(AR, "        for _ in range(num_inputs):\n            autoregressive_params = self.autoregressive_net(outputs, context)\n            outputs, logabsdet = self._elementwise_inverse(\n                inputs, autoregressive_params\n            )", "        autoregressive_params = self.autoregressive_net(outputs, context)\n        outputs, logabsdet = self._elementwise_inverse(inputs, autoregressive_params)\n        for _ in range(num_inputs - 1):\n            autoregressive_params = self.autoregressive_net(outputs, context)\n            outputs, _ = self._elementwise_inverse(inputs, autoregressive_params)")], "INV-AR"),
    ("c01-pointwise-logscale-frozen", ["C01", "C02", "C03"], [("nflows/transforms/standard.py", "    @property\n    def _log_abs_scale(self) -> Tensor:\n        return torch.log(torch.abs(self._scale))\n", "        self.register_buffer(\"_log_abs_scale\", torch.log(torch.abs(scale)), persistent=False)\n")], "LD-STATE"),
]

MUTANTS += [
    ("c11-householder-zero-rows", ["C11"], [(ORT, "        basis = torch.eye(features)[torch.arange(num_pairs) % features]", "        basis = torch.eye(num_pairs, features)")], "ORTH-INIT"),
    ("c11-householder-column-out-of-range", ["C11"], [(ORT, "            qv[-1, num_pairs % features] = 1", "            qv[-1, num_pairs] = 1")], "ORTH-INIT"),
]

MUTANTS += [
    ("c02-coupling-writeback-swapped", ["C02"], [(CPL, "        outputs[:, self.identity_features] = identity_split\n        outputs[:, self.transform_features] = transform_split\n", "        outputs[:, self.transform_features] = identity_split\n        outputs[:, self.identity_features] = transform_split\n")], "INV-ROUND"),
    ("c02-coupling-inverse-net-before-uncond", ["C02"], [(CPL, "        logabsdet = 0.0\n        if self.unconditional_transform is not None:\n            identity_split, logabsdet = self.unconditional_transform.inverse(\n                identity_split, context\n            )\n\n        transform_params = self.transform_net(identity_split, context)", "        transform_params = self.transform_net(identity_split, context)\n        logabsdet = 0.0\n        if self.unconditional_transform is not None:\n            identity_split, logabsdet = self.unconditional_transform.inverse(\n                identity_split, context\n            )\n")], "INV-ROUND"),
    ("c02-coupling-inverse-uncond-forward", ["C02"], [(CPL, "            identity_split, logabsdet = self.unconditional_transform.inverse(\n                identity_split, context\n            )", "            identity_split, logabsdet = self.unconditional_transform(\n                identity_split, context\n            )")], "INV-ROUND"),
    ("c02-coupling-inverse-drops-split-logdet", ["C02"], [(CPL, "        logabsdet += logabsdet_split\n", "")], "INV-ROUND"),
]

MUTANTS += [
    ("c08-inverse-stored-iterator", ["C08"], [(TB, "        self._transforms = nn.ModuleList(transforms)", "        self._transforms = nn.ModuleList(transforms)\n        self._inverse_transforms = reversed(self._transforms)"), (TB, "funcs = (transform.inverse for transform in self._transforms[::-1])", "funcs = (transform.inverse for transform in self._inverse_transforms)")], "CMP-ORDER"),
    ("c05-cdn-reshape-not-transpose", ["C05"], [("nflows/distributions/normal.py", "        means = torchutils.repeat_rows(means, num_samples)\n        stds = torchutils.repeat_rows(stds, num_samples)\n", ""), ("nflows/distributions/normal.py", "        noise = torch.randn(context_size * num_samples, *\n                            self._shape, device=means.device)\n        samples = means + stds * noise\n        return torchutils.split_leading_dim(samples, [context_size, num_samples])", "        noise = torch.randn(num_samples, context_size, *self._shape, device=means.device)\n        samples = means + stds * noise\n        return samples.reshape(context_size, num_samples, *self._shape)")], "LEAD-LAYOUT"),
]

# ---- C11 LIN-WORD / LIN-LOGDET on the matrix-word algebra ----
MUTANTS += [
    ("c11w-lu-weight-order", ["C11"], [(LU, "        return lower @ upper", "        return upper @ lower")], "LIN-WORD"),
    ("c11w-lu-forward-order", ["C11"], [(LU, "        outputs = F.linear(inputs, upper)\n        outputs = F.linear(outputs, lower, self.bias)", "        outputs = F.linear(inputs, lower)\n        outputs = F.linear(outputs, upper, self.bias)")], "LIN-WORD"),
    ("c11w-lu-forward-no-bias", ["C11"], [(LU, "        outputs = F.linear(outputs, lower, self.bias)", "        outputs = F.linear(outputs, lower)")], "LIN-WORD"),
    ("c11w-lu-inverse-solve-order", ["C11"], [(LU, "        outputs = torch.linalg.solve_triangular(\n            lower, outputs.t(), upper=False, unitriangular=True\n        )\n        outputs = torch.linalg.solve_triangular(\n            upper, outputs, upper=True, unitriangular=False\n        )", "        outputs = torch.linalg.solve_triangular(\n            upper, outputs.t(), upper=True, unitriangular=False\n        )\n        outputs = torch.linalg.solve_triangular(\n            lower, outputs, upper=False, unitriangular=True\n        )")], "LIN-WORD"),
    ("c11w-lu-inverse-unit-flag", ["C11"], [(LU, "            upper, outputs, upper=True, unitriangular=False\n", "            upper, outputs, upper=True, unitriangular=True\n")], "LIN-WORD"),
    ("c11w-lu-inverse-upper-flag", ["C11"], [(LU, "            lower, outputs.t(), upper=False, unitriangular=True\n", "            lower, outputs.t(), upper=True, unitriangular=True\n")], "LIN-WORD"),
    ("c11w-lu-inverse-bias-late", ["C11"], [(LU, "        outputs = inputs - self.bias\n        outputs = torch.linalg.solve_triangular(\n            lower, outputs.t()", "        outputs = inputs\n        outputs = torch.linalg.solve_triangular(\n            lower, outputs.t()"), (LU, "        outputs = outputs.t()\n\n        logabsdet = -self.logabsdet()", "        outputs = outputs.t() - self.bias\n\n        logabsdet = -self.logabsdet()")], "LIN-WORD"),
    ("c11w-lu-weight-inverse-order", ["C11"], [(LU, "        lower_inverse = torch.linalg.solve_triangular(\n            lower, identity, upper=False, unitriangular=True\n        )\n        weight_inverse = torch.linalg.solve_triangular(\n            upper, lower_inverse, upper=True, unitriangular=False\n        )", "        upper_inverse = torch.linalg.solve_triangular(\n            upper, identity, upper=True, unitriangular=False\n        )\n        weight_inverse = torch.linalg.solve_triangular(\n            lower, upper_inverse, upper=False, unitriangular=True\n        )")], "LIN-WORD"),
    ("c11w-lu-lower-diag-not-one", ["C11"], [(LU, "        lower[self.diag_indices[0], self.diag_indices[1]] = 1.0", "        lower[self.diag_indices[0], self.diag_indices[1]] = 2.0")], "LIN-"),
    ("c11w-lu-upper-entries-in-lower", ["C11"], [(LU, "        upper[self.upper_indices[0], self.upper_indices[1]] = self.upper_entries", "        upper[self.lower_indices[0], self.lower_indices[1]] = self.upper_entries")], "LIN-WORD"),
    ("c11w-qr-weight-no-transpose", ["C11"], [(QR, "        weight, _ = self.orthogonal(upper.t())\n        return weight.t()", "        weight, _ = self.orthogonal(upper)\n        return weight")], "LIN-WORD"),
    ("c11w-qr-forward-inverse-orth", ["C11"], [(QR, "        outputs, _ = self.orthogonal(outputs)  # Ignore logabsdet as we know it's zero.", "        outputs, _ = self.orthogonal.inverse(outputs)  # Ignore logabsdet as we know it's zero.")], "LIN-WORD"),
    ("c11w-qr-inverse-order", ["C11"], [(QR, "        outputs, _ = self.orthogonal.inverse(\n            outputs\n        )  # Ignore logabsdet since we know it's zero.\n        outputs = torch.linalg.solve_triangular(upper, outputs.t(), upper=True)\n        outputs = outputs.t()", "        outputs = torch.linalg.solve_triangular(upper, outputs.t(), upper=True)\n        outputs = outputs.t()\n        outputs, _ = self.orthogonal.inverse(\n            outputs\n        )  # Ignore logabsdet since we know it's zero.")], "LIN-WORD"),
    ("c11w-qr-weight-inverse-orth-dir", ["C11"], [(QR, "        weight_inv, _ = self.orthogonal(upper_inv)", "        weight_inv, _ = self.orthogonal.inverse(upper_inv)")], "LIN-WORD"),
    ("c11w-qr-solve-lower", ["C11"], [(QR, "        upper_inv = torch.linalg.solve_triangular(upper, identity, upper=True)", "        upper_inv = torch.linalg.solve_triangular(upper, identity, upper=False)")], "LIN-WORD"),
    ("c11w-svd-forward-orth-swapped", ["C11"], [(SVD, "        outputs, _ = self.orthogonal_2(inputs)  # Ignore logabsdet as we know it's zero.\n        outputs *= self.diagonal\n        outputs, _ = self.orthogonal_1(", "        outputs, _ = self.orthogonal_1(inputs)  # Ignore logabsdet as we know it's zero.\n        outputs *= self.diagonal\n        outputs, _ = self.orthogonal_2(")], "LIN-WORD"),
    ("c11w-svd-weight-no-transpose", ["C11"], [(SVD, "        weight, _ = self.orthogonal_1(weight.t())\n        return weight.t()", "        weight, _ = self.orthogonal_1(weight)\n        return weight")], "LIN-WORD"),
    ("c11w-svd-weight-inverse-dir", ["C11"], [(SVD, "        weight_inv, _ = self.orthogonal_2.inverse(weight_inv.t())", "        weight_inv, _ = self.orthogonal_2(weight_inv.t())")], "LIN-WORD"),
    ("c11w-svd-inverse-mult", ["C11"], [(SVD, "        outputs /= self.diagonal", "        outputs *= self.diagonal")], "LIN-WORD"),
    ("c11w-svd-logdet-twice", ["C11"], [(SVD, "        return torch.sum(self.log_diagonal)", "        return 2 * torch.sum(self.log_diagonal)")], "LIN-LOGDET"),
    ("c11w-svd-logdiag-no-log", ["C11"], [(SVD, "        return torch.log(self.diagonal)", "        return self.diagonal")], "LIN-LOGDET"),
    ("c11w-naive-weight-inverse-transposed", ["C11"], [(LIN, "        return torch.inverse(self._weight)", "        return torch.inverse(self._weight.t())")], "LIN-WORD"),
    ("c11w-naive-forward-transposed", ["C11"], [(LIN, "        outputs = F.linear(inputs, self._weight, self.bias)", "        outputs = F.linear(inputs, self._weight.t(), self.bias)")], "LIN-WORD"),
    ("c11w-naive-combined-sign", ["C11"], [(LIN, "        logabsdet = torch.sum(torch.log(torch.abs(torch.diag(lu))))\n        return weight_inv, logabsdet", "        logabsdet = -torch.sum(torch.log(torch.abs(torch.diag(lu))))\n        return weight_inv, logabsdet")], "LIN-LOGDET"),
    ("c11w-naive-combined-not-inverse", ["C11"], [(LIN, "        weight_inv = torch.lu_solve(identity, lu, lu_pivots)", "        weight_inv = torch.lu_solve(self._weight, lu, lu_pivots)")], "LIN-WORD"),
    ("c11w-naive-inverse-no-transpose", ["C11"], [(LIN, "        outputs = torch.lu_solve(outputs.t(), lu, lu_pivots).t()", "        outputs = torch.lu_solve(outputs.t(), *torch.lu(self._weight.t())).t()")], "UNDECIDED"),
    ("c11w-base-combined-swapped", ["C11"], [(LIN, "        return self.weight(), self.logabsdet()", "        return self.weight_inverse(), self.logabsdet()")], "LIN-WORD"),
    ("c11w-base-combined-inverse-sign", ["C11"], [(LIN, "        return self.weight_inverse(), self.logabsdet()", "        return self.weight_inverse(), -self.logabsdet()")], "LIN-LOGDET"),
    ("c11w-householder-matrix-forward", ["C11"], [(ORT, "        outputs, _ = self.inverse(identity)\n        return outputs", "        outputs, _ = self.forward(identity)\n        return outputs")], "LIN-WORD"),
]

MUTANTS += [
    ("c16-inplace-exp-result", ["C16"], [(NL, "        outputs = torch.exp(inputs)\n        logabsdet = torchutils.sum_except_batch(inputs, num_batch_dims=1)", "        outputs = torch.exp(inputs)\n        logabsdet = torchutils.sum_except_batch(torch.log(outputs), num_batch_dims=1)\n        outputs += 0.0")], "GRAD-INPLACE"),
    ("c16-inplace-sigmoid-result", ["C16"], [(CPL, "        scale = self.scale_activation(unconstrained_scale)\n        return scale, shift", "        scale = torch.sigmoid(unconstrained_scale + 2)\n        scale += 1e-3\n        return scale, shift")], "GRAD-INPLACE"),
    ("c16-inplace-sqrt-result", ["C16"], [(NORM, "        outputs = (\n            self.weight * ((inputs - mean) / torch.sqrt((var + self.eps))) + self.bias\n        )\n", "        std = torch.sqrt(var + self.eps)\n        outputs = self.weight * ((inputs - mean) / std) + self.bias\n        std *= 1.0\n")], "GRAD-INPLACE"),
    ("c16-inplace-mul-operand", ["C16"], [(AR, "        outputs = scale * inputs + shift\n        logabsdet = torchutils.sum_except_batch(log_scale, num_batch_dims=1)", "        outputs = scale * inputs + shift\n        scale -= self._epsilon\n        logabsdet = torchutils.sum_except_batch(log_scale, num_batch_dims=1)")], "GRAD-INPLACE"),
]

MUTANTS += [
    ("c07-affine-flip", ["C07"], [(CPL, "        outputs = inputs * scale + shift\n        logabsdet = torchutils.sum_except_batch(log_scale, num_batch_dims=1)", "        outputs = inputs.flip(1) * scale + shift\n        logabsdet = torchutils.sum_except_batch(log_scale, num_batch_dims=1)")], "CPL-ELEM"),
    ("c07-maf-cumsum", ["C07"], [(AR, "        outputs = scale * inputs + shift\n        logabsdet = torchutils.sum_except_batch(log_scale, num_batch_dims=1)", "        outputs = scale * torch.cumsum(inputs, dim=1) + shift\n        logabsdet = torchutils.sum_except_batch(log_scale, num_batch_dims=1)")], "CPL-ELEM"),
    ("c01-tanh-centered", ["C01"], [(NL, "        outputs = torch.tanh(inputs)\n        logabsdet = torch.log(1 - outputs ** 2)", "        outputs = torch.tanh(inputs - inputs.mean(-1, keepdim=True))\n        logabsdet = torch.log(1 - outputs ** 2)")], "LD-ELEM"),
]

BENIGN = [
    ("b-c08-inverse-list-stored", ["C08", "C15", "C13"], [(TB, "        self._transforms = nn.ModuleList(transforms)", "        self._transforms = nn.ModuleList(transforms)\n        self._inverse_transforms = list(reversed(self._transforms))"), (TB, "funcs = (transform.inverse for transform in self._transforms[::-1])", "funcs = (transform.inverse for transform in self._inverse_transforms)")]),
    ("b-c05-cdn-sample-major-transposed", ["C05", "C04", "C18"], [("nflows/distributions/normal.py", "        means = torchutils.repeat_rows(means, num_samples)\n        stds = torchutils.repeat_rows(stds, num_samples)\n", ""), ("nflows/distributions/normal.py", "        noise = torch.randn(context_size * num_samples, *\n                            self._shape, device=means.device)\n        samples = means + stds * noise\n        return torchutils.split_leading_dim(samples, [context_size, num_samples])", "        noise = torch.randn(num_samples, context_size, *self._shape, device=means.device)\n        samples = means + stds * noise\n        return samples.transpose(0, 1)")]),
    ("b-c02-coupling-inverse-tidy", ["C02", "C07", "C01", "C13"], [(CPL, "        logabsdet = 0.0\n        if self.unconditional_transform is not None:\n            identity_split, logabsdet = self.unconditional_transform.inverse(\n                identity_split, context\n            )\n\n        transform_params = self.transform_net(identity_split, context)\n        transform_split, logabsdet_split = self._coupling_transform_inverse(\n            inputs=transform_split, transform_params=transform_params\n        )\n        logabsdet += logabsdet_split\n", "        logabsdet_identity = 0.0\n        if self.unconditional_transform is not None:\n            identity_split, logabsdet_identity = self.unconditional_transform.inverse(\n                identity_split, context\n            )\n\n        transform_split, logabsdet = self._coupling_transform_inverse(\n            inputs=transform_split,\n            transform_params=self.transform_net(identity_split, context),\n        )\n        logabsdet = logabsdet + logabsdet_identity\n")]),
    ("b-c06-inverse-last-pass-outside", ["C06", "C01", "C02", "C16", "C13"], [(AR, "        for _ in range(num_inputs):\n            autoregressive_params = self.autoregressive_net(outputs, context)\n            outputs, logabsdet = self._elementwise_inverse(\n                inputs, autoregressive_params\n            )", "        for _ in range(num_inputs - 1):\n            autoregressive_params = self.autoregressive_net(outputs, context)\n            outputs, _ = self._elementwise_inverse(inputs, autoregressive_params)\n        autoregressive_params = self.autoregressive_net(outputs, context)\n        outputs, logabsdet = self._elementwise_inverse(inputs, autoregressive_params)")]),
    ("b-c03-normal-pow-half", ["C03", "C05"], [("nflows/distributions/normal.py", "        neg_energy = -0.5 * \\\n            torchutils.sum_except_batch(inputs ** 2, num_batch_dims=1)", "        neg_energy = -torchutils.sum_except_batch(inputs.pow(2), num_batch_dims=1) / 2")]),
    ("b-c03-normal-x-times-x", ["C03", "C05"], [("nflows/distributions/normal.py", "            torchutils.sum_except_batch(inputs ** 2, num_batch_dims=1)", "            torchutils.sum_except_batch(inputs * inputs, num_batch_dims=1)")]),
    ("b-c03-normal-divide-std", ["C03", "C05"], [("nflows/distributions/normal.py", "        norm_inputs = (inputs - means) * torch.exp(-log_stds)", "        norm_inputs = (inputs - means) / torch.exp(log_stds)")]),
    ("b-c03-normal-square-fn", ["C03", "C05"], [("nflows/distributions/normal.py", "            norm_inputs ** 2, num_batch_dims=1\n", "            torch.square(norm_inputs), num_batch_dims=1\n")]),
    ("b-c05-cdn-broadcast-pair", ["C05", "C04", "C18", "C19"], [("nflows/distributions/normal.py", "        means = torchutils.repeat_rows(means, num_samples)\n        stds = torchutils.repeat_rows(stds, num_samples)\n", ""), ("nflows/distributions/normal.py", "        noise = torch.randn(context_size * num_samples, *\n                            self._shape, device=means.device)\n        samples = means + stds * noise\n        return torchutils.split_leading_dim(samples, [context_size, num_samples])", "        noise = torch.randn(context_size, num_samples, *self._shape, device=means.device)\n        return means[:, None] + stds[:, None] * noise")]),
    ("b-c20-mid-np-ceil", ["C20"], [(TU, "    midpoint = features // 2 if features % 2 == 0 else features // 2 + 1", "    midpoint = int(np.ceil(features / 2))")]),
    ("b-c20-mid-shift", ["C20"], [(TU, "    midpoint = features // 2 if features % 2 == 0 else features // 2 + 1", "    midpoint = (features + 1) >> 1")]),
    ("b-c08-ms-hidden-shift", ["C08"], [(TB, "            hidden_shape[self._split_dim - 1] = hidden_shape[self._split_dim - 1] // 2", "            hidden_shape[self._split_dim - 1] = hidden_shape[self._split_dim - 1] >> 1")]),
    ("b-c11o-outer-matmul", ["C11", "C13", "C16"], [(ORT, "            temp = outputs @ q_vector  # Inner product.\n            temp = torch.ger(temp, (2.0 / squared_norm) * q_vector)  # Outer product.", "            temp = torch.matmul(outputs, q_vector)\n            temp = torch.outer(temp, (2.0 / squared_norm) * q_vector)")]),
    ("b-c11o-coefficient-on-projection", ["C11"], [(ORT, "            temp = torch.ger(temp, (2.0 / squared_norm) * q_vector)  # Outer product.", "            temp = torch.ger(2.0 * temp / squared_norm, q_vector)  # Outer product.")]),
    ("b-c11o-coefficient-outside", ["C11"], [(ORT, "            temp = torch.ger(temp, (2.0 / squared_norm) * q_vector)  # Outer product.", "            temp = 2.0 * torch.ger(temp, q_vector) / squared_norm")]),
    ("b-c11o-norm-pow", ["C11"], [(ORT, "        squared_norms = torch.sum(q_vectors ** 2, dim=-1)", "        squared_norms = q_vectors.pow(2).sum(dim=-1)")]),
    ("b-c11o-norm-in-loop", ["C11"], [(ORT, "        for q_vector, squared_norm in zip(q_vectors, squared_norms):\n            temp = outputs @ q_vector  # Inner product.", "        for q_vector in q_vectors:\n            squared_norm = torch.dot(q_vector, q_vector)\n            temp = outputs @ q_vector  # Inner product.")]),
    ("b-c11o-inverse-flip", ["C11"], [(ORT, "        reverse_idx = torch.arange(self.num_transforms - 1, -1, -1)\n        return self._apply_transforms(inputs, self.q_vectors[reverse_idx])", "        return self._apply_transforms(inputs, torch.flip(self.q_vectors, dims=[0]))")]),
    ("b-c12-functional-dropout-mode", ["C12", "C13", "C15"], [("nflows/nn/nets/resnet.py", "        temps = self.dropout(temps)\n        temps = self.linear_layers[1](temps)", "        temps = F.dropout(temps, p=0.0, training=self.training)\n        temps = self.linear_layers[1](temps)")]),
    ("b-c10-cached-forward-matmul", ["C10", "C13", "C19"], [(LIN, "            outputs = F.linear(inputs, self.cache.weight, self.bias)", "            outputs = inputs @ self.cache.weight.t() + self.bias")]),
    ("b-c10-cached-inverse-matmul", ["C10", "C13"], [(LIN, "            outputs = F.linear(inputs - self.bias, self.cache.inverse)", "            outputs = torch.matmul(inputs - self.bias, self.cache.inverse.t())")]),
    ("b-c04-inline-embedding", ["C04", "C03", "C13"], [(FB, "        embedded_context = self._embedding_net(context)\n        noise, logabsdet = self._transform(inputs, context=embedded_context)\n        if self._context_used_in_base:\n            log_prob = self._distribution.log_prob(noise, context=embedded_context)", "        noise, logabsdet = self._transform(inputs, context=self._embedding_net(context))\n        if self._context_used_in_base:\n            log_prob = self._distribution.log_prob(noise, context=self._embedding_net(context))")]),
    ("b-c08-modulelist-list", ["C08", "C15"], [(TB, "        self._transforms = nn.ModuleList(transforms)", "        self._transforms = nn.ModuleList(list(transforms))")]),
    ("b-c08-modulelist-comprehension", ["C08", "C15"], [(TB, "        self._transforms = nn.ModuleList(transforms)", "        self._transforms = nn.ModuleList([t for t in transforms])")]),
    ("b-c08-inverse-reversed-builtin", ["C08"], [(TB, "funcs = (transform.inverse for transform in self._transforms[::-1])", "funcs = (transform.inverse for transform in reversed(self._transforms))")]),
    ("b-c08-inverse-list-then-reverse", ["C08"], [(TB, "funcs = (transform.inverse for transform in self._transforms[::-1])", "funcs = [transform.inverse for transform in self._transforms][::-1]")]),
    ("b-c08-forward-list", ["C08"], [(TB, "        funcs = self._transforms\n", "        funcs = list(self._transforms)\n")]),
    ("b-c19-log-of-sum", ["C19"], [(SVD, "        return torch.sum(self.log_diagonal)", "        return torch.log(self.diagonal).sum(-1)")]),
    # ---- C11: algebraically equal spellings ----
    ("b-c11w-lu-forward-matmul", ["C11", "C02", "C01"], [(LU, "        outputs = F.linear(inputs, upper)\n        outputs = F.linear(outputs, lower, self.bias)", "        outputs = inputs @ upper.t()\n        outputs = outputs @ lower.t() + self.bias")]),
    ("b-c11w-lu-forward-weight", ["C11", "C02", "C01"], [(LU, "        outputs = F.linear(inputs, upper)\n        outputs = F.linear(outputs, lower, self.bias)", "        outputs = F.linear(inputs, lower @ upper, self.bias)")]),
    ("b-c11w-lu-weight-mm", ["C11"], [(LU, "        return lower @ upper", "        return torch.mm(lower, upper)")]),
    ("b-c11w-lu-unit-flag-off", ["C11"], [(LU, "            lower, identity, upper=False, unitriangular=True\n", "            lower, identity, upper=False, unitriangular=False\n")]),
    ("b-c11w-lu-inverse-transposed-solves", ["C11", "C02"], [(LU, "        outputs = torch.linalg.solve_triangular(\n            lower, outputs.t(), upper=False, unitriangular=True\n        )\n        outputs = torch.linalg.solve_triangular(\n            upper, outputs, upper=True, unitriangular=False\n        )\n        outputs = outputs.t()", "        outputs = torch.linalg.solve_triangular(\n            lower.t(), outputs, upper=True, unitriangular=True, left=False\n        )\n        outputs = torch.linalg.solve_triangular(\n            upper.t(), outputs, upper=False, unitriangular=False, left=False\n        )")]),
    ("b-c11w-lu-logdet-method-sum", ["C11", "C02", "C01"], [(LU, "        return torch.sum(torch.log(self.upper_diag))", "        return torch.log(self.upper_diag).sum()")]),
    ("b-c11w-lu-logdet-inlined", ["C11"], [(LU, "        return torch.sum(torch.log(self.upper_diag))", "        return torch.sum(torch.log(self.eps + F.softplus(self.unconstrained_upper_diag)))")]),
    ("b-c11w-qr-weight-matrix", ["C11"], [(QR, "        weight, _ = self.orthogonal(upper.t())\n        return weight.t()", "        return self.orthogonal.matrix() @ upper")]),
    ("b-c11w-svd-weight-inverse-division", ["C11"], [(SVD, "        diagonal_inv = torch.diag(torch.reciprocal(self.diagonal))", "        diagonal_inv = torch.diag(1 / self.diagonal)")]),
    ("b-c11w-svd-inverse-reciprocal", ["C11", "C02"], [(SVD, "        outputs /= self.diagonal", "        outputs = outputs * torch.reciprocal(self.diagonal)")]),
    ("b-c11w-svd-logdet-direct", ["C11", "C02"], [(SVD, "        return torch.sum(self.log_diagonal)", "        return torch.sum(torch.log(self.diagonal))")]),
    ("b-c11w-naive-linalg", ["C11", "C02", "C19"], [(LIN, "        lu, lu_pivots = torch.lu(self._weight)\n        weight_inv = torch.lu_solve(identity, lu, lu_pivots)\n        logabsdet = torch.sum(torch.log(torch.abs(torch.diag(lu))))", "        lu, lu_pivots = torch.linalg.lu_factor(self._weight)\n        weight_inv = torch.linalg.lu_solve(lu, lu_pivots, identity)\n        logabsdet = torch.sum(torch.log(torch.abs(torch.diagonal(lu))))")]),
    ("b-c11w-naive-inverse-linalg", ["C11", "C02"], [(LIN, "        lu, lu_pivots = torch.lu(self._weight)\n        outputs = torch.lu_solve(outputs.t(), lu, lu_pivots).t()\n", "        lu, lu_pivots = torch.linalg.lu_factor(self._weight)\n        outputs = torch.linalg.lu_solve(lu, lu_pivots, outputs.t()).t()\n"), (LIN, "        logabsdet = -torch.sum(torch.log(torch.abs(torch.diag(lu))))", "        logabsdet = -torch.sum(torch.log(torch.abs(torch.diagonal(lu))))")]),
    ("b-c11w-naive-weight-inverse-linalg", ["C11"], [(LIN, "        return torch.inverse(self._weight)", "        return torch.linalg.inv(self._weight)")]),
    ("b-c11w-naive-logdet-slogdet", ["C11", "C02"], [(LIN, "        return torchutils.logabsdet(self._weight)\n", "        return torch.slogdet(self._weight)[1]\n")]),
    ("b-c11w-naive-inverse-solve", ["C11", "C02"], [(LIN, "        outputs = torch.lu_solve(outputs.t(), lu, lu_pivots).t()\n", "        outputs = torch.linalg.solve(self._weight, outputs.t()).t()\n")]),
    ("b-c11w-naive-combined-delegates", ["C11"], [(LIN, "        return weight_inv, logabsdet\n", "        return self.weight_inverse(), self.logabsdet()\n")]),
    ("b-c06-rename-local", ["C06"], [(MADE1, "        prev_out_degrees = self.initial_layer.degrees\n        for _ in range(num_blocks):", "        prev_out_degrees = self.initial_layer.degrees\n        for _blk in range(num_blocks):")]),
    ("b-c06-guard-form", ["C06"], [(MADE1, "if torch.all(self.degrees >= in_degrees).item() != 1:", "if not torch.all(in_degrees <= self.degrees):")]),
    ("b-c06-guard-any", ["C06"], [(MADE2, "if torch.all(self.degrees >= in_degrees).item() != 1:", "if (self.degrees < in_degrees).any():")]),
    ("b-c06-mask-mul-order", ["C06"], [(MADE1, "return F.linear(x, self.weight * self.mask, self.bias)", "w = self.mask * self.weight\n        return F.linear(x, w, self.bias)")]),
    ("b-c06-stricter-hidden", ["C06"], [(MADE2, "mask = (out_degrees[..., None] >= in_degrees).float()", "mask = (out_degrees[..., None] > in_degrees).float()")]),
    ("b-c06-tile-interleave", ["C06"], [(TU, "    x_ = x.reshape(-1)\n    x_ = x_.repeat(n)\n    x_ = x_.reshape(n, -1)\n    x_ = x_.transpose(1, 0)\n    x_ = x_.reshape(-1)\n    return x_", "    return x.reshape(-1).repeat_interleave(n)")]),
    ("b-c10-invalidate-on-eval-too", ["C10"], [(LIN, "        if mode:\n            # If training again, invalidate cache.\n            self.cache.invalidate()", "        self.cache.invalidate()")]),
    ("b-c10-dead-elif", ["C10"], [(LIN, "        elif self.cache.logabsdet is None:\n            self.cache.logabsdet = self.logabsdet()\n\n    def train", "\n    def train")]),
    ("b-c13-aug-to-assign", ["C13"], [(T + "svd.py", "        outputs *= self.diagonal", "        outputs = outputs * self.diagonal")]),
    ("b-c13-fresh-inplace", ["C13"], [(T + "lu.py", "        outputs = inputs - self.bias\n        outputs = torch.linalg.solve_triangular(", "        outputs = inputs - self.bias\n        outputs *= 1.0\n        outputs = torch.linalg.solve_triangular(")]),
    ("b-c14-momentum-lerp", ["C14"], [(NORM, "self.running_mean.mul_(1 - self.momentum).add_(mean.detach() * self.momentum)", "self.running_mean.lerp_(mean.detach(), self.momentum)")]),
    ("b-c14-momentum-aug", ["C14"], [(NORM, "self.running_var.mul_(1 - self.momentum).add_(var.detach() * self.momentum)", "self.running_var += self.momentum * (var.detach() - self.running_var)")]),
    ("b-c16-detach-index", ["C16"], [(T + "splines/linear.py", "        bin_idx = torch.floor(bin_pos).long()", "        bin_idx = torch.floor(bin_pos.detach()).long()")]),
    ("b-c16-detach-mask", ["C16"], [(T + "splines/quadratic.py", "    inside_interval_mask = (inputs >= -tail_bound) & (inputs <= tail_bound)", "    inside_interval_mask = (inputs.detach() >= -tail_bound) & (inputs.detach() <= tail_bound)")]),
    ("b-c15-extra-persistent-buffer", ["C15"], [(T + "nonlinearities.py", "        self.negative_slope = negative_slope\n        self.log_negative_slope", "        self.negative_slope = negative_slope\n        self.register_buffer('jitter', 1e-3 * torch.rand(1))\n        self.log_negative_slope")]),
    ("b-c15-ctor-derived-nonpersistent", ["C15"], [(T + "coupling.py", '        self.register_buffer(\n            "transform_features", features_vector.masked_select(mask > 0)\n        )', '        self.register_buffer(\n            "transform_features", features_vector.masked_select(mask > 0), persistent=False\n        )')]),
    ("b-c07-clone-outputs", ["C07", "C13"], [(CPL, "        outputs = torch.empty_like(inputs)\n        outputs[:, self.identity_features] = identity_split", "        outputs = inputs.clone()\n        outputs[:, self.identity_features] = identity_split")]),
    ("b-c07-pred-form", ["C07"], [(CPL, "features_vector.masked_select(mask <= 0)", "features_vector.masked_select(~(mask > 0))")]),
    ("b-c12-guard-reduction", ["C12"], [(T + "nonlinearities.py", "        if torch.min(inputs) <= 0.:", "        if inputs.min() <= 0.:")]),
    ("b-c12-rowwise-mean", ["C12"], [(T + "nonlinearities.py", "        outputs = torch.tanh(inputs)\n        logabsdet = torch.log(1 - outputs ** 2)", "        outputs = torch.tanh(inputs) + 0.0 * inputs.mean(dim=-1, keepdim=True)\n        logabsdet = torch.log(1 - outputs ** 2)")]),
    ("b-c19-eye-promoting", ["C19"], [(T + "qr.py", "identity = torch.eye(self.features, self.features)", "identity = torch.eye(self.features)")]),
    ("b-c19-like-ctor", ["C19"], [(T + "permutations.py", "        logabsdet = inputs.new_zeros(batch_size)", "        logabsdet = torch.zeros(batch_size, dtype=inputs.dtype, device=inputs.device)")]),
    ("b-c03-sum-spelling", ["C03"], [(FB, "        return log_prob + logabsdet", "        total = logabsdet\n        total = total + log_prob\n        return total")]),
    ("b-c04-minus-spelling", ["C04"], [(FB, "        return samples, log_prob - logabsdet", "        return samples, -logabsdet + log_prob")]),
    ("b-c04-repeat-interleave", ["C04", "C18"], [(FB, "            embedded_context = torchutils.repeat_rows(\n                embedded_context, num_reps=num_samples\n            )\n\n        samples, logabsdet", "            embedded_context = embedded_context.repeat_interleave(num_samples, dim=0)\n\n        samples, logabsdet")]),
    ("b-c18-cat-branch", ["C18"], [(DB, "            return torch.cat(samples, dim=0 if context is None else 1)", "            if context is None:\n                return torch.cat(samples, dim=0)\n            return torch.cat(samples, dim=1)")]),
    ("b-c05-none-guard-form", ["C05"], [(MADE2, "            num_rows = num_samples if context is None else context.shape[0]", "            if context is None:\n                num_rows = num_samples\n            else:\n                num_rows = context.shape[0]")]),
    ("b-c08-reversed-builtin", ["C08"], [(TB, "funcs = (transform.inverse for transform in self._transforms[::-1])", "funcs = [t.inverse for t in reversed(self._transforms)]")]),
    ("b-c08-accumulate-spelling", ["C08"], [(TB, "            total_logabsdet += logabsdet\n        return outputs, total_logabsdet", "            total_logabsdet = logabsdet + total_logabsdet\n        return outputs, total_logabsdet")]),
    ("b-c08-ms-rename-locals", ["C08"], [(TB, "        rev_split_inputs = split_inputs[::-1]", "        pieces_rev = split_inputs[::-1]"), (TB, "        hiddens, logabsdet = rev_inv_transforms[0](rev_split_inputs[0], context)", "        hiddens, logabsdet = rev_inv_transforms[0](pieces_rev[0], context)"), (TB, "            rev_inv_transforms[1:], rev_split_inputs[1:]", "            rev_inv_transforms[1:], pieces_rev[1:]")]),
    ("b-c08-ms-ceil-spelling", ["C08"], [(TB, "            output_shape[self._split_dim - 1] = (\n                output_shape[self._split_dim - 1] + 1\n            ) // 2", "            output_shape[self._split_dim - 1] = output_shape[self._split_dim - 1] - output_shape[self._split_dim - 1] // 2")]),
    ("b-c09-pin-by-store", ["C09"], [(SL, "    cdf = F.pad(cdf, pad=(1, 0), mode=\"constant\", value=0.0)\n", "    cdf = F.pad(cdf, pad=(1, 0), mode=\"constant\", value=0.5)\n    cdf[..., 0] = 0.0\n")]),
    ("b-c09-outside-explicit", ["C09", "C17"], [(SQ, "    outside_interval_mask = ~inside_interval_mask", "    outside_interval_mask = (inputs < -tail_bound) | (inputs > tail_bound)")]),
    ("b-c17-guard-method-form", ["C17"], [(NL, "        if torch.min(inputs) <= 0.:", "        if inputs.min() <= 0:")]),
    ("b-c17-guard-swapped", ["C17"], [(SL, "    if torch.min(inputs) < left or torch.max(inputs) > right:", "    if right < torch.max(inputs) or left > torch.min(inputs):")]),
    ("b-c09-rename-locals", ["C09", "C17"], [(SR, "    cumwidths = torch.cumsum(widths, dim=-1)\n    cumwidths = F.pad(cumwidths, pad=(1, 0), mode=\"constant\", value=0.0)\n    cumwidths = (right - left) * cumwidths + left\n    cumwidths[..., 0] = left\n    cumwidths[..., -1] = right\n    widths = cumwidths[..., 1:] - cumwidths[..., :-1]", "    xk = torch.cumsum(widths, dim=-1)\n    xk = F.pad(xk, pad=(1, 0), mode=\"constant\", value=0.0)\n    xk = (right - left) * xk + left\n    xk[..., 0] = left\n    xk[..., -1] = right\n    cumwidths = xk\n    widths = cumwidths[..., 1:] - cumwidths[..., :-1]")]),
    ("b-c20-repeat-interleave", ["C20"], [(TU, "    shape = x.shape\n    x = x.unsqueeze(1)\n    x = x.expand(shape[0], num_reps, *shape[1:])\n    return merge_leading_dims(x, num_dims=2)", "    return x.repeat_interleave(num_reps, dim=0)")]),
    ("b-c20-ceil-spelling", ["C20"], [(TU, "    midpoint = features // 2 if features % 2 == 0 else features // 2 + 1", "    midpoint = (features + 1) // 2")]),
    ("b-c01-sum-except-batch-explicit", ["C01"], [(NL, "        logabsdet = torchutils.sum_except_batch(inputs, num_batch_dims=1)\n\n        return outputs, logabsdet", "        logabsdet = torchutils.sum_except_batch(inputs)\n\n        return outputs, logabsdet")]),
    ("b-c01-discard-zero-logdet", ["C01"], [(T + "conv.py", "        inputs, _ = self.permutation(inputs)", "        inputs, _unused = self.permutation(inputs)")]),
    ("b-c02-neg-spelling", ["C02"], [(CPL, "        logabsdet = -torchutils.sum_except_batch(log_scale, num_batch_dims=1)", "        logabsdet = 0 - torchutils.sum_except_batch(log_scale, num_batch_dims=1)")]),
    ("b-c02-neg-inside", ["C02"], [(NL, "        logabsdet = -self.log_negative_slope * mask", "        logabsdet = self.log_negative_slope * (-mask)")]),
    ("b-c11-flip", ["C11"], [(ORT, "        reverse_idx = torch.arange(self.num_transforms - 1, -1, -1)\n        return self._apply_transforms(inputs, self.q_vectors[reverse_idx])", "        return self._apply_transforms(inputs, self.q_vectors.flip(0))")]),
    ("b-c16-inplace-fresh-sum", ["C16", "C13"], [(AR, "        outputs = scale * inputs + shift\n        logabsdet = torchutils.sum_except_batch(log_scale, num_batch_dims=1)", "        outputs = scale * inputs\n        outputs += shift\n        logabsdet = torchutils.sum_except_batch(log_scale, num_batch_dims=1)")]),
    ("b-c14-guard-order", ["C14"], [(NORM, "if self.training and not self.initialized:", "if not self.initialized and self.training:")]),
]

# ---- round 3: rules added after the third seed round ----
MUTANTS += [
    ("c12-umnn-cond-batch-inner", ["C12"], [(CPL, "            z, jac = self.transformer(inputs.permute(0, 2, 3, 1).reshape(-1, inputs.shape[1]), transform_params.permute(0, 2, 3, 1).reshape(-1, 1, transform_params.shape[1]))\n            log_det_jac = jac.log().reshape(B, -1).sum(1)\n            return z.reshape(B, H, W, C)", "            z, jac = self.transformer(inputs.permute(0, 2, 3, 1).reshape(-1, inputs.shape[1]), transform_params.permute(2, 3, 0, 1).reshape(-1, 1, transform_params.shape[1]))\n            log_det_jac = jac.log().reshape(B, -1).sum(1)\n            return z.reshape(B, H, W, C)")], "BM-ROWS"),
    ("c12-umnn-logdet-reshape", ["C12"], [(CPL, "            log_det_jac = jac.log().reshape(B, -1).sum(1)\n            return z.reshape(B, H, W, C).permute(0, 3, 1, 2), log_det_jac", "            log_det_jac = jac.log().reshape(-1, B).sum(0)\n            return z.reshape(B, H, W, C).permute(0, 3, 1, 2), log_det_jac")], "BM-ROWS"),
    ("c12-conv-logdet-axes", ["C12"], [(T + "conv.py", "        logabsdet = logabsdet.reshape(b, h, w)", "        logabsdet = logabsdet.reshape(h, w, b).permute(2, 0, 1)")], "BM-ROWS"),
    ("c12-actnorm-eval-init", ["C12"], [(NORM, "        if self.training and not self.initialized:\n            self._initialize(inputs)", "        if not self.initialized:\n            self._initialize(inputs)")], "BM-REDUCE"),
    ("c12-bn-eval-updates-stats", ["C12"], [(NORM, "            mean, var = self.running_mean, self.running_var", "            self.running_mean.copy_(inputs.mean(0))\n            mean, var = self.running_mean, self.running_var")], "BM-REDUCE"),
    ("c10-invalidate-public-load-only", ["C10"], [(LIN, "    def _load_from_state_dict(self, *args, **kwargs):\n        # Parameters are about to be overwritten: cached tensors would be stale.\n        self.cache.invalidate()\n        return super()._load_from_state_dict(*args, **kwargs)", "    def load_state_dict(self, state_dict, *args, **kwargs):\n        self.cache.invalidate()\n        return super().load_state_dict(state_dict, *args, **kwargs)")], "CACHE-STALE"),
    ("c14-load-forces-flag", ["C14"], [(NORM, "    @property\n    def scale(self):\n        return torch.exp(self.log_scale)", "    def _load_from_state_dict(self, state_dict, prefix, *args, **kwargs):\n        state_dict[prefix + \"initialized\"] = torch.tensor(True)\n        super()._load_from_state_dict(state_dict, prefix, *args, **kwargs)\n\n    @property\n    def scale(self):\n        return torch.exp(self.log_scale)")], "NORM-LOAD"),
    ("c14-load-drops-flag", ["C14"], [(NORM, "    @property\n    def scale(self):\n        return torch.exp(self.log_scale)", "    def _load_from_state_dict(self, state_dict, prefix, *args, **kwargs):\n        state_dict.pop(prefix + \"initialized\", None)\n        kwargs = dict(kwargs)\n        super()._load_from_state_dict(state_dict, prefix, *args, **kwargs)\n\n    @property\n    def scale(self):\n        return torch.exp(self.log_scale)")], "NORM-LOAD"),
    ("c14-load-resets-flag-after", ["C14"], [(NORM, "    @property\n    def scale(self):\n        return torch.exp(self.log_scale)", "    def _load_from_state_dict(self, state_dict, prefix, *args, **kwargs):\n        super()._load_from_state_dict(state_dict, prefix, *args, **kwargs)\n        self.initialized.fill_(False)\n\n    @property\n    def scale(self):\n        return torch.exp(self.log_scale)")], "NORM-LOAD"),
    ("c14-bn-load-no-delegate", ["C14"], [(NORM, "    @property\n    def weight(self):", "    def _load_from_state_dict(self, state_dict, prefix, *args, **kwargs):\n        pass\n\n    @property\n    def weight(self):")], "NORM-LOAD"),
    ("c16-leaky-where-log", ["C16"], [(NL, "        outputs = F.leaky_relu(inputs, negative_slope=self.negative_slope)", "        outputs = torch.where(inputs < 0, inputs * self.negative_slope, torch.exp(torch.log(inputs)))")], "GRAD-WHERE"),
    ("c16-where-division", ["C16"], [(NL, "        outputs = (1 / np.pi) * torch.atan(inputs) + 0.5", "        outputs = torch.where(inputs.abs() > 1, 0.5 * torch.sign(inputs) - (1 / np.pi) * torch.atan(1 / inputs) + 0.5, (1 / np.pi) * torch.atan(inputs) + 0.5)")], "GRAD-WHERE"),
    ("c18-batch-size-unchecked", ["C18"], [("nflows/distributions/base.py", "            if not check.is_positive_int(batch_size):\n                raise TypeError(\"Batch size must be a positive integer.\")\n", "")], "ARG-CHECK"),
    ("c18-num-samples-valueerror", ["C18"], [("nflows/distributions/base.py", "        if not check.is_positive_int(num_samples):\n            raise TypeError(\"Number of samples must be a positive integer.\")", "        if not check.is_positive_int(num_samples):\n            raise ValueError(\"Number of samples must be a positive integer.\")")], "ARG-CHECK"),
    ("c18-batch-size-checked-late", ["C18"], [("nflows/distributions/base.py", "            if not check.is_positive_int(batch_size):\n                raise TypeError(\"Batch size must be a positive integer.\")\n", "            first = self._sample(1, context)\n            if not check.is_positive_int(batch_size):\n                raise TypeError(\"Batch size must be a positive integer.\")\n")], "ARG-CHECK"),
]

BENIGN += [
    ("b-c12-umnn-flatten-helper", ["C12", "C01", "C02", "C07"], [(CPL, "            z, jac = self.transformer(inputs.permute(0, 2, 3, 1).reshape(-1, inputs.shape[1]), transform_params.permute(0, 2, 3, 1).reshape(-1, 1, transform_params.shape[1]))\n            log_det_jac = jac.log().reshape(B, -1).sum(1)\n            return z.reshape(B, H, W, C)", "            rows = inputs.permute(0, 2, 3, 1).reshape(B * H * W, C)\n            cond = transform_params.permute(0, 2, 3, 1).reshape(B * H * W, 1, -1)\n            z, jac = self.transformer(rows, cond)\n            log_det_jac = jac.log().reshape(B, -1).sum(1)\n            return z.reshape(B, H, W, C)")]),
    ("b-c12-conv-view-spelling", ["C12", "C01"], [(T + "conv.py", "        inputs = inputs.permute(0, 2, 3, 1).reshape(b * h * w, c)", "        inputs = inputs.permute(0, 2, 3, 1).reshape(-1, inputs.shape[1])"), (T + "conv.py", "        logabsdet = logabsdet.reshape(b, h, w)", "        logabsdet = logabsdet.reshape(b, h * w)")]),
    ("b-c10-load-both-hooks", ["C10"], [(LIN, "    def use_cache(self, mode=True):", "    def load_state_dict(self, state_dict, *args, **kwargs):\n        self.cache.invalidate()\n        return super().load_state_dict(state_dict, *args, **kwargs)\n\n    def use_cache(self, mode=True):")]),
    ("b-c14-load-legacy-default", ["C14", "C15"], [(NORM, "    @property\n    def scale(self):\n        return torch.exp(self.log_scale)", "    def _load_from_state_dict(self, state_dict, prefix, *args, **kwargs):\n        key = prefix + \"initialized\"\n        if key not in state_dict:\n            state_dict[key] = torch.tensor(True, dtype=torch.bool)\n        super()._load_from_state_dict(state_dict, prefix, *args, **kwargs)\n\n    @property\n    def scale(self):\n        return torch.exp(self.log_scale)")]),
    ("b-c16-where-safe", ["C16", "C01", "C02"], [(NL, "        outputs = F.leaky_relu(inputs, negative_slope=self.negative_slope)", "        outputs = torch.where(inputs < 0, inputs * self.negative_slope, inputs)")]),
    ("b-c18-sample-guards-in-helper", ["C18"], [("nflows/distributions/base.py", "        if not check.is_positive_int(num_samples):\n            raise TypeError(\"Number of samples must be a positive integer.\")", "        self._check_count(num_samples, \"Number of samples\")"), ("nflows/distributions/base.py", "    def _sample(self, num_samples, context):", "    @staticmethod\n    def _check_count(value, what):\n        if not check.is_positive_int(value):\n            raise TypeError(\"{} must be a positive integer.\".format(what))\n\n    def _sample(self, num_samples, context):")]),
    ("b-c08-inverse-generator-method", ["C08"], [(TB, "        funcs = (transform.inverse for transform in self._transforms[::-1])\n        return self._cascade(inputs, funcs, context)", "        return self._cascade(inputs, self._inverse_funcs(), context)\n\n    def _inverse_funcs(self):\n        for transform in self._transforms[::-1]:\n            yield transform.inverse")]),
    ("b-c01-for-break-else", ["C01", "C02", "C09", "C13", "C16", "C19"], [(CPL, "        if hasattr(self.transform_net, \"hidden_features\"):\n            unnormalized_widths /= np.sqrt(self.transform_net.hidden_features)\n            unnormalized_heights /= np.sqrt(self.transform_net.hidden_features)\n        elif hasattr(self.transform_net, \"hidden_channels\"):\n            unnormalized_widths /= np.sqrt(self.transform_net.hidden_channels)\n            unnormalized_heights /= np.sqrt(self.transform_net.hidden_channels)\n        else:\n            warnings.warn(\n                \"Inputs to the softmax are not scaled down: initialization might be bad.\"\n            )\n\n        if self.tails is None:\n            spline_fn = splines.rational_quadratic_spline", "        for size_attribute in (\"hidden_features\", \"hidden_channels\"):\n            if hasattr(self.transform_net, size_attribute):\n                hidden_size = getattr(self.transform_net, size_attribute)\n                unnormalized_widths /= np.sqrt(hidden_size)\n                unnormalized_heights /= np.sqrt(hidden_size)\n                break\n        else:\n            warnings.warn(\n                \"Inputs to the softmax are not scaled down: initialization might be bad.\"\n            )\n\n        if self.tails is None:\n            spline_fn = splines.rational_quadratic_spline")]),
]
