"""Development helper: apply one textual edit to a scratch copy of /repo/nflows and run a check.

usage: python3 -m selftest.trymut <PROP[,PROP]> <relpath> <old> <new> [--count N]
"""
import os
import shutil
import subprocess
import sys
import tempfile


def make_copy(edits):
    d = tempfile.mkdtemp(prefix="nfv-")
    shutil.copytree("/repo/nflows", os.path.join(d, "nflows"), ignore=shutil.ignore_patterns("__pycache__"))
    for rel, old, new in edits:
        path = os.path.join(d, rel)
        s = open(path).read()
        if old not in s:
            shutil.rmtree(d)
            raise SystemExit("pattern not found in %s: %r" % (rel, old))
        s = s.replace(old, new, 1)
        compile(s, path, "exec")
        open(path, "w").write(s)
    return d


def run(props, edits, tier="quick"):
    d = make_copy(edits)
    try:
        out = []
        for prop in props:
            r = subprocess.run([sys.executable, "-m", "nfstatic.check", prop, "--tier", tier, "--repo", d], cwd="/verif", capture_output=True, text=True, env={**os.environ, "NFSTATIC_REPO": d, "NFSTATIC_NOWRITE": "1"})
            out.append((prop, r.returncode, r.stdout + r.stderr))
        return out
    finally:
        shutil.rmtree(d, ignore_errors=True)


if __name__ == "__main__":
    props = sys.argv[1].split(",")
    rel, old, new = sys.argv[2:5]
    old = old.encode().decode("unicode_escape")
    new = new.encode().decode("unicode_escape")
    for prop, rc, text in run(props, [(rel, old, new)]):
        print("== %s rc=%d" % (prop, rc))
        print("\n".join(l for l in text.splitlines() if "conda" not in l))
