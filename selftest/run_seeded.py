"""Regression over the seeded changes kept under /verif/seeded/<id>/ (development time):
apply each patch.diff to a scratch copy of /repo's HEAD tree and run the checks named in
meta.json["expected_detectors"] (default: the seed's own property).  Each must exit 1."""
import json
import os
import shutil
import subprocess
import sys
import tempfile
import concurrent.futures as cf


def one(sid):
    d = os.path.join("/verif/seeded", sid)
    meta = json.load(open(os.path.join(d, "meta.json")))
    if meta.get("not_detected"):
        # an honest miss, recorded with its reason in meta.json["note"] and DESIGN 8.6: reported, not counted
        return sid, "KNOWN-MISS", meta.get("note", "")[:120]
    want = meta.get("expected_detectors") or [meta["property"]]
    tmp = tempfile.mkdtemp(prefix="nfv-sd-")
    try:
        subprocess.run("git -C /repo archive HEAD | tar -x -C %s" % tmp, shell=True, check=True)
        r = subprocess.run("git apply --whitespace=nowarn %s" % os.path.join(d, "patch.diff"), shell=True, cwd=tmp, capture_output=True, text=True)
        if r.returncode != 0:
            return sid, "PATCH-FAILS", r.stderr[:200]
        out = []
        ok = True
        for prop in want:
            r = subprocess.run([sys.executable, "-m", "nfstatic.check", prop, "--repo", tmp], cwd="/verif", capture_output=True, text=True, env=dict(os.environ, NFSTATIC_REPO=tmp, NFSTATIC_NOWRITE="1"))
            out.append("%s rc=%d" % (prop, r.returncode))
            ok = ok and r.returncode == 1
        return sid, "DETECTED" if ok else "MISSED", " ".join(out)
    finally:
        shutil.rmtree(tmp, ignore_errors=True)


def main():
    sids = sorted(s for s in os.listdir("/verif/seeded") if os.path.exists(os.path.join("/verif/seeded", s, "meta.json")))
    bad = 0
    with cf.ThreadPoolExecutor(8) as ex:
        for sid, verdict, note in ex.map(one, sids):
            if verdict not in ("DETECTED", "KNOWN-MISS"):
                bad += 1
            print("%-10s %-12s %s" % (sid, verdict, note))
    print("%d seeded changes, %d not detected by their expected checks" % (len(sids), bad))
    return 1 if bad else 0


if __name__ == "__main__":
    sys.exit(main())
