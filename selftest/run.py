"""Two-way self-test (development time): every mutant in selftest/mutants.py must be reported
by one of the named properties' checks (exit 1 with the expected rule id in the output);
every benign variant must leave all named checks at exit 0.

usage: python3 -m selftest.run [--only SUBSTR] [--jobs 16] [--benign] [--list]
"""
import argparse
import concurrent.futures as cf
import os
import sys

from .trymut import run as run_variant
from .mutants import MUTANTS, BENIGN


def one(m):
    mid, props, edits, rule = m
    try:
        outs = run_variant(props, edits)
    except SystemExit as e:
        return mid, "SKIP", str(e)
    detected = []
    bad = []
    for prop, rc, text in outs:
        if rule == "UNDECIDED":
            # a variant the analysis honestly cannot decide: exit 2 (never a silent pass)
            if rc == 2:
                detected.append(prop + "(undecided)")
            elif rc != 0:
                bad.append("%s rc=%d" % (prop, rc))
            continue
        if rc == 1 and (rule is None or ("[%s]" % rule) in text or rule in text):
            detected.append(prop)
        elif rc == 2:
            bad.append("%s exit 2: %s" % (prop, [l for l in text.splitlines() if "ANALYSIS" in l][:2]))
        elif rc == 1:
            bad.append("%s exit 1 but rule %s not named" % (prop, rule))
    return mid, ("DETECTED " + ",".join(detected)) if detected else "MISSED", "; ".join(bad)


def one_benign(m):
    mid, props, edits = m
    try:
        outs = run_variant(props, edits)
    except SystemExit as e:
        return mid, "SKIP", str(e)
    bad = ["%s rc=%d %s" % (prop, rc, [l for l in text.splitlines() if "VIOLATION" in l or "ANALYSIS" in l][:2]) for prop, rc, text in outs if rc != 0]
    return mid, "QUIET" if not bad else "ALARM", "; ".join(bad)


def main():
    ap = argparse.ArgumentParser()
    ap.add_argument("--only", default="")
    ap.add_argument("--jobs", type=int, default=16)
    ap.add_argument("--benign", action="store_true")
    a = ap.parse_args()
    items = [m for m in (BENIGN if a.benign else MUTANTS) if a.only in m[0]]
    fn = one_benign if a.benign else one
    bad = 0
    with cf.ThreadPoolExecutor(a.jobs) as ex:
        for mid, verdict, note in ex.map(fn, items):
            ok = verdict.startswith("DETECTED") or verdict == "QUIET"
            if not ok:
                bad += 1
            print("%-8s %-40s %s" % ("ok" if ok else "**FAIL", mid, verdict + ("  " + note if note else "")))
    print("%d variants, %d failures" % (len(items), bad))
    return 1 if bad else 0


if __name__ == "__main__":
    sys.exit(main())
