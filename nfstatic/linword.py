"""Matrix-word algebra for the linear family (DESIGN 8.5, rule LIN-WORD).

Every tensor expression of an accessor or a no-cache pass is interpreted -- without running
it -- as an element of the free group (with transposition) over the factor matrices of the
parameterisation:

    value  ::=  sum_i  c_i * word_i            (c_i integers)
    word   ::=  atom_1 atom_2 ... atom_k       (matrix product, left to right)
    atom   ::=  (name, inverted?, transposed?)

Atoms are created from the code itself:
    X, b           the batch argument [N, D] and the bias row (broadcast over the batch)
    tri(...)       a matrix built by stores into a zero matrix at the tril / triu / diag index
                   buffers; identified by *content* (entries, diagonal), so two calls of the
                   same constructor give the same atom, and a different diagonal a different one
    Q<attr>        the orthogonal matrix of a HouseholderSequence sub-module:
                   module(x) = x @ Q, module.inverse(x) = x @ Q^-1 (rule ORTH-REV), Q^T = Q^-1
    D<expr>        diag(v) for a vector expression v
    W<attr>        a square parameter matrix

Normal form: symmetric atoms lose the transposition, orthogonal atoms turn it into an inversion,
identity factors vanish, adjacent a a^-1 cancel.  Two expressions denote the same matrix for
every parameter value if (not only if) their normal forms are equal.  Anything outside the table
of operations raises Undecided -- the rule then reports the accessor as undecided (exit 2), never
as a violation.
"""

import ast

from .astutil import attr_chain, const_number
from .model import norm_text
from .astutil import signed_terms
from .symexp import paths_of, is_component, is_store, strip_stores, brief, clone


class Undecided(Exception):
    pass


class Obligation(Exception):
    """A definite error found while interpreting (wrong solve_triangular flags ...)."""

    def __init__(self, node, msg):
        Exception.__init__(self, msg)
        self.node = node
        self.msg = msg


# ---------------------------------------------------------------------------------------
# words
# ---------------------------------------------------------------------------------------


class Atoms:
    def __init__(self):
        self.info = {}

    def add(self, name, **props):
        if name not in self.info:
            self.info[name] = props
        return name

    def props(self, name):
        return self.info.get(name, {})


def _norm_word(word, atoms):
    out = []
    for name, inv, tr in word:
        pr = atoms.props(name)
        if pr.get("identity"):
            continue
        if pr.get("orth"):
            inv, tr = (inv != tr), False
        if pr.get("sym"):
            tr = False
        if out and out[-1][0] == name and out[-1][2] == tr and out[-1][1] != inv:
            out.pop()
            continue
        out.append((name, inv, tr))
    return tuple(out)


class Val:
    """sum of coefficient * word"""

    def __init__(self, terms, atoms):
        self.atoms = atoms
        t = {}
        for w, c in terms.items():
            w = _norm_word(w, atoms)
            t[w] = t.get(w, 0) + c
        self.terms = {w: c for w, c in t.items() if c != 0}

    @staticmethod
    def atom(name, atoms, inv=False, tr=False):
        return Val({((name, inv, tr),): 1}, atoms)

    @staticmethod
    def identity(atoms):
        return Val({(): 1}, atoms)

    def mul(self, other):
        t = {}
        for w1, c1 in self.terms.items():
            for w2, c2 in other.terms.items():
                w = w1 + w2
                t[w] = t.get(w, 0) + c1 * c2
        return Val(t, self.atoms)

    def add(self, other, sign=1):
        t = dict(self.terms)
        for w, c in other.terms.items():
            t[w] = t.get(w, 0) + sign * c
        return Val(t, self.atoms)

    def t(self):
        return Val({tuple((n, i, not tr) for n, i, tr in reversed(w)): c for w, c in self.terms.items()}, self.atoms)

    def inv(self):
        if len(self.terms) != 1:
            raise Undecided("inverse of a sum")
        (w, c), = self.terms.items()
        if c not in (1, -1):
            raise Undecided("inverse of a scaled matrix")
        return Val({tuple((n, not i, tr) for n, i, tr in reversed(w)): c}, self.atoms)

    def single_word(self):
        if len(self.terms) == 1:
            (w, c), = self.terms.items()
            if c == 1:
                return w
        return None

    def mentions(self, name):
        return any(n == name for w in self.terms for n, _, _ in w)

    def key(self):
        return tuple(sorted(self.terms.items()))

    def __eq__(self, other):
        return isinstance(other, Val) and self.key() == other.key()

    def __hash__(self):
        return hash(self.key())

    def show(self):
        def a(n, i, tr):
            return n + ("^-T" if i and tr else "^-1" if i else "^T" if tr else "")

        parts = []
        for w, c in sorted(self.terms.items()):
            s = " ".join(a(*x) for x in w) or "I"
            parts.append(("+ " if c > 0 else "- ") + ("" if abs(c) == 1 else "%d*" % abs(c)) + s)
        return " ".join(parts) or "0"


class Vec:
    """a vector used as a diagonal scaling: D<name>^(+-1)"""

    def __init__(self, name, inv=False):
        self.name = name
        self.inv = inv


class _InlineProps(ast.NodeTransformer):
    """self.<property>  ->  the property's returned expression (recursively)."""

    def __init__(self, p, cls, depth=0):
        self.p = p
        self.cls = cls
        self.attrs = p.attrs(cls)
        self.depth = depth

    def visit_Attribute(self, node):
        self.generic_visit(node)
        ch = attr_chain(node)
        if ch and ch.startswith("self.") and ch.count(".") == 1 and self.depth < 6:
            ai = self.attrs.get(ch.split(".", 1)[1])
            if ai is not None and ai.kind == "PROPERTY" and ai.func is not None:
                rets = [n for n in ast.walk(ai.func.node) if isinstance(n, ast.Return) and n.value is not None]
                if len(rets) == 1:
                    return _InlineProps(self.p, self.cls, self.depth + 1).visit(clone(rets[0].value))
        return node


def canon_diag(p, cls, e):
    """Canonical text of a diagonal expression: properties inlined, commutative + ordered."""
    e2 = _InlineProps(p, cls).visit(clone(e))
    return _comm_text(e2)


def _comm_text(e):
    if isinstance(e, ast.BinOp) and isinstance(e.op, ast.Add):
        parts = sorted(_comm_text(t) if s > 0 else "-" + _comm_text(t) for s, t in signed_terms(e))
        return "(" + " + ".join(parts) + ")"
    return norm_text(e)



# ---------------------------------------------------------------------------------------
# evaluator
# ---------------------------------------------------------------------------------------

TORCH_MODS = ("torch", "F", "torch.linalg", "np", "torchutils", "torch.nn.functional")
LU_FUNCS = ("torch.lu", "torch.linalg.lu_factor", "torch.linalg.lu_factor_ex", "torch.lu_factor")


def _is_torch_func(call, *names):
    f = norm_text(call.func)
    return f in names


def _kw(call, name, default=None):
    for k in call.keywords:
        if k.arg == name:
            return k.value
    return default


def _bool_const(e):
    if isinstance(e, ast.Constant) and isinstance(e.value, bool):
        return e.value
    return None


class LinEval:
    def __init__(self, program, cls, atoms=None, xname="inputs"):
        self.p = program
        self.cls = cls
        self.atoms = atoms if atoms is not None else Atoms()
        self.xname = xname
        self.memo = {}
        self.method_memo = {}
        self.attrs = program.attrs(cls)
        self.atoms.add("X", kind="input")
        self.atoms.add("b", kind="bias")
        self.obligations = []  # (node, message): definite errors
        self.notes = []

    # -- helpers ---------------------------------------------------------------------
    def _attr_kind(self, name):
        ai = self.attrs.get(name)
        return ai.kind if ai is not None else None

    def method_value(self, mname, comp=None):
        """Value of a no-argument method of the class (single returning path)."""
        key = (mname, comp)
        if key in self.method_memo:
            v = self.method_memo[key]
            if v is None:
                raise Undecided("recursive accessor %s" % mname)
            return v
        self.method_memo[key] = None
        fi = self.cls.lookup_method(mname)
        if fi is None:
            raise Undecided("no method %s" % mname)
        rets = [pp for pp in paths_of(fi.node) if pp.kind == "return"]
        if len(rets) != 1:
            raise Undecided("%s has %d returning paths" % (mname, len(rets)))
        r = rets[0].ret
        if comp is not None:
            if not (isinstance(r, ast.Tuple) and len(r.elts) > comp):
                raise Undecided("%s does not return a tuple" % mname)
            r = r.elts[comp]
        owner = self.cls
        v = self.ev(r)
        self.method_memo[key] = v
        return v

    def ev(self, e):
        k = id(e)
        if k in self.memo and self.memo[k][0] is e:
            return self.memo[k][1]
        v = self._ev(e)
        self.memo[k] = (e, v)
        return v

    def mat(self, e):
        v = self.ev(e)
        if isinstance(v, Vec):
            raise Undecided("vector where a matrix is expected: %s" % brief(e, 60))
        return v

    # -- expression forms --------------------------------------------------------------
    def _ev(self, e):
        A = self.atoms
        if isinstance(e, ast.Name):
            if e.id == self.xname:
                return Val.atom("X", A)
            raise Undecided("free name %s" % e.id)
        if isinstance(e, ast.Attribute):
            ch = attr_chain(e)
            if e.attr == "T" or e.attr == "mT":
                return self.mat(e.value).t()
            if ch == "self.bias":
                return Val.atom("b", A)
            if ch and ch.startswith("self.") and ch.count(".") == 1:
                name = ch.split(".", 1)[1]
                ai = self.attrs.get(name)
                if ai is not None and ai.kind == "PROPERTY" and ai.func is not None:
                    return self._vector_attr(name, ai)
                if ai is not None and ai.kind == "PARAM":
                    return self._param_attr(name, ai)
            raise Undecided("attribute %s" % ch)
        if isinstance(e, ast.BinOp):
            if isinstance(e.op, ast.MatMult):
                return self.mat(e.left).mul(self.mat(e.right))
            if isinstance(e.op, (ast.Add, ast.Sub)):
                l, r = self.ev(e.left), self.ev(e.right)
                if isinstance(l, Vec) or isinstance(r, Vec):
                    raise Undecided("sum with a diagonal vector: %s" % brief(e, 60))
                return l.add(r, 1 if isinstance(e.op, ast.Add) else -1)
            if isinstance(e.op, (ast.Mult, ast.Div)):
                inv = isinstance(e.op, ast.Div)
                l, r = self.ev_or_vec(e.left), self.ev_or_vec(e.right)
                if isinstance(r, Vec) and isinstance(l, Val):
                    # rows scaled element-wise by a vector: x @ diag(v)
                    return l.mul(self._diag(r, inv))
                if isinstance(l, Vec) and isinstance(r, Val) and not inv:
                    return r.mul(self._diag(l, False))
                if l == "one" and isinstance(r, Vec) and inv:
                    return Vec(r.name, not r.inv)
                raise Undecided("element-wise product %s" % brief(e, 60))
            if isinstance(e.op, ast.Pow):
                l = self.ev(e.left)
                if isinstance(l, Vec) and const_number(e.right) == -1:
                    return Vec(l.name, not l.inv)
            raise Undecided("operator %s" % type(e.op).__name__)
        if isinstance(e, ast.UnaryOp) and isinstance(e.op, ast.USub):
            v = self.mat(e.operand)
            return Val({w: -c for w, c in v.terms.items()}, A)
        if isinstance(e, ast.Call):
            return self._call(e)
        raise Undecided("expression %s" % type(e).__name__)

    def ev_or_vec(self, e):
        """operand of an element-wise product: a matrix value, a diagonal vector, or the scalar one"""
        if const_number(e) == 1:
            return "one"
        try:
            v = self.ev(e)
        except Undecided:
            return self._as_vec(e)
        if isinstance(v, Val):
            w = v.single_word()
            if w is not None and len(w) == 1 and self.atoms.props(w[0][0]).get("kind") == "general" and not w[0][1] and not w[0][2]:
                try:
                    return self._as_vec(e)  # a parameter used element-wise is a vector
                except Undecided:
                    pass
        return v

    def _diag(self, vec, extra_inv):
        inv = vec.inv != extra_inv
        return Val.atom(vec.name, self.atoms, inv=inv)

    def _vec_atom(self, e):
        """diag(e) for a vector expression e, named by its canonical content (properties inlined,
        sums ordered) so that `self.diagonal` and its inlined definition are one atom."""
        an = "D[%s]" % canon_diag(self.p, self.cls, e)
        self.atoms.add(an, kind="diag", sym=True, diag=e, unit=False)
        return Vec(an)

    def _vector_attr(self, name, ai):
        rets = [n for n in ast.walk(ai.func.node) if isinstance(n, ast.Return)]
        if len(rets) != 1:
            raise Undecided("property %s" % name)
        return self._vec_atom(ast.parse("self.%s" % name, mode="eval").body)

    def _param_attr(self, name, ai):
        # a parameter used through F.linear / @ / inverse: a square matrix
        an = "W[self.%s]" % name
        self.atoms.add(an, kind="general", param=name)
        return Val.atom(an, self.atoms)

    def _as_vec(self, e):
        """Interpret e as a diagonal vector (for torch.diag / reciprocal / element-wise scaling)."""
        if isinstance(e, ast.Attribute) and attr_chain(e) and attr_chain(e).startswith("self."):
            name = attr_chain(e).split(".", 1)[1]
            ai = self.attrs.get(name)
            if ai is not None and ai.kind in ("PROPERTY", "PARAM") and "." not in name:
                return self._vec_atom(e)
        if isinstance(e, ast.Call):
            f = norm_text(e.func)
            last = f.split(".")[-1]
            if last == "reciprocal":
                inner = e.args[0] if f.startswith("torch.") and e.args else (e.func.value if isinstance(e.func, ast.Attribute) else None)
                v = self._as_vec(inner)
                return Vec(v.name, not v.inv)
            if last in ("exp", "softplus", "log", "abs", "sigmoid"):
                return self._vec_atom(e)
        if isinstance(e, ast.BinOp) and isinstance(e.op, ast.Div) and const_number(e.left) == 1:
            v = self._as_vec(e.right)
            return Vec(v.name, not v.inv)
        if isinstance(e, ast.BinOp) and isinstance(e.op, ast.Pow) and const_number(e.right) == -1:
            v = self._as_vec(e.left)
            return Vec(v.name, not v.inv)
        if isinstance(e, ast.BinOp) and isinstance(e.op, (ast.Add, ast.Sub, ast.Mult)):
            # an element-wise expression of vectors / scalars: all leaves must be self attributes or constants
            for n in ast.walk(e):
                if isinstance(n, ast.Name) and n.id not in ("self", "torch", "F", "np"):
                    raise Undecided("not a diagonal vector: %s" % brief(e, 60))
            return self._vec_atom(e)
        raise Undecided("not a diagonal vector: %s" % brief(e, 60))

    # -- calls -------------------------------------------------------------------------
    def _call(self, e):
        A = self.atoms
        f = norm_text(e.func)
        last = f.split(".")[-1]
        recv = e.func.value if isinstance(e.func, ast.Attribute) else None
        recv_is_mod = recv is not None and norm_text(recv) in TORCH_MODS
        if is_component(e):
            call, i = e.args[0], e.args[1].value
            return self._component(call, i)
        if is_store(e):
            return self._tri_from_stores(e)
        # transposition
        if last == "t" and not e.args and recv is not None and not recv_is_mod:
            return self.mat(recv).t()
        if f == "torch.t" and len(e.args) == 1:
            return self.mat(e.args[0]).t()
        if last == "transpose":
            args = e.args[1:] if recv_is_mod else e.args
            base = e.args[0] if recv_is_mod else recv
            dims = sorted(const_number(a) for a in args if const_number(a) is not None)
            if len(args) == 2 and dims in ([0, 1], [-2, -1]):
                return self.mat(base).t()
            raise Undecided("transpose dims")
        if last in ("contiguous", "clone", "float", "double") and recv is not None and not recv_is_mod and not e.args:
            return self.ev(recv)
        # products
        if f == "F.linear" or f == "torch.nn.functional.linear":
            x = self.mat(e.args[0])
            w = self.mat(e.args[1])
            out = x.mul(w.t())
            bias = e.args[2] if len(e.args) > 2 else _kw(e, "bias")
            if bias is not None:
                out = out.add(self.mat(bias))
            return out
        if f in ("torch.matmul", "torch.mm") and len(e.args) == 1 and isinstance(e.args[0], ast.Starred) and isinstance(e.args[0].value, ast.Call):
            # torch.matmul(*self._pair()): the two components of the pair, in order
            inner = e.args[0].value
            a = ast.Call(func=ast.Name(id="__component__", ctx=ast.Load()), args=[inner, ast.Constant(value=0)], keywords=[])
            b = ast.Call(func=ast.Name(id="__component__", ctx=ast.Load()), args=[inner, ast.Constant(value=1)], keywords=[])
            return self.mat(a).mul(self.mat(b))
        if f in ("torch.matmul", "torch.mm") and len(e.args) == 2:
            return self.mat(e.args[0]).mul(self.mat(e.args[1]))
        if last in ("matmul", "mm") and recv is not None and not recv_is_mod and len(e.args) == 1:
            return self.mat(recv).mul(self.mat(e.args[0]))
        if f == "torch.addmm" and len(e.args) == 3:
            return self.mat(e.args[0]).add(self.mat(e.args[1]).mul(self.mat(e.args[2])))
        # identity
        if f == "torch.eye":
            return Val.identity(A)
        # diag
        if f == "torch.diag" and len(e.args) == 1:
            v = self._as_vec(e.args[0])
            return self._diag(v, False)
        if f == "torch.diag_embed" and len(e.args) == 1:
            v = self._as_vec(e.args[0])
            return self._diag(v, False)
        if last == "reciprocal":
            return self._as_vec(e)
        # inverses
        if f in ("torch.inverse", "torch.linalg.inv") and len(e.args) == 1:
            return self.mat(e.args[0]).inv()
        if last == "inverse" and recv is not None and not recv_is_mod and not e.args and not (attr_chain(recv) or "").startswith("self.orth"):
            return self.mat(recv).inv()
        if f == "torch.linalg.solve" and len(e.args) == 2:
            return self.mat(e.args[0]).inv().mul(self.mat(e.args[1]))
        if f == "torch.linalg.solve_triangular":
            return self._solve_triangular(e, e.args[0], e.args[1], new_api=True)
        if f == "torch.lu_solve" and len(e.args) == 3:
            m = self._lu_of(e.args[1], e.args[2])
            return m.inv().mul(self.mat(e.args[0]))
        if f == "torch.linalg.lu_solve" and len(e.args) >= 3:
            m = self._lu_of(e.args[0], e.args[1])
            left = _bool_const(_kw(e, "left", ast.Constant(value=True)))
            adj = _bool_const(_kw(e, "adjoint", ast.Constant(value=False)))
            if left is None or adj is None:
                raise Undecided("lu_solve flags")
            mm = m.t() if adj else m
            return mm.inv().mul(self.mat(e.args[2])) if left else self.mat(e.args[2]).mul(mm.inv())
        # sub-modules (orthogonal factors) and own methods
        ch = attr_chain(e.func) or ""
        if ch.startswith("self."):
            parts = ch.split(".")
            if len(parts) == 2:
                name = parts[1]
                kind = self._attr_kind(name)
                if kind in ("METHOD", None) and self.cls.lookup_method(name) is not None and not e.args:
                    return self.method_value(name)
            if len(parts) == 3 and parts[2] == "matrix" and self._is_householder(parts[1]) and not e.args:
                return self._orth_atom(parts[1]).inv()  # matrix() = inverse(I) = Q^-1  (checked by ORTH-REV / LIN-WORD on the class itself)
        raise Undecided("call %s" % brief(e, 70))

    def _is_householder(self, attr):
        ai = self.attrs.get(attr)
        if ai is None or ai.kind != "MODULE":
            return False
        c = ai.extra
        return getattr(c, "name", None) == "HouseholderSequence" or any(getattr(b, "name", None) == "HouseholderSequence" for b in (c.mro() if hasattr(c, "mro") else []))

    def _orth_atom(self, attr):
        an = "Q[self.%s]" % attr
        self.atoms.add(an, kind="orth", orth=True, unit=True)
        return Val.atom(an, self.atoms)

    def _component(self, call, i):
        if not isinstance(call, ast.Call):
            raise Undecided("component of a non-call")
        ch = attr_chain(call.func) or ""
        parts = ch.split(".")
        if parts[0] == "self" and len(parts) in (2, 3) and self._is_householder(parts[1]):
            direction = parts[2] if len(parts) == 3 else "forward"
            if direction not in ("forward", "inverse"):
                raise Undecided("method %s of an orthogonal factor" % direction)
            if i != 0:
                raise Undecided("log-det component used as a matrix")
            x = self.mat(call.args[0])
            q = self._orth_atom(parts[1])
            return x.mul(q if direction == "forward" else q.inv())
        if parts[0] == "self" and len(parts) == 2 and self.cls.lookup_method(parts[1]) is not None and not call.args:
            return self.method_value(parts[1], comp=i)
        f = norm_text(call.func)
        if f == "torch.triangular_solve" and i == 0:
            return self._solve_triangular(call, call.args[1], call.args[0], new_api=False)
        if f in ("torch.slogdet", "torch.linalg.slogdet"):
            raise Undecided("slogdet component as a matrix")
        raise Undecided("component %d of %s" % (i, brief(call, 60)))

    def _lu_of(self, lu, piv):
        """The matrix M when (lu, piv) are the two components of one LU factorisation call."""
        if is_component(lu) and is_component(piv) and lu.args[1].value == 0 and piv.args[1].value == 1:
            c0, c1 = lu.args[0], piv.args[0]
            if isinstance(c0, ast.Call) and norm_text(c0.func) in LU_FUNCS and norm_text(c0) == norm_text(c1) and c0.args:
                return self.mat(c0.args[0])
        raise Undecided("LU factors of unknown origin")

    def _solve_triangular(self, node, a_expr, b_expr, new_api):
        a = self.mat(a_expr)
        w = a.single_word()
        if w is None or len(w) != 1:
            raise Undecided("triangular solve with a composite coefficient matrix")
        name, inv, tr = w[0]
        pr = self.atoms.props(name)
        if pr.get("kind") != "tri" or inv:
            raise Undecided("triangular solve with a non-triangular atom %s" % name)
        upper = _bool_const(_kw(node, "upper", None if new_api else ast.Constant(value=True)))
        unit = _bool_const(_kw(node, "unitriangular", ast.Constant(value=False)))
        left = _bool_const(_kw(node, "left", ast.Constant(value=True))) if new_api else True
        trans = _bool_const(_kw(node, "transpose", ast.Constant(value=False))) if not new_api else False
        if upper is None or unit is None or left is None or trans is None:
            raise Undecided("non-constant solve flags")
        eff_upper = (pr["tri"] == "upper") != tr
        if upper != eff_upper:
            self.obligations.append((node, "solve_triangular(upper=%s) is applied to a %s-triangular factor: the other triangle (all zeros) is used and the solve is wrong" % (upper, "upper" if eff_upper else "lower")))
        if unit and not pr.get("unit"):
            self.obligations.append((node, "solve_triangular(unitriangular=True) ignores the factor's diagonal `%s`, which is not identically one" % (norm_text(pr.get("diag")) if pr.get("diag") is not None else "?")))
        ainv = (a.t() if trans else a).inv()
        b = self.mat(b_expr)
        return ainv.mul(b) if left else b.mul(ainv)

    def _tri_from_stores(self, e):
        base, stores = strip_stores(e)
        if not (isinstance(base, ast.Call) and norm_text(base.func).split(".")[-1] in ("new_zeros", "zeros", "zeros_like")):
            raise Undecided("stores into a non-zero matrix")
        where = {}
        for idx, val in stores:
            region = self._index_region(idx)
            if region is None:
                raise Undecided("store at an unknown index set %s" % brief(idx, 50))
            where[region] = val  # later stores win
        regions = set(where)
        if not regions <= {"lower", "upper", "diag"} or ("lower" in regions and "upper" in regions):
            raise Undecided("matrix filled on %s" % sorted(regions))
        tri = "lower" if "lower" in regions else "upper"
        dv = where.get("diag")
        unit = dv is not None and const_number(dv) == 1
        ent = where.get(tri)
        an = "T%s[%s|%s]" % ("l" if tri == "lower" else "u", norm_text(ent) if ent is not None else "0", norm_text(dv) if dv is not None else "0")
        props = dict(kind="tri", tri=tri, unit=unit, diag=dv)
        if ent is None:
            props["sym"] = True
        if dv is None:
            props["singular"] = True
        self.atoms.add(an, **props)
        return Val.atom(an, self.atoms)

    def _index_region(self, idx):
        """'lower' / 'upper' / 'diag' for `(self.X_indices[0], self.X_indices[1])`, X an attribute
        the constructor fills with np.tril_indices(k=-1) / np.triu_indices(k=1) / np.diag_indices."""
        if isinstance(idx, ast.Name) and idx.id == "__diag__":
            return "diag"  # M.diagonal().fill_(..) / .copy_(..), written as a store by the front-end
        if not (isinstance(idx, ast.Tuple) and len(idx.elts) == 2):
            return None
        names = []
        for j, el in enumerate(idx.elts):
            # self.X[j]  or, after `rows, cols = self.X`, the j-th component of self.X
            if isinstance(el, ast.Subscript) and const_number(el.slice) == j:
                names.append(attr_chain(el.value))
            elif is_component(el) and el.args[1].value == j:
                names.append(attr_chain(el.args[0]))
            else:
                return None
        if names[0] != names[1] or not names[0] or not names[0].startswith("self."):
            return None
        ai = self.attrs.get(names[0].split(".", 1)[1])
        v = ai.value if ai is not None else None
        while isinstance(v, ast.Call) and norm_text(v.func) in ("torch.from_numpy", "torch.as_tensor", "torch.tensor") and v.args:
            v = v.args[0]
        if not isinstance(v, ast.Call):
            return None
        f = norm_text(v.func)
        k = _kw(v, "k", v.args[1] if len(v.args) > 1 else None)
        kk = const_number(k) if k is not None else 0
        if f in ("np.tril_indices", "numpy.tril_indices", "torch.tril_indices"):
            return "lower" if kk == -1 else None
        if f in ("np.triu_indices", "numpy.triu_indices", "torch.triu_indices"):
            return "upper" if kk == 1 else None
        if f in ("np.diag_indices", "numpy.diag_indices"):
            return "diag"
        return None
