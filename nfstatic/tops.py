"""T-OPS: the trusted table of torch / numpy operation semantics used by the analyses.

One line per operation, hand-written from the torch documentation and reviewed against the
call sites of the pinned tree.  Keys are the *short* operation name; the same entry serves
`torch.op(x, ...)`, `F.op(x, ...)` and `x.op(...)`.

cat:
  alias    result may share storage with its first tensor operand (views, may-return-self casts)
  fresh    result is newly allocated
  ctor     tensor constructor from Python data (default dtype unless dtype= given)
  like     newly allocated, dtype/device taken from the first tensor operand
  scalar   returns Python data (ints, sizes, bools, floats)
  tuple    returns a tuple of fresh tensors (n)
  aliases  returns a tuple/list of views of the first operand
flags:
  ew       elementwise in every tensor operand (no axis is mixed)
  red      reduction (takes dim / reduces everything when dim is absent)
  same     operands must have the same dtype (no type promotion)
  cut      severs the autograd graph
  rng      random source
  idx      result is an index / integer / boolean tensor (piecewise constant)
"""


def _t(cat, **kw):
    d = {"cat": cat, "ew": False, "red": False, "same": False, "cut": False, "rng": False, "idx": False, "n": 0}
    d.update(kw)
    return d


OPS = {}


def _add(names, cat, **kw):
    for n in names.split():
        OPS[n] = _t(cat, **kw)


# views / may-return-self
_add("view reshape permute transpose t expand expand_as unsqueeze squeeze contiguous flatten narrow view_as", "alias")
_add("float double half to type cpu cuda as_tensor", "alias", ew=True)
_add("long int byte bool", "alias", ew=True, idx=True)
_add("detach", "alias", ew=True, cut=True)
_add("chunk split unbind", "aliases")
# elementwise, allocating
_add(
    "abs exp log log1p sqrt sigmoid tanh atan atan2 cos sin tan erf reciprocal pow clamp softplus "
    "leaky_relu relu elu clone where neg add sub mul div true_divide square exp2 expm1 lerp "
    "logical_not logical_and logical_or",
    "fresh",
    ew=True,
)
_add(
    "rsqrt sinh cosh asinh acosh atanh asin acos log2 log10 logaddexp logaddexp2 hypot frac trunc fmod remainder "
    "copysign nan_to_num xlogy xlog1py entr expit logit ndtr log_ndtr ndtri erfinv erfc erfcx lgamma digamma "
    "i0 i0e sinc logsigmoid hardtanh softsign silu gelu selu celu mish hardswish hardsigmoid threshold "
    "addcmul addcdiv maximum minimum fmax fmin clamp_min clamp_max clip float_power",
    "fresh",
    ew=True,
)
_add("sign sgn floor ceil round isinf isnan isfinite eq ne lt le gt ge heaviside signbit isclose", "fresh", ew=True, idx=True)
_add("ones_like zeros_like empty_like full_like", "like", ew=True)
_add("rand_like randn_like", "like", ew=True, rng=True)
# stochastic unless told otherwise: F.dropout(x, p, training=True) draws a fresh mask per call
_add("dropout dropout1d dropout2d dropout3d alpha_dropout feature_alpha_dropout rrelu", "fresh", ew=True, rng="mode")
# torch.normal(mean, std) is not the reparameterised  mean + std * randn: its output has no derivative with
# respect to the parameter tensors, the gradient is severed there (discrete draws have none to lose)
_add("bernoulli poisson binomial", "fresh", ew=True, rng=True)
_add("normal", "fresh", ew=True, rng=True, cut=True)
_add("new_zeros new_ones new_empty new_full new_tensor", "like")
# structural, allocating
_add("softmax log_softmax cumsum glu", "fresh", red=False, axis=True)
_add("cat stack pad gather index_select masked_select repeat repeat_interleave tile diag flip roll", "fresh")
_add("linear matmul mm bmm mv ger outer lu_solve addmv addmm addr baddbmm addbmm einsum tensordot kron cross dot vdot inner chain_matmul multi_dot bilinear", "fresh", same=True)
_add("normalize cosine_similarity pairwise_distance cdist cumprod logcumsumexp cummax cummin diff trapz trapezoid", "fresh")
_add("solve cholesky cholesky_solve cholesky_inverse pinv matrix_power matrix_exp vector_norm matrix_norm det logdet inv triangular_solve", "fresh")
_add("var_mean std_mean aminmax", "tuple", n=2, red=True)
_add("lu_factor eigh svd slogdet", "tuple", n=2)
_add("bucketize searchsorted count_nonzero", "fresh", idx=True)
_add("unique unique_consecutive topk kthvalue median mode sort", "fresh")
_add("scatter scatter_add index_add index_copy index_fill masked_fill masked_scatter take take_along_dim where tril triu diag_embed block_diag", "fresh")
_add("solve_triangular inverse", "fresh")
_add("argsort argmax argmin nonzero", "fresh", idx=True)
_add("sum mean var std logsumexp prod norm all any amax amin", "fresh", red=True)
_add("min max", "fresh", red=True)  # 1-arg: reduction; 2-tensor-arg: elementwise (decided at the call)
_add("lu qr", "tuple", n=2)
_add("multinomial", "fresh", rng=True, idx=True)
# constructors
_add("zeros ones eye arange linspace tensor Tensor empty full", "ctor")
_add("rand randn", "ctor", rng=True)
_add("randint randperm", "ctor", rng=True, idx=True)
# python data
_add("dim ndimension numel nelement size item tolist numpy stride is_floating_point __len__", "scalar")
OPS["item"]["cut"] = True
OPS["tolist"]["cut"] = True
OPS["numpy"]["cut"] = True

CTOR_INT = {"arange", "randint", "randperm"}  # integer dtype unless dtype= is given

# numpy / math functions: Python numbers in, Python numbers (or index arrays) out
NUMPY_SCALAR = {
    "log", "sqrt", "exp", "prod", "tanh", "cumsum", "insert", "concatenate", "arange", "mod",
    "tril_indices", "triu_indices", "diag_indices", "pi", "abs", "floor", "ceil", "power",
}

RNG_INIT = {"uniform_", "normal_", "xavier_uniform_", "xavier_normal_", "kaiming_uniform_",
            "kaiming_normal_", "orthogonal_", "trunc_normal_"}
DET_INIT = {"zeros_", "ones_", "constant_", "eye_"}


def is_inplace_method(name):
    return name.endswith("_") and not name.endswith("__") and not name.startswith("_")
