"""Registration of the engine canary (one synthetic mini-package, several rules).

canaries/engine/bad contains, in a few lines each: a helper and a transform that write into
their argument, a detached scale, a default-dtype identity in `@`, a random plain attribute
read by forward, and a sampler that dereferences an optional context.  canaries/engine/good is
the corrected twin.  Each rule below must fire on `bad` and stay silent on `good`, on every
run, or the check exits 2 (a rule that matches nothing would otherwise pass vacuously).
"""

from . import canary


def _own(kinds, rule):
    def run(prog):
        from .rules.own_rules import findings_for

        fs = findings_for(prog, kinds)
        for f in fs:
            if rule == "UT-PURE" and f.rule == "OWN-ARG":
                f.rule = "UT-PURE"
        return fs

    return run


def _cut(prog):
    from .rules.c16 import findings_cut

    return findings_cut(prog)


def _rng(prog):
    from .rules.c15 import findings_rng

    return findings_rng(prog)


def _null(prog):
    from .rules.c05 import analyse_null
    from .report import Finding

    dom, it, rets = analyse_null(prog)
    return [Finding("NULL-1", fi.module, fi.qualname, node, what) for (fi, node, what, opts, stack) in dom.derefs.values()]


def _mix(prog):
    from .rules.c19 import analyse
    from .report import Finding

    dom, it, per = analyse(prog, ("transform", "distribution", "spline"))
    return [Finding("DT-MIX", fi.module, fi.qualname, node, op) for fi, node, op, stack in dom.mix]


canary.register("C13", "engine", _own(("transform", "distribution", "module", "spline"), "OWN-ARG"), "OWN-ARG")
canary.register("C20", "engine", _own(("util",), "UT-PURE"), "UT-PURE")
canary.register("C16", "engine", _cut, "GRAD-CUT")
canary.register("C15", "engine", _rng, "PERS-RNG")
canary.register("C05", "engine", _null, "NULL-1")
canary.register("C19", "engine", _mix, "DT-MIX")


def _lin(rule):
    def run(prog):
        from .report import RuleResult
        from .rules.lin_word import check_linear_classes

        res, res_ld = RuleResult("LIN-WORD", ""), RuleResult("LIN-LOGDET", "")
        base = prog.find_class("Linear", "nflows.transforms.linear")
        check_linear_classes(prog, base, res, res_ld)
        if res.undecided or res_ld.undecided:
            raise RuntimeError("canary undecided: %s" % (res.undecided + res_ld.undecided)[:2])
        return res.findings + res_ld.findings

    return run


def _logspace(prog):
    from .rules.c19 import logspace_findings

    return logspace_findings(prog)


# canaries/linear: a two-factor parameterisation with wrong factor order in weight_inverse() and
# forward, an unflipped inverse log-det and a log(prod) -- and its corrected twin
canary.register("C11", "linear", _lin("LIN-WORD"), "LIN-WORD")
canary.register("C11", "linear", _lin("LIN-LOGDET"), "LIN-LOGDET")
canary.register("C19", "linear", _logspace, "NUM-LOGSPACE")


def _rng_eval(prog):
    from .report import Finding
    from .rules.c12 import analyse, _leaves

    dom, it, per_entry = analyse(prog)
    out = []
    for e, r in per_entry:
        for leaf in _leaves(r):
            for l in leaf.ann:
                if isinstance(l, tuple) and l[0] == "RNG":
                    fi, node, op = dom.sites[l]
                    out.append(Finding("BM-RNG", fi.module, fi.qualname, node, op))
    return out


# canaries/engine: inverse() applies F.dropout without training= (bad) / with training=self.training (good)
canary.register("C12", "engine", _rng_eval, "BM-RNG")


def _moment(prog):
    from .rules.c19 import moment_findings

    return moment_findings(prog)


canary.register("C19", "linear", _moment, "NUM-MOMENT")


def _norm_load(prog):
    from .report import RuleResult
    from .rules.c14 import _load_hook_findings

    res = RuleResult("NORM-LOAD", "")
    cls = prog.find_class("Norm", "nflows.transforms.canary")
    hooks = _load_hook_findings(prog, cls, ["initialized", "shift"], res)
    if not hooks or res.undecided:
        raise RuntimeError("canary: load hook not analysed (%s)" % res.undecided[:1])
    return res.findings


# canaries/engine: a _load_from_state_dict that overwrites the saved flag (bad) / only fills an absent key (good)
canary.register("C14", "engine", _norm_load, "NORM-LOAD")


def _grad_where(prog):
    from .rules.c16 import where_findings, where_sites

    if not where_sites(prog):
        raise RuntimeError("canary: no torch.where site seen")
    return where_findings(prog)


# canaries/engine: torch.where(x > 1, log(x) + 1, x) (bad) / with the log's argument clamped to >= 1 (good)
canary.register("C16", "engine", _grad_where, "GRAD-WHERE")


def _ut_args(prog):
    from .rules.c20 import py_args_rule

    class Ctx:
        p = prog
        ut_args_floor = 1

    return py_args_rule(Ctx()).findings


# canaries/engine: a helper that extends the caller's list through an alias (bad) / copies it first (good)
canary.register("C20", "engine", _ut_args, "UT-ARGS")


def _pers_shape(prog):
    from .rules.c15 import pers_shape_rule

    class Ctx:
        p = prog

    r = pers_shape_rule(Ctx())
    if not r.instances and not r.findings:
        raise RuntimeError("canary: no rebinding update seen")
    return r.findings


# canaries/engine: a buffer rebound to a keepdim statistic (bad) / to a statistic of its own rank (good)
canary.register("C15", "engine", _pers_shape, "PERS-SHAPE")


def _grad_ident(prog):
    from .rules.c16 import grad_ident_rule

    class Ctx:
        p = prog
        grad_ident_floor = 1

    return grad_ident_rule(Ctx()).findings


# canaries/engine: a training-mode helper that rebinds a registered parameter (bad) / writes its .data (good)
canary.register("C16", "engine", _grad_ident, "GRAD-IDENT")


def _saturate(prog):
    from .rules.c19 import saturate_rule

    class Ctx:
        p = prog
        saturate_floor = 1

    return saturate_rule(Ctx()).findings


# canaries/engine: log1p(-sigmoid(z)) (bad) / -softplus(z) (good)
canary.register("C19", "engine", _saturate, "NUM-SATURATE")


def _pers_hist(prog):
    from .rules.c15 import pers_hist_rule

    class Ctx:
        p = prog
        pers_hist_floor = 1

    return pers_hist_rule(Ctx()).findings


# canaries/engine: a bound widened to the training inputs kept in a plain attribute (bad) / in a persistent buffer (good)
canary.register("C15", "engine", _pers_hist, "PERS-HIST")


def _mk(rule_import, attrs):
    def run(prog):
        mod, name = rule_import
        import importlib

        rule = getattr(importlib.import_module(mod, __package__), name)

        class Ctx:
            p = prog
            tier = "quick"

        for k, v in attrs.items():
            setattr(Ctx, k, v)
        r = rule(Ctx())
        out = []
        for x in r if isinstance(r, list) else [r]:
            out.extend(x.findings)
        return out

    return run


# canaries/engine: a sub-network switched to eval() and left in train() (bad) / put back to the mode found (good)
for _p in ("C12", "C13", "C14"):
    canary.register(_p, "engine", _mk((".rules.shared_rules", "mode_keep_rule"), {"mode_keep_floor": 5}), "MODE-KEEP")
# canaries/engine: a module-level grid table keyed by the size only (bad) / by size, dtype and device (good)
for _p in ("C09", "C17", "C13", "C20"):
    canary.register(_p, "engine", _mk((".rules.shared_rules", "shared_state_rule"), {"shared_floor": 5}), "SHARED-STATE")
# canaries/engine: torch.normal(mean, std) (bad) / mean + randn (good)
canary.register("C16", "engine", _mk((".rules.c16", "grad_reparam_rule"), {"reparam_floor": 5}), "GRAD-REPARAM")
# canaries/engine: a clip at finfo(dtype).eps (bad) / at 1e-6, finfo only compared against in a guard (good)
canary.register("C19", "engine", _mk((".rules.c19", "dt_finfo_rule"), {"finfo_floor": 5}), "DT-FINFO")
# canaries/engine: a load hook that overwrites the saved flag (bad) / fills it only when that key is absent (good)
canary.register("C15", "engine", _mk((".rules.c15", "pers_load_rule"), {}), "PERS-LOAD")
# canaries/engine: a mixture whose sample_and_log_prob scores the drawn component (bad) / marginalises it (good)
canary.register("C04", "engine", _mk((".rules.flow_rules", "slp_latent_rule"), {"slp_latent_floor": 1}), "SLP-LATENT")
