"""C07 -- coupling layers leave identity features untouched and condition only on them."""

import ast

from ..astutil import attr_chain, canon_atom, negate_atom, walk_pc
from ..entries import param_value
from ..interp import Interp, OBJ, E, AV, T, all_ann
from ..model import AnalysisIncomplete, norm_text
from ..report import Finding, RuleResult
from ..taint import TaintDomain, _index_ann
from . import register, A_NET, A_UMNN, T_OPS


def coupling_classes(p):
    base = p.find_class("CouplingTransform", "nflows.transforms.coupling")
    return base, p.subclasses_of(base)


# ---------------------------------------------------------------------------------------
# CPL-PART
# ---------------------------------------------------------------------------------------


def part_rule(ctx):
    p = ctx.p
    base, _ = coupling_classes(p)
    res = RuleResult("CPL-PART", "identity / transform index buffers partition the features: same index vector, complementary predicates of the same mask")
    init = base.methods.get("__init__")
    regs = {}
    # the constructor and the helpers it calls on self
    ctor_fns, todo = [], [init]
    while todo:
        m = todo.pop()
        if any(m is x for x in ctor_fns):
            continue
        ctor_fns.append(m)
        for n in ast.walk(m.node):
            if isinstance(n, ast.Call) and isinstance(n.func, ast.Attribute) and isinstance(n.func.value, ast.Name) and n.func.value.id == "self" and base.lookup_method(n.func.attr) is not None and n.func.attr in base.methods:
                todo.append(base.methods[n.func.attr])
    ctor_nodes = [n for m in ctor_fns for n in ast.walk(m.node)]
    for n in ctor_nodes:
        if isinstance(n, ast.Call) and isinstance(n.func, ast.Attribute) and n.func.attr == "register_buffer" and len(n.args) >= 2 and isinstance(n.args[0], ast.Constant):
            regs[n.args[0].value] = (n, n.args[1])
    for need in ("identity_features", "transform_features"):
        if need not in regs:
            raise AnalysisIncomplete("CouplingTransform does not register buffer %s" % need)
    parts = {}
    truthy = {}  # buffer name -> polarity, when the selecting predicate is the truth value of the mask
    for name, (node, v) in regs.items():
        if name not in ("identity_features", "transform_features"):
            continue
        if isinstance(v, ast.Name):
            # `a, b = helper(mask)`: read the element of the helper's returned tuple
            hv = _helper_element(p, base, ctor_nodes, v.id)
            if hv is not None:
                src_text, pol = hv
                parts[name] = (node, src_text, None)
                truthy[name] = pol
                continue
        if not (isinstance(v, ast.Call) and isinstance(v.func, ast.Attribute) and v.func.attr in ("masked_select",) and len(v.args) == 1):
            if isinstance(v, ast.Subscript):
                parts[name] = (node, norm_text(v.value), v.slice)
                continue
            res.undecide("CouplingTransform.%s" % name, "buffer is not `<index vector>.masked_select(<predicate of mask>)`")
            continue
        parts[name] = (node, norm_text(v.func.value), v.args[0])
    if len(parts) == 2:
        (n1, src1, pred1), (n2, src2, pred2) = parts["identity_features"], parts["transform_features"]
        if src1 != src2:
            res.fail(Finding("CPL-PART", base.module, init.qualname, n1, "identity and transform indices are selected from different vectors (%s / %s)" % (src1, src2)))
        else:
            res.ok("both index buffers select from `%s`" % src1)
        # the index vector must be arange(features)
        locals_ = {n.targets[0].id: n.value for n in ctor_nodes if isinstance(n, ast.Assign) and isinstance(n.targets[0], ast.Name)}
        srcv = locals_.get(src1)
        if srcv is None and truthy and src1.startswith("torch.arange("):
            srcv = ast.parse(src1, mode="eval").body
        if isinstance(srcv, ast.Call):
            # the index vector behind a factory / memo helper: what the helper returns for these arguments
            from ..helperval import value_of_call

            hv = value_of_call(p, base.module, srcv, base)
            if hv is not None:
                srcv = hv
        if srcv is not None and norm_text(srcv) in ("torch.arange(self.features)", "torch.arange(len(mask))", "torch.arange(mask.numel())"):
            res.ok("index vector is arange(features)")
        else:
            res.fail(Finding("CPL-PART", base.module, init.qualname, n1, "index vector `%s` is not arange(features)" % (norm_text(srcv) if srcv is not None else src1)))
        a1, a2 = (_pred_atom(pred1), _pred_atom(pred2)) if not truthy else (None, None)
        if len(truthy) == 2:
            if truthy["transform_features"] and not truthy["identity_features"]:
                res.fail(Finding("CPL-PART", base.module, init.qualname, n2, "the index buffers are selected by the truth value of the mask (`mask.bool()` / its complement): transformed features must be those with mask > 0 (documented contract); found `mask != 0`, so a negative entry is transformed instead of being passed through"))
            else:
                res.fail(Finding("CPL-PART", base.module, init.qualname, n2, "the index buffers are selected by the truth value of the mask with polarities %s / %s: transformed features must be those with mask > 0 and identity features the rest" % (truthy["identity_features"], truthy["transform_features"])))
        elif truthy:
            res.undecide("CouplingTransform index predicates", "one buffer selected by a comparison, the other by the truth value of the mask")
        elif a1 is None or a2 is None:
            res.undecide("CouplingTransform index predicates", "not comparisons of the mask")
        elif negate_atom(a1) == a2:
            if a2 in ("mask > 0", "0 < mask"):
                res.ok("predicates `%s` / `%s` are complementary; entries > 0 are transformed" % (a1, a2))
            else:
                res.fail(Finding("CPL-PART", base.module, init.qualname, n2, "transformed features must be those with mask > 0 (documented contract); found `%s`" % a2))
        else:
            res.fail(Finding("CPL-PART", base.module, init.qualname, n2, "predicates `%s` and `%s` are not complementary: some feature is in both or in neither part" % (a1, a2)))
    return res


def _helper_element(p, base, ctor_nodes, name):
    """For `.., name, .. = f(mask)` in the constructor with f a straight-line function of the repository
    returning a tuple whose element is `<arange vector>[<m>]` or `<arange vector>[~<m>]` with
    `<m> = <..mask..>.bool()`: (text of the index vector, polarity of the truth-value selection)"""
    for st in ctor_nodes:
        if not (isinstance(st, ast.Assign) and len(st.targets) == 1 and isinstance(st.targets[0], ast.Tuple) and isinstance(st.value, ast.Call)):
            continue
        names = [t.id if isinstance(t, ast.Name) else None for t in st.targets[0].elts]
        if name not in names:
            continue
        k = names.index(name)
        try:
            fi = p.resolve_expr(p.modules[base.module] if isinstance(base.module, str) else base.module, st.value.func)
        except Exception:
            fi = None
        fnode = getattr(fi, "node", None)
        if not isinstance(fnode, ast.FunctionDef) or len(fnode.args.args) != 1 or len(st.value.args) != 1:
            return None
        param = fnode.args.args[0].arg
        env = {}
        ret = None
        for b in fnode.body:
            if isinstance(b, ast.Expr) and isinstance(b.value, ast.Constant):
                continue
            if isinstance(b, ast.Assign) and len(b.targets) == 1 and isinstance(b.targets[0], ast.Name):
                env[b.targets[0].id] = b.value
            elif isinstance(b, ast.Return) and ret is None:
                ret = b.value
            else:
                return None
        if not (isinstance(ret, ast.Tuple) and len(ret.elts) == len(names)):
            return None
        e = ret.elts[k]
        if not (isinstance(e, ast.Subscript) and isinstance(e.value, ast.Name)):
            return None
        vec = env.get(e.value.id)
        sel, pol = e.slice, True
        while isinstance(sel, ast.UnaryOp) and isinstance(sel.op, (ast.Invert, ast.Not)):
            pol = not pol
            sel = sel.operand
        if not isinstance(sel, ast.Name):
            return None
        m = env.get(sel.id)
        if not (isinstance(m, ast.Call) and isinstance(m.func, ast.Attribute) and m.func.attr == "bool" and param in {n.id for n in ast.walk(m) if isinstance(n, ast.Name)}):
            return None
        if vec is None:
            return None
        vtext = norm_text(vec).replace(param, norm_text(st.value.args[0]))
        return vtext, pol
    return None


def _pred_atom(e):
    pol = True
    while isinstance(e, ast.UnaryOp) and isinstance(e.op, (ast.Invert, ast.Not)):
        pol = not pol
        e = e.operand
    if isinstance(e, ast.Compare) and len(e.ops) == 1:
        return canon_atom(e, pol)
    if isinstance(e, ast.Call) and isinstance(e.func, ast.Attribute) and e.func.attr in ("le", "lt", "gt", "ge") and len(e.args) == 1:
        op = {"le": ast.LtE, "lt": ast.Lt, "gt": ast.Gt, "ge": ast.GtE}[e.func.attr]()
        return canon_atom(ast.Compare(left=e.func.value, ops=[op], comparators=[e.args[0]]), pol)
    return None


# ---------------------------------------------------------------------------------------
# CPL-COND / CPL-COPY / CPL-SCAT
# ---------------------------------------------------------------------------------------


class CouplingTaint(TaintDomain):
    """IN: the whole input; ID / TR: the identity / transformed split; RAW: the unmodified
    gather; CTX: context; U / UINV: went through the unconditional transform (forward /
    inverse); OUT@: the freshly allocated output tensor."""

    def __init__(self):
        self.net_calls = []
        self.scatters = []
        self.merged = []  # every returned tensor that holds both identity and transformed content

    def src_arg(self, func, pname):
        if pname == "inputs":
            return {"IN"}
        if pname == "context":
            return {"CTX"}
        return E

    def src_state(self, interp, path, attrinfo, node):
        a = path[-1] if path else ""
        if a == "identity_features":
            return {"IDX:ID"}
        if a == "transform_features":
            return {"IDX:TR"}
        return E

    def src_net(self, interp, netav, method, args, kwargs, node):
        ann = set()
        for a in list(args) + list(kwargs.values()):
            ann |= set(all_ann(self, a))
        label = netav.data[1]
        ann.discard("RAW")
        if label.endswith(".unconditional_transform"):
            ann.add("UINV" if method.startswith("inverse") else "U")
        if label.endswith(".transform_net"):
            self.net_calls.append((interp.frame.func, node, [set(all_ann(self, a)) for a in args], {k: set(all_ann(self, v)) for k, v in kwargs.items()}))
            return {"PARAMS"}  # the parameters are a function of what the conditioner saw; content labels stop here
        return ann

    @staticmethod
    def _items(av):
        if av is None:
            return None
        if av.kind == "tuple":
            return list(av.data)
        if av.kind == "list" and av.data and av.data[0] is not None:
            return list(av.data[0])
        return None

    def xfer(self, interp, op, info, anns, recv, args, kwargs, node):
        out = set(anns)
        # cat([identity_features, transform_features]) -- the split order as one index vector -- and
        # cat([identity_split, transform_split], 1) -- the two splits side by side in that order
        if op in ("cat", "concat", "concatenate"):
            items = self._items(getattr(interp, "last_seq", None))
            if items is not None and len(items) == 2:
                a0, a1 = set(all_ann(self, items[0])), set(all_ann(self, items[1]))
                out -= {"RAW", "OUT", "IDXCAT:ID,TR", "IDXCAT:TR,ID", "IDXINV:ID,TR", "IDXINV:TR,ID", "CAT:ID,TR", "CAT:TR,ID", "CATRAW"}
                for first, second, order in ((a0, a1, "ID,TR"), (a1, a0, "TR,ID")):
                    if "IDX:ID" in first and "IDX:TR" in second and "IDX:TR" not in first and "IDX:ID" not in second:
                        return {"IDXCAT:" + order}
                    if "ID" in first and "TR" not in first and "TR" in second:
                        out.add("CAT:" + order)
                        if "RAW" in first and not ({"U", "UINV", "PARAMS"} & first):
                            out.add("CATRAW")
                return out
        if op == "argsort":
            src = set(recv.ann) if recv is not None else set()
            for a in args[:1]:
                src |= set(all_ann(self, a))
            for order in ("ID,TR", "TR,ID"):
                if "IDXCAT:" + order in src:
                    return {"IDXINV:" + order}
        if op in ("subscript", "index_select"):
            if op == "subscript":
                idxv = set(_index_ann(self, args[0])) if args else set()
                basev = set(recv.ann) if recv is not None else set()
            else:
                tens = [a for a in ([recv] if recv is not None else []) + list(args) if a is not None and a.kind == "tensor"]
                basev = set(tens[0].ann) if tens else set()
                idxv = set(tens[-1].ann) if len(tens) > 1 else set()
            for order in ("ID,TR", "TR,ID"):
                if "CAT:" + order in basev:
                    res = (basev - {"CAT:" + order, "CATRAW", "RAW", "OUT"})
                    if "IDXINV:" + order in idxv:
                        # the concatenation read through the inverse of the split order: each split is back in place
                        res |= {"PLACED:ID", "PLACED:TR"}
                        if "CATRAW" in basev:
                            res.add("PLACED-RAW")
                        return res
                    if any(l.startswith("IDXCAT:") or l.startswith("IDXINV:") or l in ("IDX:ID", "IDX:TR") for l in idxv):
                        return res | {"MISPLACED"}
        if op == "subscript":
            idx = set(_index_ann(self, args[0])) if args else set()
            base = set(recv.ann) if recv is not None else set()
            if "IN" in base and ("IDX:ID" in idx or "IDX:TR" in idx):
                out = (base - {"IN"}) | ({"ID"} if "IDX:ID" in idx else set()) | ({"TR"} if "IDX:TR" in idx else set())
                if len(idx & {"IDX:ID", "IDX:TR"}) == 1:
                    out.add("RAW")
                return out
            out.discard("RAW")
            return out
        if (info.get("cat") == "like" or op == "clone") and recv is not None and "IN" in recv.ann:
            # the tensor the result is assembled in: both splits still have to be written into it
            return {"OUT", "NEED:ID", "NEED:TR"}
        out.discard("RAW")
        out.discard("OUT")
        return out

    like_keeps_labels = True

    def on_write(self, interp, how, target, value, node):
        if how == "subscript" and target.kind == "tensor":
            self.scatters.append((interp.frame.func, node, set(target.ann), set(all_ann(self, value)), node))

    def store_result(self, interp, base, idx, val, st):
        """Annotation of `base` after `base[idx] = val`: its old labels, the content of val, where
        it was put; a store through an index buffer discharges the NEED:<split> obligation the
        allocation created (join is union, so an obligation survives if ANY path skips the store)."""
        add = self.store_labels(interp, base, idx, val, st)
        out = set(base.ann) | add
        if "PLACED:ID" in add:
            out.discard("NEED:ID")
        if "PLACED:TR" in add:
            out.discard("NEED:TR")
        return out

    def store_labels(self, interp, base, idx, val, st):
        """Labels a tensor acquires from `base[idx] = val`: the content of val plus where it was put."""
        v = set(all_ann(self, val))
        i = set(_index_ann(self, idx)) if idx is not None else set()
        out = set(v) - {"RAW", "OUT", "NEED:ID", "NEED:TR"}
        content_id = "ID" in v and "TR" not in v
        content_tr = "TR" in v
        if "IDX:ID" in i and "IDX:TR" not in i:
            out.add("PLACED:ID" if content_id else "MISPLACED")
            if content_id and "RAW" in v and not ({"U", "UINV", "PARAMS"} & v):
                out.add("PLACED-RAW")
        elif "IDX:TR" in i and "IDX:ID" not in i:
            out.add("PLACED:TR" if content_tr else "MISPLACED")
        elif content_id or content_tr:
            out.add("UNINDEXED")
        return out

    def on_return(self, interp, frame, value, node):
        vals = value.data if value is not None and value.kind == "tuple" else [value]
        for v in vals:
            if v is None or v.kind != "tensor":
                continue
            L = set(v.ann)
            if {"ID", "TR"} <= L:
                self.merged.append((frame.func, node, L))


def _index_labels_of_store(dom, it, node):
    return None


def flow_rule(ctx):
    p = ctx.p
    base, classes = coupling_classes(p)
    res_cond = RuleResult("CPL-COND", "the conditioner network sees only the identity split (pre-image side) and the context, never a transformed feature")
    res_copy = RuleResult("CPL-COPY", "without an unconditional transform the identity features are scattered back as the very value that was gathered")
    res_scat = RuleResult("CPL-SCAT", "outputs are freshly allocated; each split is scattered with the buffer it was gathered with, on every path, and nothing else writes the outputs")
    for direction in ("forward", "inverse"):
        fi = base.methods.get(direction)
        if fi is None:
            raise AnalysisIncomplete("CouplingTransform.%s missing" % direction)
        for scenario, assume in (("no unconditional transform", {"self.unconditional_transform is not None": False, "self.unconditional_transform is None": True}), ("with unconditional transform", {"self.unconditional_transform is not None": True, "self.unconditional_transform is None": False})):
            dom = CouplingTaint()
            it = Interp(p, dom, assume=assume)
            # a concrete subclass whose hooks exist (any: the base-class body is what is checked)
            recv = next((c for c in classes if c.name == "AffineCouplingTransform"), None) or next(c for c in classes if c is not base)
            args = [param_value(dom, fi, pn, i, d) for i, (pn, d) in enumerate(fi.params())]
            r = it.run_function(fi, OBJ(recv), args)
            tag = "CouplingTransform.%s [%s]" % (direction, scenario)
            # --- CPL-COND
            if not dom.net_calls:
                res_cond.fail(Finding("CPL-COND", fi.module, fi.qualname, fi.node, "no call of the conditioner network on this path", construct="conditioner call in %s" % direction))
            for f, node, arg_anns, kw_anns in dom.net_calls:
                allann = set().union(*arg_anns) if arg_anns else set()
                for v in kw_anns.values():
                    allann |= v
                if "TR" in allann or "IN" in allann:
                    res_cond.fail(Finding("CPL-COND", f.module, f.qualname, node, "the conditioner network receives %s: the Jacobian is no longer triangular" % ("the transformed split" if "TR" in allann else "the whole input")))
                elif "ID" not in allann:
                    res_cond.fail(Finding("CPL-COND", f.module, f.qualname, node, "the conditioner network does not receive the identity split"))
                elif direction == "forward" and "U" in allann:
                    res_cond.fail(Finding("CPL-COND", f.module, f.qualname, node, "forward conditions on the identity split *after* the unconditional transform; inverse conditions on the pre-image, so the two directions disagree"))
                elif direction == "inverse" and scenario.startswith("with") and "UINV" not in allann:
                    res_cond.fail(Finding("CPL-COND", f.module, f.qualname, node, "inverse conditions on the identity split *before* undoing the unconditional transform; forward conditions on the pre-image, so the two directions disagree"))
                else:
                    res_cond.ok("%s: conditioner args carry %s" % (tag, sorted(allann - {"RAW"})))
            # --- CPL-SCAT / CPL-COPY: every returned tensor that merges the two splits must have
            # been assembled by scattering each split through the buffer it was gathered with
            if not dom.merged:
                res_scat.fail(Finding("CPL-SCAT", fi.module, fi.qualname, fi.node, "%s returns no tensor that contains both the identity and the transformed split" % direction, construct="merged outputs of %s" % direction))
            seen_ret = set()
            for f, node, L in dom.merged:
                key = (f.qualname, getattr(node, "lineno", 0))
                if key in seen_ret:
                    continue
                seen_ret.add(key)
                probs = []
                if "MISPLACED" in L:
                    probs.append("a split is scattered through the other split's index buffer")
                if "PLACED:ID" not in L:
                    probs.append("the identity split is not placed through identity_features")
                if "PLACED:TR" not in L:
                    probs.append("the transformed split is not placed through transform_features")
                for need, nm in (("NEED:ID", "identity_features"), ("NEED:TR", "transform_features")):
                    if need in L:
                        probs.append("on some path outputs[:, %s] is never written" % nm)
                if probs:
                    res_scat.fail(Finding("CPL-SCAT", f.module, f.qualname, node, "the merged outputs are assembled without scattering each split through the index buffer it was gathered with (%s): for masks with another layout features end up at the wrong positions" % "; ".join(probs)))
                else:
                    res_scat.ok("%s: %s returns outputs scattered through identity_features / transform_features" % (tag, f.qualname))
                if scenario.startswith("no"):
                    if "PLACED-RAW" in L and not probs:
                        res_copy.ok("%s: identity features copied through unmodified (%s)" % (tag, f.qualname))
                    elif not probs:
                        res_copy.fail(Finding("CPL-COPY", f.module, f.qualname, node, "identity features are not passed through bit-for-bit: the value placed at the identity positions is computed from the gather, not the gather itself"))
    return [res_cond, res_copy, res_scat]


def _store_index_labels(st):
    """Which buffer indexes the store `outputs[:, self.<buf>, ...] = v`."""
    for t in st.targets:
        if isinstance(t, ast.Subscript):
            for n in ast.walk(t.slice):
                ch = attr_chain(n) if isinstance(n, ast.Attribute) else None
                if ch in ("self.identity_features", "self.transform_features"):
                    return ch[5:]
    return None


def hooks_rule(ctx):
    """Every concrete coupling class implements both hooks, and the piecewise family routes
    both directions through one function with the inverse flag set accordingly."""
    p = ctx.p
    base, classes = coupling_classes(p)
    res = RuleResult("CPL-HOOKS", "each concrete coupling layer implements forward and inverse hooks that differ only in direction")
    from ..entries import _only_raises

    for c in classes:
        f = c.lookup_method("_coupling_transform_forward")
        i = c.lookup_method("_coupling_transform_inverse")
        m = c.lookup_method("_transform_dim_multiplier")
        abstract = [x.name for x in (f, i, m) if x is None or _only_raises(x)]
        if c is base or c.name == "PiecewiseCouplingTransform":
            continue
        if abstract:
            res.fail(Finding("CPL-HOOKS", c.module, c.name, c.node, "%s does not implement %s" % (c.name, ", ".join(abstract)), construct="hooks of " + c.name))
        else:
            res.ok("%s implements forward/inverse hooks and the parameter multiplier" % c.name)
    pw = p.find_class("PiecewiseCouplingTransform", "nflows.transforms.coupling")
    for name, want in (("_coupling_transform_forward", False), ("_coupling_transform_inverse", True)):
        fi = pw.methods.get(name)
        if fi is None:
            raise AnalysisIncomplete("PiecewiseCouplingTransform.%s missing" % name)
        calls = [n for n in ast.walk(fi.node) if isinstance(n, ast.Call) and attr_chain(n.func) == "self._coupling_transform"]
        okc = False
        for c in calls:
            inv = next((k.value for k in c.keywords if k.arg == "inverse"), c.args[2] if len(c.args) > 2 else None)
            if isinstance(inv, ast.Constant) and inv.value is want:
                okc = True
            elif inv is None and want is False:
                okc = True
        if okc:
            res.ok("PiecewiseCouplingTransform.%s passes inverse=%s" % (name, want))
        else:
            res.fail(Finding("CPL-HOOKS", fi.module, fi.qualname, fi.node, "%s must call _coupling_transform with inverse=%s" % (name, want), construct="direction flag of " + name))
    return res


def _late_elem(ctx):
    return elementwise_rule(ctx)


def cpl_layout_rule(ctx):
    """CPL-LAYOUT = BM-ROWS restricted to the coupling module (shared with C12 / C02): on image inputs the
    coupling hooks flatten to one row per pixel and come back; a reshape that stands in for the permute puts
    each transformed value at another channel / pixel, so a transformed feature stops being a function of its
    own input."""
    from .c12 import rows_findings
    from ..report import RuleResult
    from ..model import AnalysisIncomplete

    res = RuleResult("CPL-LAYOUT", "image paths of the coupling hooks: values come back at their own channel and pixel (no reshape stands in for a permute)")
    probe = RuleResult("BM-ROWS", "")
    findings, n = rows_findings(ctx.p, probe)
    mine = 0
    for note in list(getattr(probe, "instances", [])):
        if "Coupling" in str(note):
            res.ok(str(note))
            mine += 1
    for u in getattr(probe, "undecided", []):
        if "Coupling" in str(u):
            res.undecided.append(u)
    seen = set()
    for f in findings:
        if not f.file.endswith("transforms/coupling.py"):
            continue
        key = (f.qualname, f.message)
        if key in seen:
            continue
        seen.add(key)
        f.rule = "CPL-LAYOUT"
        res.fail(f)
    if mine + len(res.findings) + len(res.undecided) < 2:
        raise AnalysisIncomplete("CPL-LAYOUT: image code paths of %d coupling functions evaluated (< 2)" % mine)
    return res


def net_arg_rule(ctx):
    """CPL-NETARG (= OWN-ARG in nflows/nn/nets, shared with C13): the library's own conditioner networks do not write
    the tensor they are given.  A coupling layer hands the identity split to the conditioner and then copies that
    same tensor into the outputs; an in-place operation on the network's input (an `inplace=True` dropout /
    activation on the first layer, `inputs += ..`) rewrites the identity features (assumption A-NET covers user
    networks; the repository's nets are checked)."""
    from .own_rules import arg_findings

    return arg_findings(ctx, "CPL-NETARG", "the conditioner receives the coupling layer's identity split, which is copied to the outputs afterwards: the identity features leave the layer changed", lambda rel: "/nn/nets/" in "/" + rel)


register(
    "C07",
    [part_rule, flow_rule, hooks_rule, _late_elem, cpl_layout_rule, net_arg_rule],
    "CPL-PART: the two index buffers of CouplingTransform are masked_select of the same arange(features) by predicates of the "
    "same mask that the condition normaliser proves complementary (a partition for every mask and any numeric values, entries "
    "> 0 transformed). CPL-COND/COPY/SCAT: information-flow analysis of CouplingTransform.forward and .inverse with labels "
    "ID/TR (which index buffer gathered the value), RAW (the unmodified gather), CTX, U/UINV (passed through the unconditional "
    "transform) and OUT (the freshly allocated result), run once under `unconditional_transform is None` and once under its "
    "negation: the conditioner's arguments carry no TR/IN label and carry the pre-image side in both directions; the value "
    "scattered to the identity positions is the very gather (RAW) when no unconditional transform exists; each split is "
    "scattered with the buffer it was gathered with, unconditionally, into a *_like(inputs) tensor that is what is returned. "
    "CPL-HOOKS: sibling completeness of the seven concrete subclasses. Monotonicity of the elementwise map is C09's; "
    "CPL-ELEM (reduced): for the table of affine/additive hooks, the masked affine autoregressive hooks, the scalar "
    "nonlinearities, ActNorm and the pointwise affine transform, no position-mixing operation (integer/slice indexing, flips, "
    "reductions, matrix products, reshapes, cumulative ops) is applied to an input-dependent value on the way to the outputs; "
    "elementwise-ness inside the spline function bodies is not decided.",
    [A_NET, A_UMNN, T_OPS, "index-gather / index-scatter are bit-exact copies"],
)


# ---------------------------------------------------------------------------------------
# CPL-ELEM (reduced): the affine / additive transformers act elementwise on the inputs
# ---------------------------------------------------------------------------------------

EW_CALLS = {"exp", "log", "log1p", "tanh", "atan", "tan", "sigmoid", "softplus", "leaky_relu", "relu", "clamp", "pow", "abs", "sqrt", "zeros_like", "ones_like", "empty_like", "where", "to", "float", "double", "type", "clone", "contiguous", "sign", "__store__", "__component__", "reciprocal", "neg", "square", "expm1", "erf"}
EW_CALLS |= {"addcmul", "addcdiv", "lerp", "add", "sub", "mul", "div", "true_divide", "exp2", "atan2", "sin", "cos", "sinh", "cosh", "asinh", "logsigmoid", "elu", "selu", "gelu", "silu", "hardtanh", "clamp_min", "clamp_max", "clip", "detach", "half", "cpu", "cuda", "type_as", "log2", "log10", "rsqrt", "logaddexp", "maximum", "minimum", "fmod", "remainder", "masked_fill", "nan_to_num", "positive", "negative", "float_power", "arctan", "arctanh", "atanh", "asin", "acos"}
# operations that move or combine values across positions
MIXING_CALLS = {
    "flip", "fliplr", "flipud", "roll", "cumsum", "cumprod", "cummax", "cummin", "logcumsumexp", "sum", "mean", "prod", "std", "var", "norm", "logsumexp", "amax", "amin", "max", "min",
    "median", "sort", "argsort", "topk", "kthvalue", "matmul", "mm", "bmm", "mv", "linear", "einsum", "tensordot", "dot", "outer", "ger", "softmax", "log_softmax", "gather", "index_select",
    "take", "take_along_dim", "scatter", "reshape", "view", "permute", "transpose", "t", "flatten", "unflatten", "squeeze", "unsqueeze", "repeat", "repeat_interleave", "tile", "expand", "expand_as",
    "cat", "stack", "pad", "narrow", "chunk", "split", "unbind", "diag", "diagonal", "tril", "triu", "conv1d", "conv2d", "unfold", "fold", "movedim", "swapaxes", "rot90", "sum_except_batch", "normalize", "layer_norm", "batch_norm",
}
REDUCE_OK_FOR_LOGDET = {"sum_except_batch", "sum"}


def _last(c):
    f = c.func
    return f.attr if isinstance(f, ast.Attribute) else (f.id if isinstance(f, ast.Name) else "")


COUPLING_TABLE = [
    ("nflows.transforms.coupling", "AffineCouplingTransform", ("_coupling_transform_forward", "_coupling_transform_inverse")),
    ("nflows.transforms.autoregressive", "MaskedAffineAutoregressiveTransform", ("_elementwise_forward", "_elementwise_inverse")),
]
SCALAR_TABLE = [
    ("nflows.transforms.nonlinearities", "Exp", ("forward", "inverse")),
    ("nflows.transforms.nonlinearities", "Tanh", ("forward", "inverse")),
    ("nflows.transforms.nonlinearities", "LogTanh", ("forward", "inverse")),
    ("nflows.transforms.nonlinearities", "LeakyReLU", ("forward", "inverse")),
    ("nflows.transforms.nonlinearities", "Sigmoid", ("forward", "inverse")),
    ("nflows.transforms.nonlinearities", "CauchyCDF", ("forward", "inverse")),
    ("nflows.transforms.nonlinearities", "GatedLinearUnit", ("forward", "inverse")),
    ("nflows.transforms.standard", "PointwiseAffineTransform", ("forward", "inverse")),
]


def elementwise_rule(ctx, table=None, rule="CPL-ELEM", floor=4):
    """Table of transformers whose map is documented elementwise in the transformed inputs
    (confirmed by reading): affine / additive coupling hooks, the masked affine autoregressive
    hooks, and the scalar nonlinearities.  On every returning path, no operation that mixes
    positions (indexing with integers or slices, flips, rolls, reductions, matrix products,
    reshapes, cumulative ops, sorting) may be applied to an input-dependent value on the way
    to the returned outputs."""
    from ..symexp import paths_of, uwalk, brief

    p = ctx.p
    res = RuleResult(rule, "affine/additive transformers and scalar nonlinearities act elementwise on their inputs: no position-mixing operation on an input-dependent value reaches the outputs")
    table = table or COUPLING_TABLE
    for modname, cname, methods in table:
        cls = p.find_class(cname, modname)
        for m in methods:
            fi = cls.methods.get(m)
            if fi is None:
                raise AnalysisIncomplete("%s.%s missing" % (cname, m))
            x = fi.params()[0][0]
            for path in paths_of(fi.node, {"self.training": False}):
                if path.kind != "return" or not (isinstance(path.ret, ast.Tuple) and len(path.ret.elts) == 2):
                    continue
                out = path.ret.elts[0]
                dep = {}

                def depends(n):
                    k = id(n)
                    if k in dep:
                        return dep[k]
                    dep[k] = False
                    if isinstance(n, ast.Attribute) and n.attr in ("dtype", "device", "is_cuda", "requires_grad"):
                        return False  # metadata of the inputs, not their values (torch.finfo(inputs.dtype).eps is a number)
                    r = (isinstance(n, ast.Name) and n.id == x) or any(depends(c) for c in ast.iter_child_nodes(n))
                    dep[k] = r
                    return r

                bad = None
                unknown = None
                for n in uwalk(out):
                    if isinstance(n, ast.Call) and depends(n):
                        last = _last(n)
                        # which operands are input dependent?
                        recv = n.func.value if isinstance(n.func, ast.Attribute) else None
                        dep_args = [a for a in list(n.args) + [k.value for k in n.keywords] + ([recv] if recv is not None else []) if a is not None and depends(a)]
                        if not dep_args:
                            continue
                        if last in EW_CALLS:
                            continue
                        if last in ("view", "reshape", "expand", "expand_as", "unsqueeze") and False:
                            continue
                        if last not in MIXING_CALLS:
                            unknown = (n, last)
                            continue
                        bad = (n, "`%s` is applied to an input-dependent value" % last)
                        break
                    if isinstance(n, ast.Subscript) and depends(n.value):
                        sl = n.slice
                        elts = sl.elts if isinstance(sl, ast.Tuple) else [sl]
                        ok_idx = all(isinstance(e, ast.Name) or (isinstance(e, ast.Constant) and e.value in (None, Ellipsis)) or isinstance(e, (ast.Compare, ast.UnaryOp, ast.BinOp, ast.Call)) for e in elts)
                        # boolean-mask selection keeps positions aligned; integer / slice indexing moves them
                        if any(isinstance(e, ast.Slice) or (isinstance(e, ast.Constant) and isinstance(e.value, int)) for e in elts):
                            bad = (n, "the input-dependent value is indexed with integers / slices")
                            break
                    if isinstance(n, ast.BinOp) and isinstance(n.op, ast.MatMult) and depends(n):
                        bad = (n, "a matrix product is applied to an input-dependent value")
                        break
                if bad is None and unknown is not None:
                    res.undecide("%s.%s" % (cname, m), "`%s` is applied to an input-dependent value; it is neither in the table of element-wise operations nor in the table of position-mixing ones" % unknown[1])
                elif bad is None:
                    res.ok("%s.%s: outputs are an elementwise function of `%s`" % (cname, m, x))
                else:
                    res.fail(Finding(rule, fi.module, fi.qualname, path.ret_node, "%s.%s: %s (`%s`): an output position then depends on other positions of the inputs, so the Jacobian is not diagonal while the log-det sums an elementwise derivative" % (cname, m, bad[1], brief(bad[0], 60)[:70])))
    if len(res.instances) < floor:
        raise AnalysisIncomplete("%s: %d instances (< %d confirmed by hand)" % (rule, len(res.instances), floor))
    return res
