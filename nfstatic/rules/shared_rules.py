"""MODE-KEEP / SHARED-STATE: what one call leaves behind for the next call, and for the other instances.

The properties quantify over *histories* of calls.  Two kinds of construct make a later call depend on an
earlier one without any parameter or buffer being involved, and both are visible in the shape of the code:

MODE-KEEP     The training flag is model state (C13), it selects the branch of every normalisation layer (C14),
              dropout and batch-norm inside a conditioner make rows interact exactly when it is set (C12), and a
              density evaluated with dropout active is not the density that was sampled (C05).  A function of the
              library other than an override of train() / eval() that switches the mode of a module it did not
              build itself -- `self.eval()`, `self.net.train()`, `module.train(False)` on a parameter -- must
              put back the mode it *found*: the value of `<receiver>.training` read before the first switch is
              what the last switch passes to `.train(..)`.  Restoring a constant (`.train()`) leaves an
              evaluation-mode model in training mode after the call.

SHARED-STATE  Objects and calls are isolated: a value that depends on the arguments of one constructor or call
              is never kept where another instance or a later call reads it.  (a) a store into a module-level or
              class-level mutable container (`_cache[k] = v`, `.update(..)`, `.append(..)`, `.setdefault(k, v)`)
              is allowed only if everything `v` is computed from also determines the key `k` (a memo table
              keyed by all it depends on, dtype and device included); (b) an in-place write to a module-level or
              class-level tensor is never allowed; (c) a function memoised by functools.lru_cache / cache must
              not return a tensor or a container: the one cached object is handed to every caller and an
              in-place edit by one of them changes what all later calls return.
"""

import ast

from ..model import AnalysisIncomplete, norm_text
from ..report import Finding, RuleResult

MODE_OVERRIDES = ("train", "eval")
MUTATORS = ("update", "append", "add", "extend", "insert", "setdefault", "pop", "popitem", "clear", "remove", "discard", "__setitem__", "__delitem__", "appendleft")
CONTAINER_CALLS = ("dict", "list", "set", "defaultdict", "OrderedDict", "deque", "WeakValueDictionary", "WeakKeyDictionary", "Counter", "bytearray")
MEMO_DECORATORS = ("lru_cache", "cache", "cached", "memoize", "memoized")
LIKE_CALLS = ("zeros_like", "ones_like", "empty_like", "full_like", "rand_like", "randn_like")


def _functions(p):
    """every def of the library with its FuncInfo-like description (module, qualname, node), nested ones included"""
    for mod in p.modules.values():
        stack = [(getattr(mod, "raw_tree", None) or mod.tree, "", None)]
        while stack:
            node, prefix, cls = stack.pop()
            for ch in ast.iter_child_nodes(node):
                if isinstance(ch, ast.ClassDef):
                    stack.append((ch, prefix + ch.name + ".", ch))
                elif isinstance(ch, (ast.FunctionDef, ast.AsyncFunctionDef)):
                    yield mod, prefix + ch.name, ch, cls if isinstance(node, ast.ClassDef) else None
                    stack.append((ch, prefix + ch.name + ".", None))
                elif isinstance(ch, (ast.If, ast.Try, ast.With, ast.For, ast.While)):
                    stack.append((ch, prefix, cls if isinstance(node, ast.ClassDef) else None))


def _own_nodes(fn):
    """nodes of a function body without the bodies of nested defs / classes, in source order"""
    out = []

    def rec(n):
        for ch in ast.iter_child_nodes(n):
            if isinstance(ch, (ast.FunctionDef, ast.AsyncFunctionDef, ast.ClassDef, ast.Lambda)):
                continue
            out.append(ch)
            rec(ch)

    rec(fn)
    out.sort(key=lambda n: (getattr(n, "lineno", 0), getattr(n, "col_offset", 0)))
    return out


# ------------------------------------------------------------------------------------------------ MODE-KEEP


def _built_locally(fn, name):
    """is the local `name` only ever bound to a call of something that is not an attribute read of self / a
    parameter (a module the function constructs itself: its mode is the function's to choose)"""
    params = {a.arg for a in fn.args.posonlyargs + fn.args.args + fn.args.kwonlyargs}
    if fn.args.vararg:
        params.add(fn.args.vararg.arg)
    if fn.args.kwarg:
        params.add(fn.args.kwarg.arg)
    if name in params:
        return False
    vals = [a.value for a in ast.walk(fn) if isinstance(a, ast.Assign) and any(isinstance(t, ast.Name) and t.id == name for t in a.targets)]
    if not vals:
        return False
    for v in vals:
        if isinstance(v, ast.Call):
            f = v.func
            if isinstance(f, ast.Name) and f.id not in params and f.id not in ("getattr",):
                continue
            if isinstance(f, ast.Attribute) and not (isinstance(f.value, ast.Name) and f.value.id in params | {"self"}) and f.attr not in ("train", "eval", "to", "double", "float"):
                continue
        return False
    return True


def mode_keep_findings(p, res, rule="MODE-KEEP", file_filter=None):
    n_fn = n_sw = 0
    for mod, qual, fn, cls in _functions(p):
        if file_filter is not None and not file_filter(mod.relpath):
            continue
        n_fn += 1
        if fn.name in MODE_OVERRIDES:
            continue
        nodes = _own_nodes(fn)
        cond_dir = {}  # conditional restores: call id -> the one mode they restore
        switches = {}  # receiver text -> [(call node, restored-from name or None)]
        saved = {}  # local name -> (receiver text whose .training it holds, position)
        pos = {id(n): i for i, n in enumerate(nodes)}
        for n in nodes:
            if isinstance(n, ast.Assign) and len(n.targets) == 1 and isinstance(n.targets[0], ast.Name) and isinstance(n.value, ast.Attribute) and n.value.attr == "training":
                saved[n.targets[0].id] = (norm_text(n.value.value), pos[id(n)])
        for n in nodes:
            if not (isinstance(n, ast.Call) and isinstance(n.func, ast.Attribute) and n.func.attr in ("train", "eval")):
                continue
            recv = n.func.value
            if isinstance(recv, ast.Call) and isinstance(recv.func, ast.Name) and recv.func.id == "super":
                continue
            root = recv
            while isinstance(root, (ast.Attribute, ast.Subscript)):
                root = root.value
            if not isinstance(root, ast.Name):
                continue
            if root.id != "self" and _built_locally(fn, root.id):
                continue
            if root.id in ("torch", "nn", "F", "np"):
                continue
            rt = norm_text(recv)
            arg = None
            # `if was_training: m.train()` / `if not was_training: m.eval()`: a restore spelled as a test of the saved value
            cur = n
            while getattr(cur, "_parent", None) is not None and cur is not fn and arg is None:
                par = cur._parent
                if isinstance(par, ast.If) and any(cur is x for x in par.body):
                    t, neg = par.test, False
                    if isinstance(t, ast.UnaryOp) and isinstance(t.op, ast.Not):
                        t, neg = t.operand, True
                    known = isinstance(t, ast.Name) and t.id in saved and saved[t.id][0] == rt
                    # ... or the flag itself, tested around the whole switch-and-restore block
                    if isinstance(t, ast.Attribute) and t.attr == "training" and norm_text(t.value) == rt:
                        known = True
                    if known:
                        a0 = n.args[0] if n.args else next((k.value for k in n.keywords if k.arg == "mode"), None)
                        to_train = n.func.attr == "train" and (a0 is None or (isinstance(a0, ast.Constant) and a0.value is True))
                        to_eval = n.func.attr == "eval" or (n.func.attr == "train" and isinstance(a0, ast.Constant) and a0.value is False)
                        if (to_train and not neg) or (to_eval and neg):
                            arg = t.id if isinstance(t, ast.Name) else "<branch>"
                            cond_dir[id(n)] = "train" if to_train else "eval"
                cur = par
            if arg is None and n.func.attr == "train":
                a = n.args[0] if n.args else next((k.value for k in n.keywords if k.arg == "mode"), None)
                if isinstance(a, ast.Name) and a.id in saved and saved[a.id][0] == rt:
                    arg = a.id
                elif isinstance(a, ast.Attribute) and a.attr == "training" and norm_text(a.value) == rt:
                    arg = "<same>"  # m.train(m.training): no change
            switches.setdefault(rt, []).append((n, arg))
        # a snapshot of the flags taken before the first switch and written back afterwards, flag by flag:
        #   modes = [(m, m.training) for m in module.modules()] ... for m, mode in modes: m.training = mode
        snapshots = {}
        for a in nodes:
            if isinstance(a, ast.Assign) and len(a.targets) == 1 and isinstance(a.targets[0], ast.Name) and isinstance(a.value, (ast.ListComp, ast.DictComp, ast.List, ast.Dict, ast.Tuple, ast.Call)) and any(isinstance(x, ast.Attribute) and x.attr == "training" and isinstance(x.ctx, ast.Load) for x in ast.walk(a.value)):
                snapshots[a.targets[0].id] = (a, pos[id(a)])
        restores = []  # (position, snapshot name)
        restore_loops = []
        for a in nodes:
            if isinstance(a, ast.For):
                it = a.iter
                while isinstance(it, ast.Call) and isinstance(it.func, ast.Attribute) and it.func.attr in ("items", "values") and not it.args:
                    it = it.func.value
                if isinstance(it, ast.Call) and isinstance(it.func, ast.Name) and it.func.id in ("reversed", "list", "tuple") and len(it.args) == 1:
                    it = it.args[0]
                its = [it]
                if isinstance(it, ast.Call) and isinstance(it.func, ast.Name) and it.func.id in ("zip", "enumerate"):
                    its = list(it.args)
                snap = next((x.id for x in its if isinstance(x, ast.Name) and x.id in snapshots), None)
                if snap is not None:
                    it = ast.Name(id=snap, ctx=ast.Load())
                    tnames = {x.id for x in ast.walk(a.target) if isinstance(x, ast.Name)}
                    for b in ast.walk(a):
                        wr = isinstance(b, ast.Assign) and any(isinstance(t, ast.Attribute) and t.attr == "training" for t in b.targets) and isinstance(b.value, ast.Name) and b.value.id in tnames
                        cl = isinstance(b, ast.Call) and isinstance(b.func, ast.Attribute) and b.func.attr == "train" and b.args and isinstance(b.args[0], ast.Name) and b.args[0].id in tnames
                        if wr or cl:
                            restores.append((pos[id(a)], it.id))
                            restore_loops.append(a)
        for rt, lst in switches.items():
            n_sw += len(lst)
            # switches made by a write-back loop are the restore itself
            real = [(c, a_) for c, a_ in lst if not any(any(x is c for x in ast.walk(L)) for L in restore_loops)]
            if not real:
                res.ok("%s: `%s` is only switched by the write-back of a snapshot" % (qual, rt))
                continue
            first, last = real[0], real[-1]
            snap_ok = [nm for p_, nm in restores if p_ > pos[id(last[0])] and snapshots[nm][1] < pos[id(first[0])] and rt in norm_text(snapshots[nm][0].value)]
            if snap_ok:
                res.ok("%s: the flags of `%s` and its sub-modules are snapshotted before the switch and written back after it" % (qual, rt))
                continue
            ok = last[1] is not None and (last[1] in ("<same>", "<branch>") or saved[last[1]][1] < pos[id(first[0])] or first[1] is not None)
            if all(a is not None for _, a in lst):
                ok = True

            def direction(c):
                a0 = c.args[0] if c.args else next((k.value for k in c.keywords if k.arg == "mode"), None)
                if c.func.attr == "eval" or (isinstance(a0, ast.Constant) and a0.value is False):
                    return "eval"
                if a0 is None or (isinstance(a0, ast.Constant) and a0.value is True):
                    return "train"
                return None

            # a restore spelled `if was: m.train()` only undoes switches to the other mode
            for c, a in lst:
                if id(c) in cond_dir:
                    others = [direction(c2) for c2, a2 in lst if a2 is None]
                    if any(d is None or d == cond_dir[id(c)] for d in others):
                        ok = False
            if ok:
                res.ok("%s: the mode of `%s` is put back to the value read before the switch" % (qual, rt))
                continue
            bad = last[0]
            what = norm_text(bad)
            res.fail(Finding(rule, mod, qual, bad, "%s switches the mode of `%s` (%s) and the last switch is `%s`, not a restore of the value `%s.training` had on entry: after the call the module is left in a fixed mode whatever mode the caller had chosen (a model put in evaluation mode goes back to training mode, or the reverse, by merely being called; the enclosing module's flag no longer tells)" % (qual, rt, ", ".join(norm_text(c) for c, _ in lst[:3]), what, rt), construct="mode of %s in %s" % (rt, qual)))
    return n_fn, n_sw


def mode_keep_rule(ctx, file_filter=None, floor=300):
    res = RuleResult("MODE-KEEP", "no function other than a train() / eval() override leaves a module it did not build in a mode other than the one it found (every .train(..) / .eval() switch on self, a sub-module or a parameter is undone by .train(<the .training value read before>))")
    n_fn, n_sw = mode_keep_findings(ctx.p, res, file_filter=file_filter)
    if n_fn < getattr(ctx, "mode_keep_floor", floor):
        raise AnalysisIncomplete("MODE-KEEP: only %d functions examined (< %d)" % (n_fn, floor))
    res.ok("%d functions examined, %d mode switches outside train() / eval() overrides" % (n_fn, n_sw), nontrivial=False)
    return res


def mode_keep_c05(ctx):
    """the same rule over the density-returning objects only (distributions and the MADE mixture)"""
    r = mode_keep_rule(ctx, file_filter=lambda rel: "/distributions/" in "/" + rel or rel.endswith("nn/nde/made.py"), floor=40)
    return r


# --------------------------------------------------------------------------------------------- SHARED-STATE


def _mutable_value(v):
    if isinstance(v, (ast.Dict, ast.List, ast.Set, ast.ListComp, ast.DictComp, ast.SetComp)):
        return "container"
    if isinstance(v, ast.Call):
        f = v.func
        name = f.id if isinstance(f, ast.Name) else (f.attr if isinstance(f, ast.Attribute) else None)
        if name in CONTAINER_CALLS:
            return "container"
        root = f
        while isinstance(root, ast.Attribute):
            root = root.value
        if isinstance(root, ast.Name) and root.id in ("torch", "np", "numpy"):
            return "tensor"
    return None


def _shared_names(p):
    """(module name, class name or None, attribute) -> kind, for module-level and class-level names bound to a
    mutable container or a tensor"""
    out = {}
    for mod in p.modules.values():
        tree = getattr(mod, "raw_tree", None) or mod.tree
        for st in tree.body:
            tg, v = _simple_assign(st)
            if tg and _mutable_value(v):
                out[(mod.name, None, tg)] = (_mutable_value(v), st)
        for c in ast.walk(tree):
            if isinstance(c, ast.ClassDef):
                for st in c.body:
                    tg, v = _simple_assign(st)
                    if tg and _mutable_value(v):
                        out[(mod.name, c.name, tg)] = (_mutable_value(v), st)
    return out


def _simple_assign(st):
    if isinstance(st, ast.Assign) and len(st.targets) == 1 and isinstance(st.targets[0], ast.Name):
        return st.targets[0].id, st.value
    if isinstance(st, ast.AnnAssign) and isinstance(st.target, ast.Name) and st.value is not None:
        return st.target.id, st.value
    return None, None


def _paths(e, fn, params, depth=0):
    """access paths rooted at a parameter (or self) that the value of `e` depends on, with locals replaced by
    their definitions; `x.to(y)` / `*_like(y)` / `dtype=y.dtype` read only the named attribute of y"""
    out = set()

    def add(n):
        out.add(norm_text(n))

    def rec(n, depth):
        if isinstance(n, ast.Name):
            if n.id in params:
                add(n)
            elif depth < 4:
                defs = [a.value for a in ast.walk(fn) if isinstance(a, ast.Assign) and any(isinstance(t, ast.Name) and t.id == n.id for t in a.targets)]
                for d in defs:
                    rec(d, depth + 1)
            return
        if isinstance(n, (ast.Attribute, ast.Subscript)):
            root = n
            while isinstance(root, (ast.Attribute, ast.Subscript)):
                root = root.value
            if isinstance(root, ast.Name) and root.id in params:
                # subscripts with non-constant indices: the indices matter too
                add(n)
                for s in ast.walk(n):
                    if isinstance(s, ast.Subscript):
                        rec(s.slice, depth)
                return
        if isinstance(n, ast.Call):
            f = n.func
            # x.tolist() / x.item() / x.numpy(): the whole content of x
            if isinstance(f, ast.Attribute) and f.attr in ("tolist", "item", "numpy", "tobytes") and not n.args:
                rec(f.value, depth)
                return
            # cls._helper(..) / ClassName.helper(..): the callee is code, not data
            if isinstance(f, ast.Attribute) and isinstance(f.value, ast.Name) and (f.value.id == "cls" or f.value.id[:1].isupper()):
                for a in list(n.args) + [k.value for k in n.keywords]:
                    rec(a, depth)
                return
            if isinstance(f, ast.Attribute) and f.attr in ("to", "type_as") and len(n.args) == 1 and isinstance(n.args[0], ast.Name) and n.args[0].id in params:
                rec(f.value, depth)
                out.add(n.args[0].id + ".dtype")
                out.add(n.args[0].id + ".device")
                return
            if isinstance(f, ast.Attribute) and f.attr in LIKE_CALLS and n.args and isinstance(n.args[0], ast.Name) and n.args[0].id in params:
                out.update({n.args[0].id + ".dtype", n.args[0].id + ".device", n.args[0].id + ".shape"})
                for a in n.args[1:]:
                    rec(a, depth)
                return
        for ch in ast.iter_child_nodes(n):
            rec(ch, depth)

    rec(e, depth)
    return out


def _covered(vpaths, kpaths):
    miss = []
    for vp in sorted(vpaths):
        if not any(vp == kp or vp.startswith(kp + ".") or vp.startswith(kp + "[") for kp in kpaths):
            miss.append(vp)
    return miss


def shared_state_findings(p, res, rule="SHARED-STATE", file_filter=None, ctor=True):
    shared = _shared_names(p)
    n_fn = n_sites = 0
    for mod, qual, fn, cls in _functions(p):
        if file_filter is not None and not file_filter(mod.relpath):
            continue
        n_fn += 1
        params = {a.arg for a in fn.args.posonlyargs + fn.args.args + fn.args.kwonlyargs}
        if fn.args.vararg:
            params.add(fn.args.vararg.arg)
        if fn.args.kwarg:
            params.add(fn.args.kwarg.arg)
        is_ctor = fn.name == "__init__"
        # (c) memoising decorators
        for d in fn.decorator_list:
            f = d.func if isinstance(d, ast.Call) else d
            name = f.id if isinstance(f, ast.Name) else (f.attr if isinstance(f, ast.Attribute) else None)
            if name not in MEMO_DECORATORS:
                continue
            n_sites += 1
            rets = [r.value for r in _own_nodes(fn) if isinstance(r, ast.Return) and r.value is not None]
            kinds = set()
            for r in rets:
                exprs = [r]
                seen = 0
                while exprs and seen < 40:
                    e = exprs.pop()
                    seen += 1
                    k = _mutable_value(e)
                    if k:
                        kinds.add(k)
                    if isinstance(e, ast.Name):
                        exprs.extend(a.value for a in ast.walk(fn) if isinstance(a, ast.Assign) and any(isinstance(t, ast.Name) and t.id == e.id for t in a.targets))
                    elif isinstance(e, ast.Call) and isinstance(e.func, ast.Attribute):
                        exprs.append(e.func.value)  # a tensor method applied to a tensor
                    elif isinstance(e, (ast.BinOp,)):
                        exprs.extend([e.left, e.right])
                    elif isinstance(e, ast.Subscript):
                        exprs.append(e.value)
                    elif isinstance(e, ast.Tuple):
                        exprs.extend(e.elts)
                    elif isinstance(e, ast.IfExp):
                        exprs.extend([e.body, e.orelse])
            if kinds and fn.name.startswith("_") and not fn.name.startswith("__"):
                hazard = _memo_result_hazard(mod, fn.name)
                if hazard is None:
                    res.ok("%s is memoised and returns a %s that the module only reads (never written in place, returned or stored)" % (qual, "/".join(sorted(kinds))))
                    continue
                res.fail(Finding(rule, mod, qual, fn, "%s is memoised (@%s) and returns a %s, and %s: the one cached object is shared by every call with equal arguments, so that write / hand-out changes what later calls compute" % (qual, name, "/".join(sorted(kinds)), hazard), construct="memoised result of %s" % qual))
                continue
            if kinds:
                res.fail(Finding(rule, mod, qual, fn, "%s is memoised (@%s) and returns a %s: every caller with equal arguments receives the same object, so an in-place edit by one caller (`mask ^= 1`, `out[0] = ..`, `+=`) changes what every later call returns -- the result of a call depends on what earlier callers did with theirs" % (qual, name, "/".join(sorted(kinds))), construct="memoised result of %s" % qual))
            else:
                res.ok("%s is memoised and returns an immutable value" % qual)
        if not ctor and is_ctor:
            continue
        locals_ = _local_names(fn) | params
        # resolve which names in this function denote shared objects
        def shared_of(e):
            """the shared object an expression denotes: NAME (module level, not shadowed), self.NAME / cls.NAME /
            type(self).NAME / ClassName.NAME (class level)"""
            if isinstance(e, ast.Name):
                if e.id in locals_:
                    return None
                return (mod.name, None, e.id) if (mod.name, None, e.id) in shared else None
            if isinstance(e, ast.Attribute):
                b = e.value
                owner = None
                if isinstance(b, ast.Name) and b.id in ("self", "cls"):
                    owner = "<mro>"
                elif isinstance(b, ast.Call) and isinstance(b.func, ast.Name) and b.func.id == "type":
                    owner = "<mro>"
                elif isinstance(b, ast.Attribute) and b.attr == "__class__":
                    owner = "<mro>"
                elif isinstance(b, ast.Name) and (mod.name, b.id, e.attr) in shared:
                    return (mod.name, b.id, e.attr)
                if owner == "<mro>":
                    ci = _class_info(p, mod, qual)
                    if ci is None:
                        return None
                    # an instance attribute of the same name assigned anywhere in the class hierarchy shadows it
                    if isinstance(b, ast.Name) and b.id == "self" and _assigned_on_self(ci, e.attr):
                        return None
                    for c in ci.repo_mro():
                        k = (c.module.name, c.name, e.attr)
                        if k in shared:
                            return k
            return None

        # (d) a function that hands out what it reads from a shared container: its callers share one object
        for r in _own_nodes(fn):
            if not (isinstance(r, ast.Return) and r.value is not None):
                continue
            srcs = [r.value] + [a.value for a in _own_nodes(fn) if isinstance(r.value, ast.Name) and isinstance(a, ast.Assign) and any(isinstance(t, ast.Name) and t.id == r.value.id for t in a.targets)]
            got = None
            for e in srcs:
                if isinstance(e, ast.Subscript) and shared_of(e.value) and shared[shared_of(e.value)][0] == "container":
                    got = shared_of(e.value)
                if isinstance(e, ast.Call) and isinstance(e.func, ast.Attribute) and e.func.attr in ("get", "setdefault") and shared_of(e.func.value) and shared[shared_of(e.func.value)][0] == "container":
                    got = shared_of(e.func.value)
            if got is None:
                continue
            n_sites += 1
            label = ".".join(x for x in got[1:] if x)
            hazard = _memo_result_hazard(mod, fn.name) if (fn.name.startswith("_") and not fn.name.startswith("__")) else "it is a public function: its callers may do anything with the result"
            if hazard is None:
                res.ok("%s hands out entries of `%s`; the module only reads them" % (qual, label))
            else:
                res.fail(Finding(rule, mod, qual, r, "%s returns the object kept in the shared container `%s` itself, and %s: every caller with the same key holds one and the same tensor, so a later in-place write through any of them (an optimiser step, load_state_dict copying into a registered buffer, `+=`) changes it for all the others and for every future call" % (qual, label, hazard), construct="shared entry of %s handed out by %s" % (label, qual)))
        for n in _own_nodes(fn):
            tgt = key = val = None
            how = None
            if isinstance(n, (ast.Assign, ast.AugAssign)):
                for t in n.targets if isinstance(n, ast.Assign) else [n.target]:
                    if isinstance(t, ast.Subscript):
                        k = shared_of(t.value)
                        if k:
                            tgt, key, val, how = k, t.slice, n.value, "store"
                    elif isinstance(t, ast.Name) and _declared_global(fn, t.id) and not isinstance(n, ast.AugAssign):
                        tgt, key, val, how = (mod.name, None, t.id), None, n.value, "rebind"
                        shared.setdefault(tgt, ("container", n))
                    elif isinstance(n, ast.AugAssign):
                        k = shared_of(t)
                        if k and shared[k][0] == "tensor":
                            tgt, key, val, how = k, None, n.value, "inplace"
                        elif k:
                            tgt, key, val, how = k, None, n.value, "augment"
            elif isinstance(n, ast.Call) and isinstance(n.func, ast.Attribute):
                k = shared_of(n.func.value)
                if k and shared[k][0] == "container" and n.func.attr in MUTATORS:
                    tgt, how = k, "." + n.func.attr
                    if n.func.attr == "setdefault" and len(n.args) == 2:
                        key, val = n.args
                    elif n.func.attr in ("pop", "clear", "popitem", "remove", "discard"):
                        val = None
                    else:
                        val = ast.Tuple(elts=list(n.args) + [kw.value for kw in n.keywords], ctx=ast.Load())
                elif k and shared[k][0] == "tensor" and n.func.attr.endswith("_") and not n.func.attr.startswith("_"):
                    tgt, how, val = k, "inplace", n
            if tgt is None:
                continue
            n_sites += 1
            label = ".".join(x for x in tgt[1:] if x)
            where = "class-level" if tgt[1] else "module-level"
            if how == "inplace":
                res.fail(Finding(rule, mod, qual, n, "%s writes the %s tensor `%s` in place (`%s`): it is one object for all instances and all calls" % (qual, where, label, norm_text(n)[:80]), construct="in-place write of shared %s" % label))
                continue
            if val is None:
                res.ok("%s only removes entries of %s" % (qual, label))
                continue
            vp = _paths(val, fn, (params | {"self"}) - {"cls"})
            kp = _paths(key, fn, (params | {"self"}) - {"cls"}) if key is not None else set()
            # a flag the function has already returned on (`if random_mask: return ..`) has one value at the store
            fixed = set()
            for st in fn.body:
                if st is n or any(x is n for x in ast.walk(st)):
                    break
                if isinstance(st, ast.If) and st.body and isinstance(st.body[-1], (ast.Return, ast.Raise)) and not st.orelse:
                    t = st.test.operand if isinstance(st.test, ast.UnaryOp) and isinstance(st.test.op, ast.Not) else st.test
                    if isinstance(t, ast.Name):
                        fixed.add(t.id)
            vp = {x for x in vp if x not in fixed}
            miss = _covered(vp, kp)
            if not miss:
                res.ok("%s: entry of %s `%s` is determined by its key" % (qual, where, label))
                continue
            res.fail(Finding(rule, mod, qual, n, "%s stores a value computed from %s into the %s container `%s` (%s)%s: the container is one object shared by every instance and every call, so what one %s put there is what the others read -- the behaviour of an object depends on which objects were built or called before it" % (qual, ", ".join("`%s`" % m for m in miss[:4]), where, label, norm_text(n)[:80], (" under the key `%s`, which does not determine them" % norm_text(key)[:50]) if key is not None else "", "constructor call" if is_ctor else "call"), construct="store into shared %s" % label))
    return n_fn, n_sites, len(shared)


def _local_names(fn):
    out = set()
    glob = {x for g in ast.walk(fn) if isinstance(g, (ast.Global, ast.Nonlocal)) for x in g.names}
    for a in _own_nodes(fn):
        tg = []
        if isinstance(a, ast.Assign):
            tg = a.targets
        elif isinstance(a, (ast.AugAssign, ast.AnnAssign, ast.For, ast.comprehension)):
            tg = [a.target]
        elif isinstance(a, ast.withitem) and a.optional_vars is not None:
            tg = [a.optional_vars]
        elif isinstance(a, ast.NamedExpr):
            tg = [a.target]
        for t in tg:
            for x in ast.walk(t):
                if isinstance(x, ast.Name) and isinstance(x.ctx, ast.Store):
                    out.add(x.id)
    return out - glob


def _memo_result_hazard(mod, fname):
    """how the module lets the result of the private memoised function `fname` be changed or get out: a sentence,
    or None when every use only reads it"""
    for fn in ast.walk(getattr(mod, "raw_tree", None) or mod.tree):
        if not isinstance(fn, (ast.FunctionDef, ast.AsyncFunctionDef)) or fn.name == fname:
            continue
        nodes = _own_nodes(fn)
        holders = set()
        for n in nodes:
            if not (isinstance(n, ast.Call) and ((isinstance(n.func, ast.Name) and n.func.id == fname) or (isinstance(n.func, ast.Attribute) and n.func.attr == fname))):
                continue
            par = getattr(n, "_parent", None)
            if isinstance(par, ast.Return) and not fn.name.startswith("_"):
                return "`%s` returns it to its caller" % fn.name
            if isinstance(par, ast.Assign) and par.value is n:
                for t in par.targets:
                    if isinstance(t, ast.Name):
                        holders.add(t.id)
                    elif isinstance(t, (ast.Tuple, ast.List)):
                        holders.update(x.id for x in t.elts if isinstance(x, ast.Name))
                    elif isinstance(t, ast.Attribute):
                        return "`%s` stores it in `%s`" % (fn.name, norm_text(t))
            if isinstance(par, ast.Attribute) and isinstance(getattr(par, "_parent", None), ast.Call) and par._parent.func is par and par.attr.endswith("_") and not par.attr.startswith("_"):
                return "`%s` applies the in-place `%s` to it" % (fn.name, par.attr)
            if isinstance(par, ast.keyword) and par.arg == "out":
                return "`%s` passes it as out=" % fn.name
        for n in nodes:
            if isinstance(n, ast.AugAssign):
                base = n.target
                while isinstance(base, ast.Subscript):
                    base = base.value
                if isinstance(base, ast.Name) and base.id in holders:
                    return "`%s` updates it in place (`%s`)" % (fn.name, norm_text(n)[:50])
            if isinstance(n, ast.Assign):
                for t in n.targets:
                    base = t
                    while isinstance(base, ast.Subscript):
                        base = base.value
                    if isinstance(t, ast.Subscript) and isinstance(base, ast.Name) and base.id in holders:
                        return "`%s` writes into it (`%s`)" % (fn.name, norm_text(n)[:50])
                    if isinstance(t, ast.Attribute) and isinstance(n.value, ast.Name) and n.value.id in holders:
                        return "`%s` stores it in `%s`" % (fn.name, norm_text(t))
            if isinstance(n, ast.Call) and isinstance(n.func, ast.Attribute) and n.func.attr in ("register_buffer", "register_parameter", "Parameter", "Buffer") and any(isinstance(a, ast.Name) and a.id in holders for a in n.args):
                return "`%s` registers it as module state (`%s`)" % (fn.name, norm_text(n)[:50])
            if isinstance(n, ast.Call) and isinstance(n.func, ast.Attribute) and isinstance(n.func.value, ast.Name) and n.func.value.id in holders and n.func.attr.endswith("_") and not n.func.attr.startswith("_"):
                return "`%s` applies the in-place `%s` to it" % (fn.name, n.func.attr)
            if isinstance(n, ast.Return) and isinstance(n.value, ast.Name) and n.value.id in holders and not fn.name.startswith("_"):
                return "`%s` returns it to its caller" % fn.name
            if isinstance(n, ast.Call) and any(k.arg == "out" and isinstance(k.value, ast.Name) and k.value.id in holders for k in n.keywords):
                return "`%s` passes it as out=" % fn.name
    return None


def _declared_global(fn, name):
    return any(isinstance(g, (ast.Global, ast.Nonlocal)) and name in g.names for g in ast.walk(fn))


def _class_info(p, mod, qual):
    parts = qual.split(".")
    for i in range(len(parts) - 1, 0, -1):
        ci = mod.classes.get(parts[i - 1])
        if ci is not None:
            return ci
    return None


def _assigned_on_self(ci, attr):
    for c in ci.repo_mro():
        for fi in c.methods.values():
            for a in ast.walk(fi.node):
                tg = []
                if isinstance(a, ast.Assign):
                    tg = a.targets
                elif isinstance(a, (ast.AugAssign, ast.AnnAssign)):
                    tg = [a.target]
                for t in tg:
                    if isinstance(t, ast.Attribute) and t.attr == attr and isinstance(t.value, ast.Name) and t.value.id == "self":
                        return True
                if isinstance(a, ast.Call) and isinstance(a.func, ast.Attribute) and a.func.attr in ("register_buffer", "register_parameter", "add_module", "register_module") and a.args and isinstance(a.args[0], ast.Constant) and a.args[0].value == attr:
                    return True
    return False


def shared_state_rule(ctx, file_filter=None, ctor=True, floor=8):
    res = RuleResult("SHARED-STATE", "no value computed from the arguments of one constructor or call is kept in a module-level / class-level container under a key that does not determine it, no shared tensor is written in place, no memoised function returns a mutable object")
    n_fn, n_sites, n_shared = shared_state_findings(ctx.p, res, file_filter=file_filter, ctor=ctor)
    if n_fn < getattr(ctx, "shared_floor", floor):
        raise AnalysisIncomplete("SHARED-STATE: only %d functions examined" % n_fn)
    res.ok("%d functions examined; %d module-level / class-level mutable objects; %d stores / memoised functions" % (n_fn, n_shared, n_sites), nontrivial=False)
    return res


SPLINE_FILES = ("transforms/splines/", "transforms/nonlinearities.py", "transforms/coupling.py", "transforms/autoregressive.py")


def shared_spline(ctx):
    return shared_state_rule(ctx, file_filter=lambda rel: any(s in rel for s in SPLINE_FILES), floor=40)


def shared_made(ctx):
    """C06: masks and degrees belong to the layer they were built for"""
    return shared_state_rule(ctx, file_filter=lambda rel: rel.endswith("made.py") or rel.endswith("transforms/autoregressive.py"), floor=20)


def shared_utils(ctx):
    return shared_state_rule(ctx, file_filter=lambda rel: "/utils/" in "/" + rel, floor=15)


def shared_eval(ctx):
    """C13: calls; constructors are not evaluation calls"""
    return shared_state_rule(ctx, ctor=False, floor=300)


def _install():
    from . import PROPERTIES

    PROPERTIES["C12"]["rules"].append(mode_keep_rule)
    PROPERTIES["C13"]["rules"].extend([mode_keep_rule, shared_eval])
    PROPERTIES["C14"]["rules"].append(mode_keep_rule)
    PROPERTIES["C05"]["rules"].append(mode_keep_c05)
    PROPERTIES["C09"]["rules"].append(shared_spline)
    PROPERTIES["C17"]["rules"].append(shared_spline)
    PROPERTIES["C20"]["rules"].append(shared_utils)
    PROPERTIES["C06"]["rules"].append(shared_made)
    # the three splines that omit the box-scale term of their log-derivative are only ever called on square boxes
    from .spline_rules import square_rule, cubic_mono_rule

    PROPERTIES["C09"]["rules"].append(cubic_mono_rule)

    from .ld_rules import ld_clamp_rule

    PROPERTIES["C01"]["rules"].append(ld_clamp_rule)
    PROPERTIES["C03"]["rules"].append(ld_clamp_rule)
    if square_rule not in PROPERTIES["C01"]["rules"]:
        PROPERTIES["C01"]["rules"].append(square_rule)

    # round 12: two rules claimed for one more property each (the same analysis, reported under the
    # property whose clause it decides)
    from .ld_rules import orth_rule, inv_at_rule

    def inv_orth_rule(ctx):
        """INV-ORTH = ORTH-REV (shared with C11, C01): HouseholderSequence.inverse undoes forward only if it
        applies the same reflections in reversed order, each vector paired with its own squared norm."""
        r = orth_rule(ctx)
        r.rule = "INV-ORTH"
        for f in r.findings:
            f.rule = "INV-ORTH"
        return r

    def cov_at_rule(ctx):
        """COV-AT = INV-AT / LD-AT (shared with C02, C01): log_prob adds the transform's log-abs-det to the
        base density at the transformed point; a direction whose log-det formula is evaluated at another
        point than the one its sibling direction uses is not the Jacobian of the map applied, and the
        density stops integrating to one."""
        r = inv_at_rule(ctx)
        r.rule = "COV-AT"
        for f in r.findings:
            f.rule = "COV-AT"
        return r

    PROPERTIES["C02"]["rules"].append(inv_orth_rule)
    PROPERTIES["C03"]["rules"].append(cov_at_rule)

    from .ld_rules import inv_sign_rule, _renamed

    def slp_sign_rule(ctx):
        """SLP-SIGN = INV-SIGN (shared with C02): Flow.sample_and_log_prob returns the base log-prob minus the
        log-abs-det of the transform's *inverse*, log_prob adds that of its *forward*; the two agree on a
        sample only if every transform's inverse returns the negated log-abs-det of its forward."""
        return _renamed(inv_sign_rule(ctx), {"INV-SIGN": "SLP-SIGN"})

    PROPERTIES["C04"]["rules"].append(slp_sign_rule)


_install()
