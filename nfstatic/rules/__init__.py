"""Registry: property id -> rules, evidence level, explanation, assumptions."""

A_NET = "A-NET: user-supplied networks (transform_net_create_fn, embedding_net, context_encoder) and activation callables return newly computed tensors, do not mutate their inputs, activations are elementwise"
A_UMNN = "A-UMNN: the third-party UMNN integrators are outside the analysis"
A_CFG = "A-CFG: numeric hyper-parameters (eps, min_bin_width, min_derivative, momentum, tail_bound) have the sign of their defaults"
A_API = "A-API: objects are used through their public API (no external code pokes cache.weight, training, _output_shapes)"
T_OPS = "T-OPS: hand-written table of torch operation semantics (nfstatic/tops.py)"
T_NN = "T-NN: what nn.Module does with parameters, buffers and plain attributes in state_dict/load_state_dict/_apply/train"

PROPERTIES = {}


def register(prop, rules, explanation, assumptions, level="other", trusted_base=None):
    PROPERTIES[prop] = {
        "rules": rules,
        "explanation": explanation,
        "assumptions": assumptions,
        "level": level,
        "trusted_base": trusted_base or [],
    }


from . import own_rules, c05, c06, c07, c08, c10, c12, c14, c15, c16, c19, flow_rules, spline_rules, c20, ld_rules  # noqa: E402,F401
from . import junction  # noqa: E402,F401
from . import shared_rules  # noqa: E402,F401  (appends to the rule lists registered above)
