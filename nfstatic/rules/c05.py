"""C05 -- base distributions: interface-level necessary conditions.

Normalising constants and sampling laws are integrals / statistics and are out of reach; what
is decided: entry points resolve to tensor-returning code (RES), optional contexts are not
dereferenced unguarded (NULL-1), reductions run over the right axes, log-density terms and
the sample / mean / log_prob roles of the parameters agree (DIST-TERMS).
"""

import ast

from ..astutil import attr_chain, const_number, product_factors, signed_terms
from ..entries import enumerate_entries, param_value
from ..interp import Interp, OBJ, AV, T, E, all_ann
from ..model import AnalysisIncomplete, METHOD, norm_text, stmt_of, PARAM as PARAM_KIND, BUFFER as BUFFER_KIND
from ..report import Finding, RuleResult
from ..symexp import paths_of, is_component
from ..taint import TaintDomain
from . import register, A_NET, T_OPS, A_API
from .flow_rules import base_terms_rule, _kwarg
from .layout import layout_rule


class NullDomain(TaintDomain):
    """OPT:<name> marks a value that came from a parameter whose default is None."""

    refine_rejected_none = True

    def __init__(self):
        self.derefs = {}

    def arg(self, func, pname, idx, default):
        if isinstance(default, ast.Constant) and default.value is None:
            return T(frozenset({"OPT:" + pname}))
        return T()

    def xfer(self, interp, op, info, anns, recv, args, kwargs, node):
        return {a for a in anns if not str(a).startswith("OPT:")}

    def src_net(self, interp, netav, method, args, kwargs, node):
        return E

    def on_null(self, interp, base, what, node):
        opts = [a for a in all_ann(self, base) if str(a).startswith("OPT:")]
        if not opts and not (base.kind == "const" and base.data is None):
            return
        if base.kind == "const" and base.data is None:
            return  # a literal None flowing into a dereference is reported only when it came from an optional parameter (below, via labels)
        fi = interp.frame.func
        key = (fi.module.relpath, fi.qualname, norm_text(stmt_of(node) or node))
        stack = []
        for f in interp.frame.stack():
            stack.append(("%s.%s" % (f.self_av.data[0][0].name, f.func.name)) if f.self_av is not None and f.self_av.kind == "obj" else f.func.qualname)
        self.derefs.setdefault(key, (fi, node, what, opts, stack))


PUBLIC = ("log_prob", "sample", "sample_and_log_prob", "mean")


def _dist_entries(p):
    out = []
    for e in enumerate_entries(p):
        if e.func.name not in PUBLIC:
            continue
        if e.kind == "distribution" or (e.cls is not None and e.cls.name == "MixtureOfGaussiansMADE"):
            out.append(e)
    return out


def analyse_null(p):
    dom = NullDomain()
    it = Interp(p, dom)
    ents = _dist_entries(p)
    rets = []
    for e in ents:
        args = [param_value(dom, e.func, pn, i, d) for i, (pn, d) in enumerate(e.func.params())]
        self_av = OBJ(e.cls) if e.cls is not None else None
        r = it.run_function(e.func, self_av, args)
        rets.append((e, r))
    return dom, it, rets


def null_rule(ctx):
    p = ctx.p
    dom, it, rets = ctx.shared("null", lambda: analyse_null(p))
    res = RuleResult("NULL-1", "a parameter documented as optional (default None) is never dereferenced unless a dominating test or a rejecting callee excludes None")
    for key, (fi, node, what, opts, stack) in sorted(dom.derefs.items()):
        res.fail(Finding("NULL-1", fi.module, fi.qualname, stmt_of(node) or node, "%s of a value that may be None: it comes from the optional parameter %s of %s and no test excludes None on this path" % (what, ", ".join(o[4:] for o in opts), stack[0]), witness=stack))
    for e, r in rets:
        res.ok("%s: optional parameters handled" % e.label)
    if len(rets) < 25:
        raise AnalysisIncomplete("NULL-1: %d public distribution entry points (< 25 confirmed by hand)" % len(rets))
    return res


def res_rule(ctx):
    p = ctx.p
    dom, it, rets = ctx.shared("null", lambda: analyse_null(p))
    res = RuleResult("RES", "every attribute read on a distribution path resolves (RES-1) and no tensor-contract entry point returns a bound method (RES-2)")
    for e, r in rets:
        vals = r.data if r is not None and r.kind == "tuple" else [r]
        bad = [v for v in vals if v is not None and v.kind in ("func", "bound", "cls")]
        if bad:
            f = e.func
            # find the method that actually returns it
            target = f
            if f.name in PUBLIC and e.cls is not None:
                impl = e.cls.lookup_method("_" + f.name)
                if impl is not None:
                    for n in ast.walk(impl.node):
                        if isinstance(n, ast.Return) and isinstance(n.value, ast.Attribute) and attr_chain(n.value) and attr_chain(n.value).startswith("self."):
                            ai = p.attrs(e.cls).get(n.value.attr)
                            if ai is not None and ai.kind == METHOD:
                                res.fail(Finding("RES-2", impl.module, impl.qualname, n, "`%s` is a method of the class, returned uncalled: %s() gives a bound method instead of a tensor" % (norm_text(n.value), e.label)))
                                target = None
            if target is not None:
                res.fail(Finding("RES-2", f.module, f.qualname, f.node, "%s returns a function object instead of a tensor" % e.label, construct="result of %s" % e.label))
        else:
            res.ok("%s returns data" % e.label)
    for name, where in sorted(it.stats["unresolved_calls"].items()):
        if "." in name and name.split(".")[0][:1].isupper() and not name.startswith(("BoxUniform", "MG1Uniform")):
            cls_name, attr = name.split(".", 1)
            cands = [c for c in p.all_classes() if c.name == cls_name]
            if cands:
                res.fail(Finding("RES-1", cands[0].module, cls_name, cands[0].node, "attribute `%s` read on a distribution path resolves to nothing in %s, its bases or its constructor (%s)" % (attr, cls_name, where), construct="%s.%s" % (cls_name, attr)))
    return res


# ---------------------------------------------------------------------------------------
# DIST-TERMS: Bernoulli / mixture log-densities, parameter roles
# ---------------------------------------------------------------------------------------


def dist_terms_rule(ctx):
    p = ctx.p
    res = RuleResult("DIST-TERMS", "log-density term accounting and reduction axes of the Bernoulli and the MADE mixture; parameter roles agree between log_prob, sample and mean")
    # --- Bernoulli
    cls = p.find_class("ConditionalIndependentBernoulli", "nflows.distributions.discrete")
    fi = cls.methods.get("_log_prob")
    x = fi.params()[0][0]
    for path in paths_of(fi.node):
        if path.kind != "return":
            continue
        r = path.ret
        red = r if isinstance(r, ast.Call) and norm_text(r.func).endswith("sum_except_batch") else None
        if red is None:
            res.fail(Finding("DIST-TERMS", fi.module, fi.qualname, path.ret_node, "Bernoulli log-prob is not reduced with sum_except_batch"))
            continue
        nb = _kwarg(red, "num_batch_dims", 1)
        if nb is not None and const_number(nb) != 1:
            res.fail(Finding("DIST-TERMS", fi.module, fi.qualname, path.ret_node, "Bernoulli log-prob must be summed over the event dimensions only (num_batch_dims=1)"))
            continue
        terms = signed_terms(red.args[0])
        # expect  - x * softplus(-l)   and   - (1 - x) * softplus(l)
        got = set()
        for s, t in terms:
            ps, fac = product_factors(t)
            sign = s * ps
            sp = [f for f in fac if isinstance(f, ast.Call) and norm_text(f.func).split(".")[-1] == "softplus"]
            rest = [f for f in fac if f not in sp]
            if len(sp) != 1 or len(rest) != 1 or sign != -1:
                got.add("?")
                continue
            arg = sp[0].args[0]
            neg = isinstance(arg, ast.UnaryOp) and isinstance(arg.op, ast.USub)
            rt = norm_text(rest[0])
            if rt == x and neg:
                got.add("x*softplus(-l)")
            elif rt in ("1.0 - %s" % x, "1 - %s" % x) and not neg:
                got.add("(1-x)*softplus(l)")
            else:
                got.add("?")
        if got == {"x*softplus(-l)", "(1-x)*softplus(l)"}:
            res.ok("Bernoulli: -x*softplus(-l) - (1-x)*softplus(l), summed over the event dims")
        else:
            res.fail(Finding("DIST-TERMS", fi.module, fi.qualname, path.ret_node, "Bernoulli log-likelihood is not -x*softplus(-logits) - (1-x)*softplus(logits); found terms %s" % sorted(got)))
    # mean = sigmoid(logits); sample thresholds uniform noise at sigmoid(logits)  (on expansions)
    prob = "torch.sigmoid(self._compute_params(context))"
    m = cls.methods.get("_mean")
    okm = any(pp.kind == "return" and norm_text(pp.ret).replace(" ", "") == prob.replace(" ", "") for pp in paths_of(m.node))
    if okm:
        res.ok("Bernoulli._mean = sigmoid(logits)")
    else:
        res.fail(Finding("DIST-TERMS", m.module, m.qualname, m.node, "Bernoulli._mean must return sigmoid(logits), the success probability of the log-density", construct="probability in _mean"))
    sm = cls.methods.get("_sample")
    oks = False
    for pp in paths_of(sm.node):
        if pp.kind != "return":
            continue
        for n in ast.walk(pp.ret):
            if isinstance(n, ast.Compare) and len(n.ops) == 1:
                l, r = n.left, n.comparators[0]
                op = type(n.ops[0])
                lt, rt = norm_text(l), norm_text(r)
                if op in (ast.Lt, ast.LtE) and "torch.rand(" in lt and prob in rt and "torch.rand" not in rt:
                    oks = True
                if op in (ast.Gt, ast.GtE) and "torch.rand(" in rt and prob in lt and "torch.rand" not in lt:
                    oks = True
    if oks:
        res.ok("Bernoulli sample: uniform noise < sigmoid(logits)")
    else:
        res.fail(Finding("DIST-TERMS", sm.module, sm.qualname, sm.node, "Bernoulli samples must be (uniform noise < sigmoid(logits))", construct="threshold in _sample"))
    # --- conditional normal: component roles (means, log_stds) agree across the three methods
    cdn = p.find_class("ConditionalDiagonalNormal", "nflows.distributions.normal")
    cp = cdn.methods.get("_compute_params")
    rets = [pp for pp in paths_of(cp.node) if pp.kind == "return"]
    if rets and all(isinstance(pp.ret, ast.Tuple) and len(pp.ret.elts) == 2 for pp in rets):
        res.ok("_compute_params returns a pair on every path")
    else:
        res.undecide("ConditionalDiagonalNormal._compute_params", "does not return a pair (means, log_stds)")
    lp = cdn.methods.get("_log_prob")
    # the density and the sampler use one and the same scale: a floor / cap / clamp applied to a component of
    # _compute_params in one of the two methods and not in the other makes them two different distributions
    def _bounded_components(fn):
        out = set()
        if fn is None:
            return out
        comp_names = set()
        for a in ast.walk(fn.node):
            if isinstance(a, ast.Assign) and isinstance(a.value, ast.Call) and norm_text(a.value.func).endswith("_compute_params"):
                for t in a.targets:
                    comp_names |= {x.id for x in ast.walk(t) if isinstance(x, ast.Name)}
        for c in ast.walk(fn.node):
            if isinstance(c, ast.Call):
                last = c.func.attr if isinstance(c.func, ast.Attribute) else (c.func.id if isinstance(c.func, ast.Name) else "")
                if last in ("clamp", "clip", "clamp_min", "clamp_max", "maximum", "minimum", "hardtanh", "softplus") and last != "softplus":
                    args = list(c.args) + ([c.func.value] if isinstance(c.func, ast.Attribute) else [])
                    for a in args:
                        for x in ast.walk(a):
                            if isinstance(x, ast.Name) and x.id in comp_names:
                                out.add((x.id, last, norm_text(c)[:60]))
        return out

    b_lp, b_s = _bounded_components(lp), _bounded_components(cdn.methods.get("_sample"))
    if {(n_, k_) for n_, k_, _ in b_lp} != {(n_, k_) for n_, k_, _ in b_s}:
        only = sorted(b_lp - b_s, key=str) or sorted(b_s - b_lp, key=str)
        where = "_log_prob" if (b_lp - b_s) else "_sample"
        res.fail(Finding("DIST-TERMS", lp.module, "ConditionalDiagonalNormal.%s" % where, (lp if where == "_log_prob" else cdn.methods.get("_sample")).node, "ConditionalDiagonalNormal.%s bounds a parameter component (`%s`) that the other of _log_prob / _sample uses unbounded: for contexts where the bound acts the density that is evaluated is not the density that is sampled" % (where, only[0][2]), construct="parameter bound in one of _log_prob / _sample"))
        return res
    # roles of the two components of _compute_params, read off the monomial normal form of the
    # log-density: the component under exp^-2 inside the square and in the subtracted sum is the
    # log-std, the one subtracted from the inputs is the mean -- in any spelling
    from ..prodnf import NotMonomial, additive_terms

    c0 = "__component__(self._compute_params(context), 0)"
    c1 = "__component__(self._compute_params(context), 1)"
    verdict = None
    for pp in paths_of(lp.node):
        if pp.kind != "return":
            continue
        try:
            terms = additive_terms(pp.ret)
        except NotMonomial:
            continue
        centre = scale = summed = None
        for c, m in terms:
            for atom, k in m.items():
                if atom[0] != "sum":
                    continue
                inner = dict(atom[1])
                lins = [a for a in inner if a[0] == "lin"]
                exps = [a for a in inner if a[0] == "exp"]
                if lins and exps:
                    for mm, cc in lins[0][1]:
                        t = [a[1] for a, kk in mm if a[0] == "leaf"]
                        if cc == -1 and t:
                            centre = t[0]
                    t = [a[1] for a, kk in exps[0][1] if isinstance(a, tuple) and a[0] == "leaf"]
                    scale = t[0] if t else None
                elif not lins and not exps and len(inner) == 1:
                    a = next(iter(inner))
                    if a[0] == "leaf":
                        summed = a[1]
        if centre is None or scale is None or summed is None:
            continue
        if (centre, scale, summed) == (c0, c1, c1):
            verdict = "ok"
        elif {centre, scale, summed} <= {c0, c1}:
            verdict = "swapped: the inputs are centred with `%s`, scaled with exp of `%s`, and `%s` is summed" % (centre[-3:], scale[-3:], summed[-3:])
    if verdict == "ok":
        res.ok("ConditionalDiagonalNormal._log_prob: component 0 is the mean, component 1 the log-std")
    elif verdict is None:
        res.undecide("ConditionalDiagonalNormal._log_prob", "cannot read the roles of the two parameter components off the log-density")
    else:
        res.fail(Finding("DIST-TERMS", lp.module, lp.qualname, lp.node, "_log_prob must standardise with (inputs - means) * exp(-log_stds) and subtract sum(log_stds), with means / log_stds the first / second component of _compute_params (%s)" % verdict, construct="parameter roles in _log_prob"))
    s = cdn.methods.get("_sample")
    oksmp = None
    from ..symexp import uwalk as _uw2

    for pp in paths_of(s.node):
        if pp.kind != "return":
            continue
        c0 = "__component__(self._compute_params(context), 0)"
        c1 = "torch.exp(__component__(self._compute_params(context), 1))"
        # the reparameterisation, wherever it sits under reshapes / splits / transposes
        for core in _uw2(pp.ret):
            if isinstance(core, ast.Call) and isinstance(core.func, ast.Attribute) and core.func.attr == "normal" and norm_text(core.func.value) == "torch":
                # torch.normal(mean, std) draws from N(mean, std^2) element-wise (its differentiability is C16's)
                a = list(core.args) + [None, None]
                kw = {k.arg: k.value for k in core.keywords}
                m_t, s_t = kw.get("mean", a[0]), kw.get("std", a[1])
                if m_t is not None and s_t is not None:
                    m_t, s_t = norm_text(m_t), norm_text(s_t)
                    if c0 in m_t and c1 not in m_t and c1 in s_t and "randn" not in m_t + s_t:
                        oksmp = True
                    elif oksmp is None:
                        oksmp = False
                continue
            if not (isinstance(core, ast.BinOp) and isinstance(core.op, ast.Add)):
                continue
            sides = [norm_text(core.left), norm_text(core.right)]
            for mean_t, noise_t in (sides, sides[::-1]):
                if c0 in mean_t and "randn" not in mean_t and "torch.randn(" in noise_t:
                    if c1 not in mean_t and c1 in noise_t:
                        oksmp = True
                    elif oksmp is None:
                        oksmp = False
    if oksmp:
        res.ok("ConditionalDiagonalNormal._sample: means + exp(log_stds) * noise")
    elif oksmp is None:
        res.undecide("ConditionalDiagonalNormal._sample", "no `means + <scale> * randn` found in the returned expression")
    else:
        res.fail(Finding("DIST-TERMS", s.module, s.qualname, s.node, "samples must be means + exp(log_stds) * standard normal noise", construct="reparameterisation in _sample"))
    mm = cdn.methods.get("_mean")
    r = [pp for pp in paths_of(mm.node) if pp.kind == "return"]
    if len(r) == 1 and norm_text(r[0].ret) == "__component__(self._compute_params(context), 0)":
        res.ok("ConditionalDiagonalNormal._mean returns the means")
    else:
        res.fail(Finding("DIST-TERMS", mm.module, mm.qualname, mm.node, "_mean must return the means component", construct="_mean result"))
    # --- MADE mixture: logsumexp over the component axis, then sum over features
    mog = p.find_class("MixtureOfGaussiansMADE", "nflows.nn.nde.made")
    lp = mog.methods.get("log_prob")
    from ..canon import canon as _canon

    for path in paths_of(lp.node):
        if path.kind != "return":
            continue
        r = _canon(path.ret)  # one spelling: torch.sum(torch.logsumexp(body, -1), -1)
        okm = False
        if isinstance(r, ast.Call) and norm_text(r.func) == "torch.sum" and const_number(_kwarg(r, "dim", 1) or ast.Constant(value=None)) == -1:
            inner = r.args[0]
            if isinstance(inner, ast.Call) and norm_text(inner.func) == "torch.logsumexp" and const_number(_kwarg(inner, "dim", 1) or ast.Constant(value=None)) == -1:
                body = inner.args[0]
                terms = signed_terms(body)
                has_mix = any(s == 1 and "log_softmax" in norm_text(t) for s, t in terms)
                gauss = [(s, t) for s, t in terms if "log_softmax" not in norm_text(t)]
                half = False
                parts = set()
                for s, t in gauss:
                    ps, fac = product_factors(t)
                    if s * ps == -1 and any(const_number(f) == 0.5 for f in fac):
                        half = True
                        for f in fac:
                            for ss, tt in signed_terms(f) if not const_number(f) else []:
                                tx = norm_text(tt)
                                if "np.log(2 * np.pi)" in tx or "math.log(2 * math.pi)" in tx:
                                    parts.add("log2pi")
                                elif "torch.log(" in tx and "2 *" in tx:
                                    parts.add("2logstd")
                                elif "** 2" in tx or ".pow(2)" in tx or ("torch.pow(" in tx and tx.rstrip().endswith(", 2)")):
                                    parts.add("quad")
                okm = has_mix and half and parts == {"log2pi", "2logstd", "quad"}
        if okm:
            res.ok("mixture: sum_features logsumexp_components(log w - 0.5*(log 2pi + 2 log s + z^2))")
        else:
            res.fail(Finding("DIST-TERMS", lp.module, lp.qualname, path.ret_node, "mixture log-density must be sum over features of logsumexp over components of log_softmax(logits) - 0.5 * (log 2pi + 2 log std + ((x - mean) / std)**2)"))
    # same (logits, means, stds) slots and the same positivity transform in log_prob and sample,
    # read off the expansions: a *slot* is the k-th entry of the last (size-3) axis of the network
    # output -- outputs[..., k], outputs[:, f, :, k], the k-th of outputs.unbind(-1) ... -- and its
    # *role* is what it goes through: (log_)softmax -> mixture weights, softplus -> std, neither
    # -> mean.  Private helpers shared by the two methods are expanded first.
    smp = mog.methods.get("sample")
    lp = mog.methods.get("log_prob")
    from ..symexp import uwalk as _uw, is_component as _is_comp

    def slot_of(e):
        if isinstance(e, ast.Subscript) and isinstance(e.value, ast.Call) and norm_text(e.value.func).split(".")[-1] == "unbind" and isinstance(const_number(e.slice), int):
            c = e.value
            d = next((k.value for k in c.keywords if k.arg == "dim"), c.args[-1] if c.args else None)
            if d is not None and const_number(d) == -1:
                return const_number(e.slice)
            return None
        if isinstance(e, ast.Subscript):
            sl = e.slice
            elts = sl.elts if isinstance(sl, ast.Tuple) else [sl]
            if len(elts) >= 2 and isinstance(const_number(elts[-1]), int) and all(isinstance(x, ast.Slice) or (isinstance(x, ast.Constant) and x.value is Ellipsis) or isinstance(x, (ast.Name, ast.Constant)) for x in elts[:-1]):
                if any(isinstance(x, ast.Constant) and x.value is Ellipsis or isinstance(x, ast.Slice) for x in elts[:-1]):
                    return const_number(elts[-1])
        if _is_comp(e) and isinstance(e.args[0], ast.Call) and isinstance(e.args[0].func, ast.Attribute) and e.args[0].func.attr == "unbind":
            c = e.args[0]
            d = next((k.value for k in c.keywords if k.arg == "dim"), c.args[-1] if c.args else None)
            if d is not None and const_number(d) == -1:
                return e.args[1].value
        return None

    def roles_of(fn):
        roles = {}
        stdforms = set()

        def visit(e, enclosing, seen):
            key = (id(e), enclosing)
            if key in seen:
                return
            seen.add(key)
            k = slot_of(e) if isinstance(e, ast.AST) else None
            if k is not None and k in (0, 1, 2):
                r = "mix" if enclosing & {"log_softmax", "softmax"} else ("std" if "softplus" in enclosing else "mean")
                roles.setdefault(k, set()).add(r)
                return
            if isinstance(e, ast.BinOp) and isinstance(e.op, ast.Add):
                for side, other in ((e.left, e.right), (e.right, e.left)):
                    if isinstance(side, ast.Call) and norm_text(side.func).split(".")[-1] == "softplus" and side.args and slot_of(side.args[0]) is not None:
                        stdforms.add("softplus($S) + %s" % norm_text(other))
            if isinstance(e, ast.Call):
                last = norm_text(e.func).split(".")[-1] if not _is_comp(e) else ""
                enc2 = enclosing | ({last} if last in ("log_softmax", "softmax", "softplus") else frozenset())
                for c in ast.iter_child_nodes(e):
                    visit(c, frozenset(enc2), seen)
                return
            for c in ast.iter_child_nodes(e):
                visit(c, enclosing, seen)

        for pp in paths_of(fn.node):
            seen = set()
            if pp.ret is not None:
                visit(pp.ret, frozenset(), seen)
            for eff in pp.effects:
                for part in eff[2:]:
                    if isinstance(part, ast.AST):
                        visit(part, frozenset(), seen)
                    elif isinstance(part, list):
                        for q in part:
                            if isinstance(q, ast.AST):
                                visit(q, frozenset(), seen)
        return roles, stdforms

    def roles_with_callees(fn):
        """the method, and -- when it reads no output slot itself -- the methods of the class it calls on self
        (sample() delegating to a fused sample_and_log_prob)"""
        r, f = roles_of(fn)
        if r:
            return r, f
        for c in ast.walk(fn.node):
            if isinstance(c, ast.Call) and isinstance(c.func, ast.Attribute) and isinstance(c.func.value, ast.Name) and c.func.value.id == "self" and c.func.attr in mog.methods and mog.methods[c.func.attr] is not fn:
                rr, ff = roles_of(mog.methods[c.func.attr])
                for k, v in rr.items():
                    r.setdefault(k, set()).update(v)
                f |= ff
        return r, f

    r1, f1 = roles_with_callees(lp)
    r2, f2 = roles_with_callees(smp)

    def single(r):
        return {k: next(iter(v)) for k, v in r.items() if len(v) == 1} if all(len(v) == 1 for v in r.values()) else None

    s1, s2 = single(r1), single(r2)
    if s1 is None or s2 is None or set(s1) != {0, 1, 2} or set(s2) != {0, 1, 2}:
        res.undecide("MixtureOfGaussiansMADE", "cannot read the roles of the three output slots (log_prob %s, sample %s)" % (r1, r2))
    elif s1 == s2 and sorted(s1.values()) == ["mean", "mix", "std"]:
        res.ok("mixture: log_prob and sample read %s" % ", ".join("slot %d as %s" % (k, s1[k]) for k in sorted(s1)))
    else:
        res.fail(Finding("DIST-TERMS", smp.module, smp.qualname, smp.node, "log_prob and sample read the mixture parameters from different slots (log_prob %s / sample %s)" % (s1, s2), construct="parameter slots of the mixture"))
    if f1 and f2 and f1 == f2 and len(f1) == 1:
        res.ok("mixture: the same positivity transform for stds in log_prob and sample (%s)" % next(iter(f1)))
    elif not f1 or not f2:
        res.undecide("MixtureOfGaussiansMADE", "std transform not of the form softplus(slot) + floor")
    else:
        res.fail(Finding("DIST-TERMS", smp.module, smp.qualname, smp.node, "log_prob and sample compute the component stds differently (%s / %s)" % (sorted(f1), sorted(f2)), construct="std transform of the mixture"))
    return res


# ---------------------------------------------------------------------------------------
# TRUNC-NORM: the normaliser of the box-restricted Gaussian prior
# ---------------------------------------------------------------------------------------


class _NoForm(Exception):
    pass


def trunc_norm_rule(ctx):
    """TRUNC-NORM.  LotkaVolterraOscillating is a diagonal Gaussian N(m, s^2 I) restricted to a box
    [lo, hi]^d, written as  log N(v) + log U(v) + c  with U the uniform density of the box.  It has total
    mass one iff
        c = - sum_i log( 1/2 [ erf((hi - m_i) / (s sqrt 2)) - erf((lo - m_i) / (s sqrt 2)) ] )  +  d log(hi - lo)
    (the Gaussian mass of the box, and the box volume the uniform factor divides by).  The constructor
    and log_prob are expanded symbolically; the constant is evaluated by the checker's own evaluator as a
    form  const + sum_k w_k * sum_i log( sum_j a_kj erf(p_kj + q_kj m_i) )  with numeric w, a, p, q and the
    mean m the only symbol, and compared with the form above built from the s, lo, hi, d the constructor
    hands to MultivariateNormal / BoxUniform.  A closed-form identity, like the Gaussian constant of
    BASE-TERMS; no integral is computed."""
    import math

    from ..astutil import _int_eval, _NoEval
    from ..symexp import shash

    p = ctx.p
    res = RuleResult("TRUNC-NORM", "the box-restricted Gaussian prior adds -log of the Gaussian mass of the box, 1/2 [erf((hi - m)/(s sqrt 2)) - erf((lo - m)/(s sqrt 2))] per dimension, and compensates the uniform factor's volume")
    cls = p.find_class("LotkaVolterraOscillating", "nflows.distributions.uniform")
    if cls is None:
        raise AnalysisIncomplete("LotkaVolterraOscillating not found")
    init, lp = cls.methods.get("__init__"), cls.methods.get("log_prob")
    if init is None or lp is None:
        raise AnalysisIncomplete("LotkaVolterraOscillating.__init__ / log_prob missing")
    paths = [q for q in paths_of(init.node) if q.kind in ("fallthrough", "return")]
    if len(paths) != 1:
        res.undecide("LotkaVolterraOscillating.__init__", "%d paths" % len(paths))
        return res
    attrs = {}
    for eff in paths[0].effects:
        if eff[0] == "attr" and isinstance(eff[-1], ast.AST):
            attrs[norm_text(eff[1]) if isinstance(eff[1], ast.AST) else str(eff[1])] = eff[-1]

    def last(c):
        f = c.func
        return f.attr if isinstance(f, ast.Attribute) else (f.id if isinstance(f, ast.Name) else "")

    def kw(c, name, pos=None):
        for k in c.keywords:
            if k.arg == name:
                return k.value
        if pos is not None and len(c.args) > pos:
            return c.args[pos]
        return None

    def num(e):
        v = const_number(e)
        if v is not None:
            return float(v)
        try:
            return float(_int_eval(e, {}))
        except Exception:
            pass
        if isinstance(e, ast.Call) and last(e) in ("sqrt", "log", "exp") and len(e.args) == 1 and not e.keywords:
            x = num(e.args[0])
            return {"sqrt": math.sqrt, "log": math.log, "exp": math.exp}[last(e)](x)
        if isinstance(e, ast.Call) and last(e) in ("tensor", "as_tensor") and e.args:
            return num(e.args[0])
        if isinstance(e, ast.BinOp):
            a, b = num(e.left), num(e.right)
            if isinstance(e.op, ast.Add):
                return a + b
            if isinstance(e.op, ast.Sub):
                return a - b
            if isinstance(e.op, ast.Mult):
                return a * b
            if isinstance(e.op, ast.Div):
                return a / b
            if isinstance(e.op, ast.Pow):
                return a ** b
        if isinstance(e, ast.UnaryOp) and isinstance(e.op, ast.USub):
            return -num(e.operand)
        raise _NoForm("not a closed number: %s" % norm_text(e)[:40])

    def uniform_vec(e):
        """(value, length) of c * torch.ones(d) / torch.full((d,), c) / a plain number (length None)"""
        if isinstance(e, ast.Call) and last(e) == "ones" and e.args:
            return 1.0, int(num(e.args[0].elts[0] if isinstance(e.args[0], (ast.Tuple, ast.List)) else e.args[0]))
        if isinstance(e, ast.Call) and last(e) == "full" and len(e.args) >= 2:
            sh = e.args[0]
            return num(e.args[1]), int(num(sh.elts[0] if isinstance(sh, (ast.Tuple, ast.List)) else sh))
        if isinstance(e, ast.BinOp) and isinstance(e.op, ast.Mult):
            for a, b in ((e.left, e.right), (e.right, e.left)):
                try:
                    c = num(a)
                except _NoForm:
                    continue
                v, n = uniform_vec(b)
                return c * v, n
        if isinstance(e, ast.UnaryOp) and isinstance(e.op, ast.USub):
            v, n = uniform_vec(e.operand)
            return -v, n
        return num(e), None

    try:
        g, u, nrm = attrs.get("self._gaussian"), attrs.get("self._uniform"), attrs.get("self._log_normalizer")
        if g is None or u is None or nrm is None:
            raise _NoForm("the constructor does not set _gaussian, _uniform and _log_normalizer")
        if not (isinstance(g, ast.Call) and last(g) == "MultivariateNormal" and isinstance(u, ast.Call) and last(u) == "BoxUniform"):
            raise _NoForm("_gaussian / _uniform are not MultivariateNormal(..) / BoxUniform(..)")
        mean = kw(g, "loc", 0)
        cov = kw(g, "covariance_matrix", 1)
        if mean is None or cov is None or not (isinstance(cov, ast.BinOp) and isinstance(cov.op, ast.Mult)):
            raise _NoForm("covariance is not <variance> * torch.eye(d)")
        eye = next((x for x in (cov.left, cov.right) if isinstance(x, ast.Call) and last(x) == "eye"), None)
        if eye is None:
            raise _NoForm("covariance is not <variance> * torch.eye(d)")
        var = num(cov.right if eye is cov.left else cov.left)
        d = int(num(eye.args[0]))
        std = math.sqrt(var)
        lo, nlo = uniform_vec(kw(u, "low", 0))
        hi, nhi = uniform_vec(kw(u, "high", 1))
        hm = shash(mean)

        # -- evaluation of the normaliser: values are ("num", x) | ("aff", a, b) = a + b*m | ("lin", {(p, q): w}, c0)
        #    = c0 + sum w erf(p + q m) | ("form", const, [(w, lin)]) = const + sum_k w_k sum_i log(lin_k)
        def ev(e):
            if isinstance(e, ast.expr) and shash(e) == hm:
                return ("aff", 0.0, 1.0)
            try:
                v, n = uniform_vec(e)
                return ("num", v)
            except _NoForm:
                pass
            if isinstance(e, ast.UnaryOp) and isinstance(e.op, ast.USub):
                return scale(ev(e.operand), -1.0)
            if isinstance(e, ast.BinOp) and isinstance(e.op, (ast.Add, ast.Sub)):
                a, b = ev(e.left), ev(e.right)
                return add(a, b if isinstance(e.op, ast.Add) else scale(b, -1.0))
            if isinstance(e, ast.BinOp) and isinstance(e.op, (ast.Mult, ast.Div)):
                a, b = ev(e.left), ev(e.right)
                if isinstance(e.op, ast.Div):
                    if b[0] != "num":
                        raise _NoForm("division by a non-constant")
                    return scale(a, 1.0 / b[1])
                if a[0] == "num":
                    return scale(b, a[1])
                if b[0] == "num":
                    return scale(a, b[1])
                raise _NoForm("product of two non-constants")
            if isinstance(e, ast.Call):
                name = last(e)
                f = e.func
                recv = f.value if isinstance(f, ast.Attribute) and not (isinstance(f.value, ast.Name) and f.value.id in ("torch", "np", "math", "F")) and not (isinstance(f.value, ast.Attribute) and norm_text(f.value) == "torch.special") else None
                ops = ([recv] if recv is not None else []) + list(e.args)
                if name == "cdf" and recv is not None and isinstance(recv, ast.Call) and last(recv) == "Normal" and len(e.args) == 1:
                    # Normal(m, s).cdf(b) = 1/2 (1 + erf((b - m) / (s sqrt 2)))
                    loc, sc = ev(kw(recv, "loc", 0)), ev(kw(recv, "scale", 1))
                    b = ev(e.args[0])
                    if sc[0] == "num" and b[0] in ("num", "aff") and loc[0] in ("num", "aff"):
                        z = scale(add(b, scale(loc, -1.0)), 1.0 / (sc[1] * math.sqrt(2.0)))
                        if z[0] == "num":
                            return ("num", 0.5 * (1.0 + math.erf(z[1])))
                        return ("lin", {(z[1], z[2]): 0.5}, 0.5)
                if name == "ndtr" and len(ops) == 1:
                    z = scale(ev(ops[0]), 1.0 / math.sqrt(2.0))
                    if z[0] == "num":
                        return ("num", 0.5 * (1.0 + math.erf(z[1])))
                    if z[0] == "aff":
                        return ("lin", {(z[1], z[2]): 0.5}, 0.5)
                if name == "erf" and len(ops) == 1:
                    a = ev(ops[0])
                    if a[0] == "num":
                        return ("num", math.erf(a[1]))
                    if a[0] == "aff":
                        return ("lin", {(a[1], a[2]): 1.0}, 0.0)
                if name == "log" and len(ops) == 1:
                    a = ev(ops[0])
                    if a[0] == "num":
                        return ("num", math.log(a[1]))
                    if a[0] == "lin":
                        return ("logvec", a)
                if name == "sum" and len(ops) == 1 and not e.keywords:
                    a = ev(ops[0])
                    if a[0] == "logvec":
                        return ("form", 0.0, [(1.0, a[1])])
                    if a[0] == "num":
                        try:
                            _, n = uniform_vec(ops[0])
                        except _NoForm:
                            n = None
                        return ("num", a[1] * (n if n else 1))
                if name == "log_prob" and recv is not None and norm_text(recv) == "self._uniform":
                    return ("num", -d * math.log(hi - lo))
            raise _NoForm("`%s`" % norm_text(e)[:50])

        def scale(v, c):
            if v[0] == "num":
                return ("num", v[1] * c)
            if v[0] == "aff":
                return ("aff", v[1] * c, v[2] * c)
            if v[0] == "lin":
                return ("lin", {k: w * c for k, w in v[1].items()}, v[2] * c)
            if v[0] == "form":
                return ("form", v[1] * c, [(w * c, l) for w, l in v[2]])
            raise _NoForm("scaling a vector of logs before it is summed")

        def add(a, b):
            if a[0] == "num" and b[0] == "num":
                return ("num", a[1] + b[1])
            if {a[0], b[0]} <= {"num", "aff"}:
                aa = a if a[0] == "aff" else ("aff", a[1], 0.0)
                bb = b if b[0] == "aff" else ("aff", b[1], 0.0)
                return ("aff", aa[1] + bb[1], aa[2] + bb[2])
            if {a[0], b[0]} <= {"num", "lin"}:
                aa = a if a[0] == "lin" else ("lin", {}, a[1])
                bb = b if b[0] == "lin" else ("lin", {}, b[1])
                out = dict(aa[1])
                for k, w in bb[1].items():
                    out[k] = out.get(k, 0.0) + w
                return ("lin", {k: w for k, w in out.items() if abs(w) > 1e-15}, aa[2] + bb[2])
            if {a[0], b[0]} <= {"num", "form"}:
                aa = a if a[0] == "form" else ("form", a[1], [])
                bb = b if b[0] == "form" else ("form", b[1], [])
                return ("form", aa[1] + bb[1], aa[2] + bb[2])
            raise _NoForm("sum of %s and %s" % (a[0], b[0]))

        got = ev(nrm)
        if got[0] == "num":
            got = ("form", got[1], [])
        if got[0] != "form":
            raise _NoForm("the normaliser is not a sum of logs of erf differences")
    except _NoForm as ex:
        res.undecide("LotkaVolterraOscillating", "cannot read the constructor as N(m, s^2 I) restricted to a box: %s" % ex)
        return res

    r2 = std * math.sqrt(2.0)
    want_lin = {(hi / r2, -1.0 / r2): 0.5, (lo / r2, -1.0 / r2): -0.5}
    want_const = d * math.log(hi - lo)

    def close(a, b):
        return abs(a - b) <= 1e-9 * max(1.0, abs(a), abs(b))

    probs = []
    if len(got[2]) != 1:
        probs.append("it has %d sum-of-logs terms; one (minus the log of the Gaussian mass of the box) is needed" % len(got[2]))
    else:
        w, lin = got[2][0]
        if not close(w, -1.0):
            probs.append("the log of the box mass enters with coefficient %g, not -1" % w)
        terms, c0 = lin[1], lin[2]
        if abs(c0) > 1e-12 or len(terms) != 2:
            probs.append("the box mass is not a difference of two erf values")
        else:
            keys = sorted(terms, key=lambda k: -k[0])
            wk = sorted(want_lin, key=lambda k: -k[0])
            for (pa, qa), (pw, qw), nm in zip(keys, wk, ("upper", "lower")):
                if not (close(pa, pw) and close(qa, qw)):
                    probs.append("the %s erf is taken at %.6g %+.6g*m; the Gaussian CDF at the %s end of the box needs (b - m) / (s*sqrt(2)) = %.6g %+.6g*m" % (nm, pa, qa, nm, pw, qw))
                if not close(terms[(pa, qa)], want_lin[(pw, qw)]):
                    probs.append("the %s erf has weight %g; Phi(z) = 1/2 (1 + erf(z / sqrt 2)) gives %g" % (nm, terms[(pa, qa)], want_lin[(pw, qw)]))
    if not close(got[1], want_const):
        probs.append("its constant part is %.6g; log_prob also adds the uniform density of the box (-d log(hi - lo) = %.6g inside), which needs +%.6g here" % (got[1], -want_const, want_const))
    # log_prob = normaliser + gaussian + uniform, each once
    okl = False
    for path in paths_of(lp.node):
        if path.kind != "return":
            continue
        ts = sorted((sg, norm_text(t)) for sg, t in signed_terms(path.ret))
        x = lp.params()[0][0] if lp.params() else "value"
        okl = ts == sorted([(1, "self._log_normalizer"), (1, "self._gaussian.log_prob(%s)" % x), (1, "self._uniform.log_prob(%s)" % x)])
    if not okl:
        res.undecide("LotkaVolterraOscillating.log_prob", "not of the form normaliser + gaussian.log_prob(v) + uniform.log_prob(v)")
        return res
    if probs:
        res.fail(Finding("TRUNC-NORM", init.module, init.qualname, nrm, "the prior N(m, %.3g^2 I) restricted to [%g, %g]^%d does not have total mass one: %s" % (std, lo, hi, d, "; ".join(probs)), construct="truncation normaliser"))
    else:
        res.ok("LotkaVolterraOscillating: -sum log(1/2 [erf((hi - m)/(s sqrt 2)) - erf((lo - m)/(s sqrt 2))]) + d log(hi - lo)")
    return res


# ---------------------------------------------------------------------------------------
# DIST-BCAST: stored parameters broadcast against events of every rank
# ---------------------------------------------------------------------------------------


def bcast_rule(ctx):
    """DIST-BCAST.  A distribution constructed with an event `shape` of arbitrary rank evaluates
    log_prob on inputs of shape [N, *shape].  Every element-wise operation that combines the inputs (or
    something derived from them element-wise) with a parameter / buffer created by the constructor must
    broadcast for event ranks 1, 2 and 3: the shapes are evaluated symbolically -- inputs [N, s1..sk],
    a stored tensor by what the constructor built it from (`torch.zeros(shape)`, `.reshape(1, -1)` is
    [1, s1*..*sk], `.reshape(1, *shape)` is [1, s1..sk]) -- and aligned from the right as torch does.
    A flattened parameter next to an un-flattened event only lines up for rank 1."""
    from ..symexp import uwalk

    p = ctx.p
    res = RuleResult("DIST-BCAST", "parameters and buffers stored by the constructor broadcast against inputs of shape [N, *shape] for event shapes of rank 1, 2 and 3")
    EW = {"exp", "log", "neg", "abs", "sqrt", "sigmoid", "tanh", "softplus", "square", "pow", "float", "double", "to", "clone", "detach", "reciprocal", "log1p", "expm1"}
    n_ops = 0
    reported = set()

    def last(c):
        f = c.func
        return f.attr if isinstance(f, ast.Attribute) else (f.id if isinstance(f, ast.Name) else "")

    def prod(dims):
        dims = tuple(d for d in dims if d != 1)
        if not dims:
            return 1
        return dims[0] if len(dims) == 1 else ("prod", dims)

    def numel(sh):
        out = []
        for d in sh:
            if isinstance(d, tuple) and d[0] == "prod":
                out.extend(d[1])
            elif d != 1:
                out.append(d)
        return tuple(sorted(map(str, out)))

    def reshape(sh, args, event, shape_names):
        """shape after .reshape(args) / .view(args) of a tensor of known shape"""
        dims = []
        for a in args:
            inner = a.value if isinstance(a, ast.Starred) else a
            t = norm_text(inner)
            if t in shape_names:
                dims.extend(event)
            elif const_number(inner) is not None:
                dims.append(int(const_number(inner)))
            else:
                return None
        if dims.count(-1) > 1:
            return None
        if -1 in dims:
            known = [d for d in dims if d != -1]
            total = list(numel(sh))
            for d in known:
                for x in ([d] if not (isinstance(d, tuple)) else list(d[1])):
                    if x != 1:
                        if str(x) not in total:
                            return None
                        total.remove(str(x))
            rest = prod(tuple(total)) if total else 1
            dims = [rest if d == -1 else d for d in dims]
        return tuple(dims)

    def broadcast(a, b):
        out = []
        for i in range(1, max(len(a), len(b)) + 1):
            x = a[-i] if i <= len(a) else 1
            y = b[-i] if i <= len(b) else 1
            if x == y or y == 1:
                out.append(x)
            elif x == 1:
                out.append(y)
            elif x is None or y is None:
                out.append(None)
            else:
                return ("mismatch", x, y, i)
        return tuple(reversed(out))

    def show(sh):
        def d(x):
            return "*".join(map(str, x[1])) if isinstance(x, tuple) else str(x)

        return "[" + ", ".join(d(x) for x in sh) + "]"

    for cls in p.all_classes():
        if not any(c.name == "Distribution" for c in cls.repo_mro()) or cls.name == "Distribution":
            continue
        init = cls.methods.get("__init__")
        if init is None:
            continue
        pnames = [a for a, _ in init.params()]
        if "shape" not in pnames:
            continue
        shape_names = {"shape", "self._shape", "torch.Size(shape)"}
        table = p.attrs(cls)
        for k in (1, 2, 3):
            event = tuple("s%d" % i for i in range(1, k + 1))

            def ctor_shape(e, depth=0):
                if e is None or depth > 6:
                    return None
                if isinstance(e, ast.Name):
                    # a constructor local: every assignment to it builds the same expression
                    vals = [a.value for a in ast.walk(init.node) if isinstance(a, ast.Assign) and len(a.targets) == 1 and isinstance(a.targets[0], ast.Name) and a.targets[0].id == e.id]
                    if vals and len({norm_text(v) for v in vals}) == 1:
                        return ctor_shape(vals[0], depth + 1)
                    return None
                if isinstance(e, ast.Call):
                    nm = last(e)
                    f = e.func
                    recv = f.value if isinstance(f, ast.Attribute) and not (isinstance(f.value, ast.Name) and f.value.id in ("torch", "np", "nn")) else None
                    if nm == "Parameter" and e.args:
                        return ctor_shape(e.args[0], depth + 1)
                    if nm in ("zeros", "ones", "randn", "rand", "empty", "full") and recv is None and e.args:
                        args = e.args[:1] if nm == "full" else e.args
                        if len(args) == 1 and isinstance(args[0], (ast.Tuple, ast.List)):
                            args = args[0].elts
                        return reshape((), list(args), event, shape_names) if not any(const_number(a) == -1 for a in args) else None
                    if nm in ("reshape", "view") and recv is not None:
                        base = ctor_shape(recv, depth + 1)
                        args = e.args[0].elts if len(e.args) == 1 and isinstance(e.args[0], (ast.Tuple, ast.List)) else e.args
                        return reshape(base, list(args), event, shape_names) if base is not None else None
                    if nm in ("flatten",) and recv is not None and not e.args:
                        base = ctor_shape(recv, depth + 1)
                        return (prod(base),) if base is not None else None
                    if nm in EW and recv is not None:
                        return ctor_shape(recv, depth + 1)
                if isinstance(e, ast.BinOp):
                    for side in (e.left, e.right):
                        r = ctor_shape(side, depth + 1)
                        if r is not None and const_number(e.right if side is e.left else e.left) is not None:
                            return r
                return None

            stored = {}
            for nm, ai in table.items():
                if ai.kind in ("PARAM", "BUFFER") or getattr(ai, "kind", None) in (PARAM_KIND, BUFFER_KIND):
                    v = ai.extra if ai.kind == PARAM_KIND and isinstance(ai.extra, ast.AST) else getattr(ai, "value", None)
                    shp = ctor_shape(v if isinstance(v, ast.AST) else None)
                    if shp is not None:
                        stored[nm] = shp
            if not stored:
                continue
            for mname in ("_log_prob", "_sample", "_mean"):
                fi = cls.methods.get(mname)
                if fi is None:
                    continue
                xname = fi.params()[0][0] if fi.params() else None

                def sh(e, depth=0):
                    """shape of an expression, None when this rule does not model it"""
                    if depth > 40:
                        return None
                    if isinstance(e, ast.Name) and mname == "_log_prob" and e.id == xname:
                        return ("N",) + event
                    if isinstance(e, ast.Attribute) and isinstance(e.value, ast.Name) and e.value.id == "self" and e.attr in stored:
                        return stored[e.attr]
                    if isinstance(e, ast.UnaryOp):
                        return sh(e.operand, depth + 1)
                    if isinstance(e, ast.Call):
                        nm = last(e)
                        f = e.func
                        recv = f.value if isinstance(f, ast.Attribute) and not (isinstance(f.value, ast.Name) and f.value.id in ("torch", "np", "F")) else None
                        if nm in ("reshape", "view") and recv is not None:
                            base = sh(recv, depth + 1)
                            args = e.args[0].elts if len(e.args) == 1 and isinstance(e.args[0], (ast.Tuple, ast.List)) else e.args
                            return reshape(base, list(args), event, shape_names) if base is not None else None
                        if nm in EW:
                            arg = recv if recv is not None else (e.args[0] if e.args else None)
                            return sh(arg, depth + 1) if arg is not None else None
                        return None
                    if isinstance(e, ast.BinOp) and isinstance(e.op, (ast.Add, ast.Sub, ast.Mult, ast.Div, ast.Pow)):
                        if const_number(e.right) is not None:
                            return sh(e.left, depth + 1)
                        if const_number(e.left) is not None:
                            return sh(e.right, depth + 1)
                        a, b = sh(e.left, depth + 1), sh(e.right, depth + 1)
                        if a is None or b is None:
                            return None
                        r = broadcast(a, b)
                        if isinstance(r, tuple) and r and r[0] == "mismatch":
                            raise _Bcast(e, a, b)
                        return r
                    return None

                seen = set()
                for path in paths_of(fi.node):
                    exprs = ([path.ret] if path.ret is not None else []) + [part for eff in path.effects for part in eff[2:] if isinstance(part, ast.AST)]
                    for ex in exprs:
                        for c in uwalk(ex):
                            if not isinstance(c, ast.BinOp) or id(c) in seen:
                                continue
                            seen.add(id(c))
                            try:
                                r = sh(c)
                            except _Bcast as b:
                                key = (cls.name, mname, k, norm_text(b.node)[:80])
                                if key not in reported:
                                    reported.add(key)
                                    res.fail(Finding("DIST-BCAST", fi.module, fi.qualname, fi.node, "for an event shape of rank %d, `%s` combines a tensor of shape %s with one of shape %s: they do not broadcast (the operation raises for every input); a parameter stored flattened has to be viewed as [1, *shape] first" % (k, norm_text(b.node)[:70], show(b.a), show(b.b)), construct="broadcast of stored parameters in %s.%s (rank %d)" % (cls.name, mname, k)))
                                continue
                            if r is not None:
                                n_ops += 1
    if n_ops < 2 and not res.findings:
        raise AnalysisIncomplete("DIST-BCAST: %d element-wise combinations of inputs and stored tensors evaluated (< 2)" % n_ops)
    res.ok("%d element-wise combinations of inputs / stored tensors broadcast for event ranks 1-3" % n_ops, nontrivial=bool(n_ops))
    return res


class _Bcast(Exception):
    def __init__(self, node, a, b):
        self.node, self.a, self.b = node, a, b



register(
    "C05",
    [res_rule, null_rule, dist_terms_rule, base_terms_rule, layout_rule, trunc_norm_rule, bcast_rule],
    "Interface-level necessary conditions for every density-returning object. RES: abstract interpretation of the public "
    "log_prob / sample / sample_and_log_prob / mean of every Distribution subclass (and the MADE mixture): every self-attribute "
    "read resolves, and no entry point returns a function object. NULL-1: values originating from parameters whose default is "
    "None are tracked interprocedurally; a dereference (.shape, subscript, attribute) of such a value that may still be None -- no "
    "dominating `is None` test, no callee that raises on None before use -- is reported with the call path. DIST-TERMS / "
    "BASE-TERMS: signed-sum term accounting of the Bernoulli, Gaussian and mixture log-densities, their reduction axes, and "
    "agreement of parameter roles between log_prob, sample and mean. LEAD-LAYOUT: row/context alignment in samplers (abstract leading-axis layouts). Normalising "
    "constants as closed forms: BASE-TERMS for the Gaussians, TRUNC-NORM for the box-restricted Gaussian prior (its constant, "
    "evaluated with the mean as the only symbol, equals -sum log(1/2 [erf((hi - m)/(s sqrt 2)) - erf((lo - m)/(s sqrt 2))]) + "
    "d log(hi - lo) for the s, lo, hi, d the constructor uses). Sampling laws (statistics) are NOT decided.",
    [A_NET, A_API, T_OPS],
)
