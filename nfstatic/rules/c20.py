"""C20 -- tensor and mask utilities obey their algebraic specifications (structural part)."""

import ast

from ..astutil import attr_chain, cond_atoms, const_number, walk_pc, pc_atoms
from ..model import AnalysisIncomplete, norm_text
from ..report import Finding, RuleResult
from ..symexp import paths_of, is_component, is_synth, strip_stores
from . import register, T_OPS
from .own_rules import c20_pure
from .c19 import c20_dtype
from .c06 import tile_rule, _layout

TU = "nflows.utils.torchutils"
TC = "nflows.utils.typechecks"


def _fn(p, mod, name):
    return p.find_function(mod, name)


def _single_return(fi, assume=None):
    ps = [pp for pp in paths_of(fi.node, assume or {}) if pp.kind == "return"]
    return ps


def reshape_rule(ctx):
    p = ctx.p
    res = RuleResult("UT-RESHAPE", "reshape helpers are pure reshapes with the documented axis order; sum_except_batch reduces exactly the non-batch axes")
    # repeat_rows: [R, ...] -> [R (x) n, ...]
    fi = _fn(p, TU, "repeat_rows")
    x, n = (a for a, _ in fi.params())
    rets = _single_return(fi)
    okr = False
    for path in rets:
        r = path.ret
        txt = norm_text(r).replace(" ", "")
        forms = (
            "merge_leading_dims(%s.unsqueeze(1).expand(%s.shape[0],%s,*%s.shape[1:]),num_dims=2)" % (x, x, n, x),
            "merge_leading_dims(%s.unsqueeze(1).expand(%s.shape[0],%s,*%s.shape[1:]),2)" % (x, x, n, x),
            "%s.repeat_interleave(%s,dim=0)" % (x, n),
            "torch.repeat_interleave(%s,%s,dim=0)" % (x, n),
        )
        if txt in forms:
            okr = True
        elif ".repeat(%s," % n in txt or "torch.tile" in txt or ".tile(" in txt:
            res.fail(Finding("UT-RESHAPE", fi.module, fi.qualname, path.ret_node, "repeat_rows tiles the whole tensor (rows r0,r1,..,r0,r1,..) instead of repeating each row consecutively (r0,r0,..,r1,r1,..)"))
            okr = None
    if okr:
        res.ok("repeat_rows: [R, ...] -> [R (x) n, ...] (each row repeated consecutively)")
    elif okr is False:
        res.fail(Finding("UT-RESHAPE", fi.module, fi.qualname, fi.node, "repeat_rows is not unsqueeze(1).expand(R, n, ...) merged row-major (nor repeat_interleave(n, dim=0))", construct="layout of repeat_rows"))
    # merge_leading_dims / split_leading_dim: one reshape of the same row-major buffer
    fi = _fn(p, TU, "merge_leading_dims")
    x, k = (a for a, _ in fi.params())
    okm = False
    for path in _single_return(fi):
        t = norm_text(path.ret).replace(" ", "")
        if t in ("torch.reshape(%s,torch.Size([-1])+%s.shape[%s:])" % (x, x, k), "%s.reshape(torch.Size([-1])+%s.shape[%s:])" % (x, x, k), "%s.reshape(-1,*%s.shape[%s:])" % (x, x, k), "torch.reshape(%s,(-1,)+%s.shape[%s:])" % (x, x, k), "%s.flatten(0,%s-1)" % (x, k)):
            okm = True
    if okm:
        res.ok("merge_leading_dims: reshape(x, (-1,) + x.shape[k:])")
    else:
        res.fail(Finding("UT-RESHAPE", fi.module, fi.qualname, fi.node, "merge_leading_dims must be the single reshape (-1,) + x.shape[num_dims:] (a permute or a different tail changes the element order)", construct="layout of merge_leading_dims"))
    fi = _fn(p, TU, "split_leading_dim")
    x, shp = (a for a, _ in fi.params())
    oks = False
    for path in _single_return(fi):
        t = norm_text(path.ret).replace(" ", "")
        if t in ("torch.reshape(%s,torch.Size(%s)+%s.shape[1:])" % (x, shp, x), "%s.reshape(torch.Size(%s)+%s.shape[1:])" % (x, shp, x), "%s.reshape(*%s,*%s.shape[1:])" % (x, shp, x), "torch.reshape(%s,tuple(%s)+%s.shape[1:])" % (x, shp, x), "%s.unflatten(0,%s)" % (x, shp)):
            oks = True
    if oks:
        res.ok("split_leading_dim: reshape(x, shape + x.shape[1:]) (inverse of merge_leading_dims)")
    else:
        res.fail(Finding("UT-RESHAPE", fi.module, fi.qualname, fi.node, "split_leading_dim must be the single reshape shape + x.shape[1:]", construct="layout of split_leading_dim"))
    # sum_except_batch
    fi = _fn(p, TU, "sum_except_batch")
    x, nb = (a for a, _ in fi.params())
    oksum = False
    for path in _single_return(fi):
        t = norm_text(path.ret).replace(" ", "")
        for nd in ("%s.ndimension()" % x, "%s.dim()" % x, "%s.ndim" % x, "len(%s.shape)" % x):
            if t in ("torch.sum(%s,dim=list(range(%s,%s)))" % (x, nb, nd), "%s.sum(dim=list(range(%s,%s)))" % (x, nb, nd), "torch.sum(%s,dim=tuple(range(%s,%s)))" % (x, nb, nd), "%s.sum(dim=tuple(range(%s,%s)))" % (x, nb, nd), "torch.sum(%s,list(range(%s,%s)))" % (x, nb, nd)):
                oksum = True
        if t in ("%s.flatten(%s).sum(-1)" % (x, nb), "%s.flatten(start_dim=%s).sum(-1)" % (x, nb), "%s.flatten(%s).sum(dim=-1)" % (x, nb)):
            oksum = True
    if oksum:
        res.ok("sum_except_batch: sum over range(num_batch_dims, ndim)")
    else:
        res.fail(Finding("UT-RESHAPE", fi.module, fi.qualname, fi.node, "sum_except_batch must reduce exactly the dimensions range(num_batch_dims, x.ndimension())", construct="reduction range of sum_except_batch"))
    d = [b for b in fi.params() if b[0] == nb][0][1]
    if d is not None and const_number(d) == 1:
        res.ok("sum_except_batch: num_batch_dims defaults to 1")
    else:
        res.fail(Finding("UT-RESHAPE", fi.module, fi.qualname, fi.node, "num_batch_dims must default to 1 (callers rely on it)", construct="default of num_batch_dims"))
    return res


def search_rule(ctx):
    p = ctx.p
    res = RuleResult("UT-SEARCH", "searchsorted returns sum_k [x >= knot_k] - 1 over the last axis (half-open bins), with the epsilon on the last knot only")
    fi = _fn(p, TU, "searchsorted")
    params = [a for a, _ in fi.params()]
    knots, x = params[0], params[1]
    eps = params[2] if len(params) > 2 else None
    for path in _single_return(fi):
        r = path.ret
        okc = False
        why = "not `torch.sum(inputs[..., None] >= knots, dim=-1) - 1`"
        from ..astutil import as_reduction

        recognised = False
        red = as_reduction(r.left, ("sum",)) if isinstance(r, ast.BinOp) and isinstance(r.op, ast.Sub) and const_number(r.right) == 1 else None
        if red is None and as_reduction(r, ("sum",)) is not None and isinstance(as_reduction(r, ("sum",))[1], ast.Compare):
            recognised = True
            why = "the count of knots at or left of the input is returned without `- 1`: every bin index is one too large"
        if red is not None:
            _, c, dim = red
            while isinstance(c, ast.Call) and isinstance(c.func, ast.Attribute) and c.func.attr in ("long", "int", "float") and not c.args:
                c = c.func.value
            if isinstance(c, ast.Compare) and len(c.ops) == 1 and dim is not None and const_number(dim) == -1:
                l, rr = c.left, c.comparators[0]
                op = type(c.ops[0])
                # knots <= x[..., None] is the same comparison written from the other side
                flip = {ast.LtE: ast.GtE, ast.Lt: ast.Gt, ast.GtE: ast.LtE, ast.Gt: ast.Lt}
                if norm_text(rr).replace(" ", "") in ("%s[...,None]" % x, "%s.unsqueeze(-1)" % x) and op in flip:
                    l, rr, op = rr, l, flip[op]
                lt = norm_text(l).replace(" ", "")
                is_x = lt in ("%s[...,None]" % x, "%s.unsqueeze(-1)" % x)
                core, stores = strip_stores(rr)
                shifted_all = False
                if isinstance(core, ast.BinOp) and isinstance(core.op, ast.Add) and eps is not None and eps in (norm_text(core.left), norm_text(core.right)):
                    core = core.right if norm_text(core.left) == eps else core.left
                    shifted_all = True
                core_is_knots = isinstance(core, ast.Name) and core.id == knots or (isinstance(core, ast.Call) and norm_text(core.func) in ("%s.clone" % knots,) and not core.args)
                if shifted_all and core_is_knots:
                    recognised = True
                    why = "the epsilon is added to every knot, not only the last one: all bin edges move and inputs on a knot fall into the bin to its left"
                elif is_x and op is ast.GtE and core_is_knots:
                    okc = True
                    recognised = True
                    # epsilon: one store on (..., -1) adding eps
                    if eps is not None:
                        good = [1 for idx, val in stores if norm_text(idx).replace(" ", "") == "(...,-1)" and eps in {n.id for n in ast.walk(val) if isinstance(n, ast.Name)}]
                        if len(good) == 1 and len(stores) == 1:
                            res.ok("searchsorted: eps added to the last knot only")
                        else:
                            res.fail(Finding("UT-SEARCH", fi.module, fi.qualname, path.ret_node, "the right-edge epsilon must be added to the last knot only (found %d knot stores)" % len(stores)))
                elif is_x and op is ast.Gt and core_is_knots:
                    recognised = True
                    why = "comparator `>` makes the bins (l, r]: an input equal to a knot falls into the bin to its left, and the lower end-point gets index -1"
                elif is_x and op in (ast.LtE, ast.Lt) and core_is_knots:
                    recognised = True
                    why = "the comparison counts the knots to the right of the input instead of those at or to its left"
                elif core_is_knots and not is_x:
                    recognised = True
                    why = "the comparison must broadcast inputs[..., None] against the knots"
            elif isinstance(c, ast.Compare) and dim is not None and const_number(dim) is not None and const_number(dim) != -1:
                recognised = True
                why = "the count of knots must be taken over the last axis (dim=-1)"
        if not okc and not recognised:
            res.undecide("searchsorted", "the bin search is not of the form sum(inputs[..., None] >= knots, dim=-1) - 1 in any known spelling")
            continue
        if okc:
            res.ok("searchsorted: sum(inputs[..., None] >= knots, dim=-1) - 1")
        else:
            res.fail(Finding("UT-SEARCH", fi.module, fi.qualname, path.ret_node, "bin search is " + why))
    return res


def mask_rule(ctx):
    p = ctx.p
    res = RuleResult("UT-MASK", "mask constructors: alternating stride-2 pattern, prefix of length ceil(n/2), ceil(n/2) indices drawn without replacement; all start from zeros and add 1")

    from ..astutil import int_formula_verdict

    half_notes = []

    path_conds = []

    def ceil_half(e, n):
        """True / False / None: is `e` ceil(n / 2) for every size n >= 1 that takes this path?
        Decided by evaluating the closed integer formula on n = 1..96 (any spelling: //, %, >>,
        math.ceil, divmod, a helper with one return per parity ...)."""
        if e is None:
            return None
        v = int_formula_verdict(e, n, lambda k: (k + 1) // 2, lo=1, hi=(4096 if getattr(ctx, "tier", "quick") == "thorough" else 96), conds=path_conds)
        if v is True or v is None:
            return v
        half_notes.append("`%s` gives %s for %s = %d; ceil(%s / 2) is %d" % (norm_text(e), v[2], n, v[1], n, v[3]))
        return False

    # alternating
    fi = _fn(p, TU, "create_alternating_binary_mask")
    n, even = (a for a, _ in fi.params())
    for path in _single_return(fi):
        core, stores = strip_stores(path.ret)
        ct = norm_text(core).replace(" ", "")
        zero = ct.startswith("torch.zeros(%s)" % n)
        okst = False
        if len(stores) == 1:
            idx, val = stores[0]
            it = norm_text(idx).replace(" ", "")
            vt = norm_text(val).replace(" ", "")
            if it in ("slice(0if%selse1,None,2)" % even, "(0if%selse1)::2" % even, "0if%selse1::2" % even) or (isinstance(idx, ast.Slice) and idx.upper is None and const_number(idx.step) == 2 and norm_text(idx.lower).replace(" ", "") == "0if%selse1" % even):
                okst = vt.endswith("+1") or vt == "1"
        if zero and okst:
            res.ok("create_alternating_binary_mask: zeros; mask[(0 if even else 1)::2] += 1")
        else:
            res.fail(Finding("UT-MASK", fi.module, fi.qualname, path.ret_node, "alternating mask must start from zeros and set every second entry starting at 0 (even=True) or 1 (even=False)"))
    # mid split
    fi = _fn(p, TU, "create_mid_split_binary_mask")
    n = fi.params()[0][0]
    for path in _single_return(fi):
        path_conds[:] = [(et, pol) for et, raw, pol in path.conds]
        core, stores = strip_stores(path.ret)
        zero = norm_text(core).replace(" ", "").startswith("torch.zeros(%s)" % n)
        okst = False
        half = None
        if len(stores) == 1 and isinstance(stores[0][0], ast.Slice) and stores[0][0].lower is None and stores[0][0].step is None:
            half = ceil_half(stores[0][0].upper, n)
            vt = norm_text(stores[0][1]).replace(" ", "")
            okst = bool(half) and (vt.endswith("+1") or vt == "1")
        if zero and okst:
            res.ok("create_mid_split_binary_mask: zeros; mask[:ceil(n/2)] += 1")
        elif half is None and len(stores) == 1 and zero:
            res.undecide("create_mid_split_binary_mask", "the prefix length `%s` is not a closed integer formula of %s" % (norm_text(stores[0][0])[:60], n))
        else:
            res.fail(Finding("UT-MASK", fi.module, fi.qualname, path.ret_node, "mid-split mask must be ones on the prefix of length ceil(features / 2)" + ("".join("; " + x for x in half_notes[-1:]))))
    # random
    fi = _fn(p, TU, "create_random_binary_mask")
    n = fi.params()[0][0]
    for path in _single_return(fi):
        path_conds[:] = [(et, pol) for et, raw, pol in path.conds]
        core, stores = strip_stores(path.ret)
        zero = norm_text(core).replace(" ", "").startswith("torch.zeros(%s)" % n)
        okst = False
        if len(stores) == 1:
            idx = stores[0][0]
            if isinstance(idx, ast.Call) and norm_text(idx.func) == "torch.multinomial":
                kw = {k.arg: k.value for k in idx.keywords}
                ns = kw.get("num_samples", idx.args[1] if len(idx.args) > 1 else None)
                rep = kw.get("replacement", idx.args[2] if len(idx.args) > 2 else None)
                w = kw.get("input", idx.args[0] if idx.args else None)
                uniform = w is not None and norm_text(w).replace(" ", "").startswith("torch.ones(%s)" % n)
                half = ceil_half(ns, n)
                if half and (rep is None or (isinstance(rep, ast.Constant) and rep.value is False)) and uniform:
                    okst = True
                elif half is None and uniform:
                    okst = None
            elif isinstance(idx, ast.Subscript) and "randperm" in norm_text(idx):
                half = ceil_half(idx.slice.upper, n) if isinstance(idx.slice, ast.Slice) else False
                okst = None if half is None else bool(half)
        if zero and okst:
            res.ok("create_random_binary_mask: ceil(n/2) distinct indices, uniformly, set to 1")
        elif zero and okst is None:
            res.undecide("create_random_binary_mask", "the number of ones is not a closed integer formula of %s" % n)
        else:
            res.fail(Finding("UT-MASK", fi.module, fi.qualname, path.ret_node, "random mask must set exactly ceil(features / 2) distinct, uniformly drawn positions (multinomial(ones, ceil(n/2), replacement=False))" + ("".join("; " + x for x in half_notes[-1:]))))
    return res


def pred_rule(ctx):
    p = ctx.p
    res = RuleResult("UT-PRED", "type-check predicates have their documented structure, and argument validation (TypeError) dominates use in the helpers")
    want = {
        "is_bool": ("isinstance(x, bool)",),
        "is_int": ("isinstance(x, int)",),
        "is_positive_int": ("is_int(x) and x > 0", "is_int(x) and 0 < x"),
        "is_nonnegative_int": ("is_int(x) and x >= 0", "is_int(x) and 0 <= x"),
    }
    for name, forms in want.items():
        fi = _fn(p, TC, name)
        arg = fi.params()[0][0]
        rets = [n for n in ast.walk(fi.node) if isinstance(n, ast.Return)]
        got = norm_text(rets[0].value) if len(rets) == 1 else None
        if got is not None and got.replace(arg, "x") in forms:
            res.ok("%s(x) = %s" % (name, forms[0]))
        else:
            res.fail(Finding("UT-PRED", fi.module, fi.qualname, fi.node, "%s must be `%s`; found `%s`" % (name, forms[0], got), construct="body of " + name))
    fi = _fn(p, TC, "is_power_of_two")
    arg = fi.params()[0][0]
    okp = False
    for path in paths_of(fi.node):
        if path.kind != "return":
            continue
        atoms = set()
        for et, raw, pol in path.conds:
            atoms |= cond_atoms(raw, pol)
        t = norm_text(path.ret).replace(" ", "")
        if "is_positive_int(%s)" % arg in atoms:
            okp = t in ("not%s&%s-1" % (arg, arg), "%s&%s-1==0" % (arg, arg), "not(%s&(%s-1))" % (arg, arg), "(%s&(%s-1))==0" % (arg, arg), "%s&(%s-1)==0" % (arg, arg))
            if not okp:
                res.fail(Finding("UT-PRED", fi.module, fi.qualname, path.ret_node, "is_power_of_two must test n & (n - 1) == 0 for positive ints"))
        else:
            if not (isinstance(path.ret, ast.Constant) and path.ret.value is False):
                res.fail(Finding("UT-PRED", fi.module, fi.qualname, path.ret_node, "is_power_of_two must be False for anything that is not a positive int"))
                okp = None
    if okp:
        res.ok("is_power_of_two = is_positive_int(n) and not n & (n - 1)")
    # validation dominates use
    checks = [("tile", "n", "is_positive_int"), ("sum_except_batch", "num_batch_dims", "is_nonnegative_int"), ("merge_leading_dims", "num_dims", "is_positive_int"), ("repeat_rows", "num_reps", "is_positive_int")]
    for fname, param, pred in checks:
        fi = _fn(p, TU, fname)
        guard_line = None
        for st, pc, ng in walk_pc(fi.node.body):
            if isinstance(st, ast.Raise) and "TypeError" in norm_text(st.exc):
                atoms = pc_atoms(pc)
                for a in atoms:
                    if a.startswith("not(") and "%s(%s)" % (pred, param) in a:
                        r = None
                        for t, pol in pc:
                            for c in ast.walk(t):
                                if isinstance(c, ast.Call) and norm_text(c.func).endswith(pred):
                                    r = p.resolve_expr(fi.module, c.func)
                        if getattr(r, "name", None) == pred:
                            guard_line = st.lineno
        if guard_line is None:
            res.fail(Finding("UT-PRED", fi.module, fi.qualname, fi.node, "%s does not raise TypeError unless %s(%s)" % (fname, pred, param), construct="validation of %s in %s" % (param, fname)))
            continue
        early = [n for n in ast.walk(fi.node) if isinstance(n, ast.Name) and n.id == param and n.lineno < guard_line - 1 and not isinstance(getattr(n, "_parent", None), ast.arg)]
        early = [n for n in early if "%s(%s)" % (pred, param) not in norm_text(getattr(n, "_parent", n))]
        if early:
            res.fail(Finding("UT-PRED", fi.module, fi.qualname, early[0], "`%s` is used before it is validated" % param))
        else:
            res.ok("%s: TypeError unless %s(%s), before use" % (fname, pred, param))
    return res


def form_rule(ctx):
    p = ctx.p
    res = RuleResult("UT-FORM", "cbrt = sign(x) * exp(log|x| / 3); logabsdet = slogdet(x)[1] (sign handling present; values not checked)")
    fi = _fn(p, TU, "cbrt")
    x = fi.params()[0][0]
    for path in _single_return(fi):
        t = norm_text(path.ret).replace(" ", "")
        forms = ("torch.sign(%s)*torch.exp(torch.log(torch.abs(%s))/3.0)" % (x, x), "torch.sign(%s)*torch.exp(torch.log(torch.abs(%s))/3)" % (x, x), "torch.sign(%s)*torch.abs(%s)**(1/3)" % (x, x), "torch.sign(%s)*torch.pow(torch.abs(%s),1/3)" % (x, x), "torch.sign(%s)*torch.abs(%s).pow(1/3)" % (x, x), "torch.sign(%s)*torch.abs(%s).pow(1.0/3.0)" % (x, x))
        if t in forms:
            res.ok("cbrt: sign(x) * |x|^(1/3)")
        else:
            has_sign = "torch.sign(%s)" % x in t or ".sign()" in t
            has_abs = "torch.abs(%s)" % x in t or "%s.abs()" % x in t
            third = "/3" in t or "1/3" in t
            if has_sign and has_abs and third:
                res.ok("cbrt: sign and magnitude handled separately")
            else:
                res.fail(Finding("UT-FORM", fi.module, fi.qualname, path.ret_node, "cbrt must combine torch.sign(x) with the cube root of |x| (sign %s, abs %s, third %s): negative inputs otherwise give NaN or the wrong sign" % (has_sign, has_abs, third)))
    fi = _fn(p, TU, "logabsdet")
    x = fi.params()[0][0]
    for path in _single_return(fi):
        r = path.ret
        okl = False
        if is_component(r) and isinstance(r.args[0], ast.Call) and norm_text(r.args[0].func) in ("torch.slogdet", "torch.linalg.slogdet") and r.args[1].value == 1 and norm_text(r.args[0].args[0]) == x:
            okl = True
        t = norm_text(r).replace(" ", "")
        if t in ("torch.slogdet(%s)[1]" % x, "torch.linalg.slogdet(%s)[1]" % x, "torch.slogdet(%s).logabsdet" % x, "torch.linalg.slogdet(%s).logabsdet" % x, "torch.log(torch.abs(torch.det(%s)))" % x):
            okl = True
        if okl:
            res.ok("logabsdet: second component of slogdet")
        else:
            res.fail(Finding("UT-FORM", fi.module, fi.qualname, path.ret_node, "logabsdet must be the log-abs component of slogdet (torch.logdet is NaN for negative determinants; component 0 is the sign)"))
    return res


def tile_util_rule(ctx):
    r = tile_rule(ctx)
    r.rule = "UT-TILE"
    for f in r.findings:
        f.rule = "UT-TILE"
    return r


register(
    "C20",
    [c20_pure, reshape_rule, tile_util_rule, search_rule, mask_rule, pred_rule, form_rule, c20_dtype],
    "For every function exported by nflows/utils/__init__.py. UT-PURE: the ownership analysis of C13 with each helper as its own "
    "entry point: no write may reach storage aliasing an argument. UT-RESHAPE / UT-TILE: symbolic layout of tile ([L] -> "
    "[L (x) n]) and repeat_rows ([R,...] -> [R (x) n,...]); merge_leading_dims / split_leading_dim are single reshapes with "
    "targets (-1,)+x.shape[k:] and shape+x.shape[1:] (mutually inverse views of one row-major buffer); sum_except_batch reduces "
    "exactly range(num_batch_dims, ndim). UT-SEARCH: sum(inputs[...,None] >= knots, -1) - 1 with the epsilon on the last knot "
    "only. UT-MASK: pattern/count structure of the three mask constructors. UT-PRED: predicate bodies and TypeError validation "
    "dominating use. UT-DTYPE: the dtype-provenance engine of C19 over the helpers. UT-FORM: sign handling present in cbrt and "
    "logabsdet. Cube-root and log-abs-det numerics are NOT decided.",
    [T_OPS, "isinstance(True, int) is true in Python: whether is_int(True) should hold is a matter of specification and only noted"],
)
