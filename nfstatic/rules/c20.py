"""C20 -- tensor and mask utilities obey their algebraic specifications (structural part)."""

import ast

from ..astutil import attr_chain, cond_atoms, const_number, walk_pc, pc_atoms
from ..model import AnalysisIncomplete, norm_text
from ..report import Finding, RuleResult
from ..symexp import paths_of, is_component, is_synth, strip_stores
from . import register, T_OPS
from .own_rules import c20_pure
from .c19 import c20_dtype
from .c06 import tile_rule, _layout

TU = "nflows.utils.torchutils"
TC = "nflows.utils.typechecks"


def _fn(p, mod, name):
    return p.find_function(mod, name)


def _single_return(fi, assume=None):
    ps = [pp for pp in paths_of(fi.node, assume or {}) if pp.kind == "return"]
    return ps


def _atoms(r, prefix="a", splittable=False):
    return tuple(((("%s%d" % (prefix, i), "%s%d" % (prefix.upper(), i), splittable),)) for i in range(r))


def _labels(layout):
    return tuple(tuple(a[0] for a in g) for g in layout)


def reshape_rule(ctx):
    """UT-RESHAPE on the shape-level evaluator (nfstatic/shapeeval.py): each helper is evaluated on
    arguments of every small rank whose axes are distinct atoms, and the resulting layout -- which
    original axes are merged into which result axis, in which order, and which were reduced away --
    is compared with the documented behaviour.  How the helper spells it (torch.reshape / .view /
    flatten / starred shapes / early returns / helpers) does not matter."""
    from ..axes import Mismatch, Unknown, show
    from ..shapeeval import ShapeEval, Sz, RaisesExc

    p = ctx.p
    res = RuleResult("UT-RESHAPE", "reshape helpers are pure regroupings of the row-major element order with the documented axis order; sum_except_batch reduces exactly the non-batch axes and keeps the batch axes, for every rank")
    thorough = getattr(ctx, "tier", "quick") == "thorough"
    max_rank = 6 if thorough else 4
    mod = p.modules.get(TU)
    reported = set()

    def fail(fi, key, msg):
        if key in reported:
            return
        reported.add(key)
        res.fail(Finding("UT-RESHAPE", fi.module, fi.qualname, fi.node, msg, construct=key))

    def run(fi, env, pyenv):
        ev = ShapeEval(env, pyenv, p, fi.module)
        return ev, ev.run(fi)

    # ---- sum_except_batch -----------------------------------------------------------------------
    fi = _fn(p, TU, "sum_except_batch")
    x, nb = [a for a, _ in fi.params()][:2]
    n_ok = 0
    for r in range(0, max_rank + 1):
        for k in range(0, r + 1):
            lay = _atoms(r)
            tag = "sum_except_batch(x of rank %d, num_batch_dims=%d)" % (r, k)
            try:
                ev, out = run(fi, {x: lay}, {nb: k})
            except Unknown as u:
                res.undecide(tag, str(u))
                continue
            except Mismatch as m:
                fail(fi, "layout of sum_except_batch", "%s: %s" % (tag, m.msg))
                continue
            except RaisesExc as ex:
                fail(fi, "sum_except_batch raises", "%s raises %s for a valid argument" % (tag, ex.exc))
                continue
            if isinstance(out, tuple) and out and out[0] == "py":
                res.undecide(tag, "does not return a tensor")
                continue
            summed = sorted(a[0] for op, atoms in ev.reduced if op == "sum" for a in atoms)
            other = [op for op, atoms in ev.reduced if op != "sum" and atoms]
            want_sum = sorted(a[0] for g in lay[k:] for a in g)
            if _labels(out) != _labels(lay[:k]) or summed != want_sum or other:
                why = ""
                if ev.empty_dim_reductions:
                    why = " -- the list of dims handed to `%s` is empty here, and a reduction over an empty list of dims reduces over EVERY axis (torch.sum(x, dim=[]) is torch.sum(x))" % norm_text(ev.empty_dim_reductions[0])[:50]
                fail(fi, "sum_except_batch keeps the batch axes" if ev.empty_dim_reductions else "reduction range of sum_except_batch", "%s returns axes %s after summing over %s; it must keep the %d batch ax%s %s and sum over exactly %s%s" % (tag, show(out), summed or "nothing", k, "is" if k == 1 else "es", show(lay[:k]), want_sum or "nothing", why))
            else:
                n_ok += 1
    if n_ok:
        res.ok("sum_except_batch: %d (rank, num_batch_dims) combinations keep the batch axes and sum the rest" % n_ok)
    d = [b_ for b_ in fi.params() if b_[0] == nb][0][1]
    if d is not None and const_number(d) == 1:
        res.ok("sum_except_batch: num_batch_dims defaults to 1")
    else:
        res.fail(Finding("UT-RESHAPE", fi.module, fi.qualname, fi.node, "num_batch_dims must default to 1 (callers rely on it)", construct="default of num_batch_dims"))

    # ---- merge_leading_dims -----------------------------------------------------------------------
    fi = _fn(p, TU, "merge_leading_dims")
    x, kname = [a for a, _ in fi.params()][:2]
    n_ok = 0
    for r in range(1, max_rank + 1):
        for k in range(1, r + 2):
            lay = _atoms(r)
            tag = "merge_leading_dims(x of rank %d, num_dims=%d)" % (r, k)
            try:
                ev, out = run(fi, {x: lay}, {kname: k})
            except Unknown as u:
                res.undecide(tag, str(u))
                continue
            except Mismatch as m:
                fail(fi, "layout of merge_leading_dims", "%s: %s" % (tag, m.msg))
                continue
            except RaisesExc as ex:
                if k > r and ex.exc == "ValueError":
                    n_ok += 1
                else:
                    fail(fi, "errors of merge_leading_dims", "%s raises %s%s" % (tag, ex.exc, "; more leading dims than the tensor has must be a ValueError" if k > r else " for a valid argument"))
                continue
            if k > r:
                fail(fi, "errors of merge_leading_dims", "%s must raise ValueError (more leading dims than the tensor has)" % tag)
                continue
            want = (tuple(a for g in lay[:k] for a in g),) + tuple(lay[k:])
            if isinstance(out, tuple) and out and out[0] == "py" or _labels(out) != _labels(want) or ev.reduced:
                fail(fi, "layout of merge_leading_dims", "%s returns %s; it must merge the first %d axes in order and keep the rest: %s" % (tag, show(out) if not (out and out[0] == "py") else out, k, show(want)))
            else:
                n_ok += 1
    if n_ok:
        res.ok("merge_leading_dims: %d (rank, num_dims) combinations: first num_dims axes merged row-major, rest kept; ValueError beyond the rank" % n_ok)

    # ---- split_leading_dim: the inverse of a merge ---------------------------------------------------
    fi = _fn(p, TU, "split_leading_dim")
    x, shp = [a for a, _ in fi.params()][:2]
    n_ok = 0
    for r in range(1, max_rank):
        for m in (1, 2, 3):
            parts = tuple(("b%d" % i, "S%d" % i, False) for i in range(m))
            rest = _atoms(r - 1, "c")
            lay = (parts,) + rest
            for wild in [None] + list(range(m)):
                shape_val = [(-1 if i == wild else Sz([parts[i][1]])) for i in range(m)]
                tag = "split_leading_dim(x = %s, shape=%s)" % (show(lay), ["-1" if v == -1 else v.syms[0] for v in shape_val])
                try:
                    ev, out = run(fi, {x: lay}, {shp: shape_val})
                except Unknown as u:
                    res.undecide(tag, str(u))
                    continue
                except Mismatch as mm:
                    fail(fi, "layout of split_leading_dim", "%s: %s" % (tag, mm.msg))
                    continue
                except RaisesExc as ex:
                    fail(fi, "split_leading_dim raises", "%s raises %s for a valid argument" % (tag, ex.exc))
                    continue
                want = tuple((a,) for a in parts) + rest
                if isinstance(out, tuple) and out and out[0] == "py" or _labels(out) != _labels(want) or ev.reduced:
                    fail(fi, "layout of split_leading_dim", "%s returns %s; the leading axis must be split into the given shape, in order, and the other axes kept (the inverse of merge_leading_dims): %s" % (tag, show(out), show(want)))
                else:
                    n_ok += 1
    if n_ok:
        res.ok("split_leading_dim: %d combinations: the inverse regrouping of merge_leading_dims" % n_ok)

    # ---- repeat_rows ---------------------------------------------------------------------------------
    fi = _fn(p, TU, "repeat_rows")
    x, n = [a for a, _ in fi.params()][:2]
    n_ok = 0
    for r in range(1, max_rank):
        lay = _atoms(r)
        tag = "repeat_rows(x of rank %d, num_reps=n)" % r
        try:
            ev, out = run(fi, {x: lay}, {n: Sz(["n"])})
        except Unknown as u:
            res.undecide(tag, str(u))
            continue
        except Mismatch as m:
            fail(fi, "layout of repeat_rows", "%s: %s" % (tag, m.msg))
            continue
        except RaisesExc as ex:
            fail(fi, "repeat_rows raises", "%s raises %s for a valid argument" % (tag, ex.exc))
            continue
        got = _labels(out) if not (out and out[0] == "py") else None
        want = ((lay[0][0][0], "rep[n]"),) + _labels(lay[1:])
        if got != want:
            tiled = got is not None and got and got[0] == ("rep[n]", lay[0][0][0])
            fail(fi, "layout of repeat_rows", "%s returns %s; every row must be repeated consecutively (r0,r0,..,r1,r1,..): %s%s" % (tag, show(out) if got is not None else out, "[(a0*rep[n])%s]" % "".join(", " + g[0] for g in _labels(lay[1:])), " -- this tiles the whole tensor instead (r0,r1,..,r0,r1,..)" if tiled else ""))
        else:
            n_ok += 1
    if n_ok:
        res.ok("repeat_rows: %d ranks: [R, ...] -> [R (x) n, ...], each row repeated consecutively" % n_ok)
    return res


def search_rule(ctx):
    p = ctx.p
    res = RuleResult("UT-SEARCH", "searchsorted returns sum_k [x >= knot_k] - 1 over the last axis (half-open bins), with the epsilon on the last knot only")
    fi = _fn(p, TU, "searchsorted")
    params = [a for a, _ in fi.params()]
    knots, x = params[0], params[1]
    eps = params[2] if len(params) > 2 else None
    from ..canon import canon

    for path in _single_return(fi):
        r = canon(path.ret)  # one spelling: torch.f(receiver, positional arguments), operators, oriented comparisons
        okc = False
        why = "not `torch.sum(inputs[..., None] >= knots, dim=-1) - 1`"
        from ..astutil import as_reduction

        recognised = False
        red = as_reduction(r.left, ("sum",)) if isinstance(r, ast.BinOp) and isinstance(r.op, ast.Sub) and const_number(r.right) == 1 else None
        if red is None and as_reduction(r, ("sum",)) is not None and isinstance(as_reduction(r, ("sum",))[1], ast.Compare):
            recognised = True
            why = "the count of knots at or left of the input is returned without `- 1`: every bin index is one too large"
        if red is not None:
            _, c, dim = red
            while isinstance(c, ast.Call) and isinstance(c.func, ast.Attribute) and c.func.attr in ("long", "int", "float") and not c.args:
                c = c.func.value
            if isinstance(c, ast.Compare) and len(c.ops) == 1 and dim is not None and const_number(dim) == -1:
                l, rr = c.left, c.comparators[0]
                op = type(c.ops[0])
                # knots <= x[..., None] is the same comparison written from the other side
                flip = {ast.LtE: ast.GtE, ast.Lt: ast.Gt, ast.GtE: ast.LtE, ast.Gt: ast.Lt}
                xforms = ("%s[...,None]" % x, "%s.unsqueeze(-1)" % x, "torch.unsqueeze(%s,-1)" % x)
                if norm_text(rr).replace(" ", "") in xforms and op in flip:
                    l, rr, op = rr, l, flip[op]
                lt = norm_text(l).replace(" ", "")
                is_x = lt in xforms
                core, stores = strip_stores(rr)
                shifted_all = False
                if isinstance(core, ast.BinOp) and isinstance(core.op, ast.Add) and eps is not None and eps in (norm_text(core.left), norm_text(core.right)):
                    core = core.right if norm_text(core.left) == eps else core.left
                    shifted_all = True
                core_is_knots = isinstance(core, ast.Name) and core.id == knots or (isinstance(core, ast.Call) and norm_text(core.func) in ("%s.clone" % knots,) and not core.args) or (isinstance(core, ast.Call) and norm_text(core.func) == "torch.clone" and len(core.args) == 1 and norm_text(core.args[0]) == knots)
                if shifted_all and core_is_knots:
                    recognised = True
                    why = "the epsilon is added to every knot, not only the last one: all bin edges move and inputs on a knot fall into the bin to its left"
                elif is_x and op is ast.GtE and core_is_knots:
                    okc = True
                    recognised = True
                    # epsilon: one store on (..., -1) adding eps
                    if eps is not None:
                        good = [1 for idx, val in stores if norm_text(idx).replace(" ", "") == "(...,-1)" and eps in {n.id for n in ast.walk(val) if isinstance(n, ast.Name)}]
                        if len(good) == 1 and len(stores) == 1:
                            res.ok("searchsorted: eps added to the last knot only")
                        else:
                            res.fail(Finding("UT-SEARCH", fi.module, fi.qualname, path.ret_node, "the right-edge epsilon must be added to the last knot only (found %d knot stores)" % len(stores)))
                elif is_x and op is ast.Gt and core_is_knots:
                    recognised = True
                    why = "comparator `>` makes the bins (l, r]: an input equal to a knot falls into the bin to its left, and the lower end-point gets index -1"
                elif is_x and op in (ast.LtE, ast.Lt) and core_is_knots:
                    recognised = True
                    why = "the comparison counts the knots to the right of the input instead of those at or to its left"
                elif core_is_knots and not is_x:
                    recognised = True
                    why = "the comparison must broadcast inputs[..., None] against the knots"
            elif isinstance(c, ast.Compare) and dim is not None and const_number(dim) is not None and const_number(dim) != -1:
                recognised = True
                why = "the count of knots must be taken over the last axis (dim=-1)"
        if not okc and not recognised:
            res.undecide("searchsorted", "the bin search is not of the form sum(inputs[..., None] >= knots, dim=-1) - 1 in any known spelling")
            continue
        if okc:
            res.ok("searchsorted: sum(inputs[..., None] >= knots, dim=-1) - 1")
        else:
            res.fail(Finding("UT-SEARCH", fi.module, fi.qualname, path.ret_node, "bin search is " + why))
    return res


def _is_zeros_of(core, n):
    """torch.zeros(n) in any spelling: with dtype= / device= keywords, followed by .byte() / .to(..) / .long() ..."""
    e = core
    for _ in range(4):
        if isinstance(e, ast.Call) and isinstance(e.func, ast.Attribute) and e.func.attr in ("byte", "bool", "long", "int", "float", "to", "type", "contiguous") and not (isinstance(e.func.value, ast.Name) and e.func.value.id == "torch"):
            e = e.func.value
        else:
            break
    if isinstance(e, ast.Call) and norm_text(e.func) in ("torch.zeros",) and e.args:
        a0 = e.args[0]
        if isinstance(a0, (ast.Tuple, ast.List)) and len(a0.elts) == 1:
            a0 = a0.elts[0]
        return norm_text(a0) == n and len(e.args) == 1
    return False


def _is_ones_of(e, n):
    """torch.ones(n) in any spelling (dtype= keyword, .float() ..)"""
    for _ in range(4):
        if isinstance(e, ast.Call) and isinstance(e.func, ast.Attribute) and e.func.attr in ("float", "double", "to", "type", "contiguous") and not (isinstance(e.func.value, ast.Name) and e.func.value.id == "torch"):
            e = e.func.value
        else:
            break
    if isinstance(e, ast.Call) and norm_text(e.func) == "torch.ones" and len(e.args) == 1:
        a0 = e.args[0]
        if isinstance(a0, (ast.Tuple, ast.List)) and len(a0.elts) == 1:
            a0 = a0.elts[0]
        return norm_text(a0) == n
    return False


def mask_rule(ctx):
    p = ctx.p
    res = RuleResult("UT-MASK", "mask constructors: alternating stride-2 pattern, prefix of length ceil(n/2), ceil(n/2) indices drawn without replacement; all start from zeros and add 1")

    from ..astutil import int_formula_verdict

    half_notes = []

    path_conds = []

    def ceil_half(e, n):
        """True / False / None: is `e` ceil(n / 2) for every size n >= 1 that takes this path?
        Decided by evaluating the closed integer formula on n = 1..96 (any spelling: //, %, >>,
        math.ceil, divmod, a helper with one return per parity ...)."""
        if e is None:
            return None
        v = int_formula_verdict(e, n, lambda k: (k + 1) // 2, lo=1, hi=(4096 if getattr(ctx, "tier", "quick") == "thorough" else 96), conds=path_conds)
        if v is True or v is None:
            return v
        half_notes.append("`%s` gives %s for %s = %d; ceil(%s / 2) is %d" % (norm_text(e), v[2], n, v[1], n, v[3]))
        return False

    # alternating
    fi = _fn(p, TU, "create_alternating_binary_mask")
    n, even = (a for a, _ in fi.params())
    from ..shapeeval import ShapeEval
    from ..axes import Unknown as _Unk

    # one scenario per value of `even` (the choice of the start may be an expression, a branch, a table ...)
    for ev_, want in ((True, 0), (False, 1)):
        paths = _single_return(fi, {even: ev_})
        if not paths:
            res.undecide("create_alternating_binary_mask", "no returning path for even=%s" % ev_)
        for path in paths:
            core, stores = strip_stores(path.ret)
            ct = norm_text(core).replace(" ", "")
            zero = _is_zeros_of(core, n)
            okst = False
            if len(stores) == 1:
                idx, val = stores[0]
                vt = norm_text(val).replace(" ", "")
                sl = idx
                if isinstance(sl, ast.Slice) and sl.upper is None and const_number(sl.step) == 2:
                    try:
                        lo = 0 if sl.lower is None else ShapeEval({}, {even: ev_}, p, fi.module).py(sl.lower)
                        if isinstance(lo, (bool, int)) and int(lo) == want:
                            okst = vt.endswith("+1") or vt == "1"
                    except _Unk:
                        pass
            if zero and okst:
                res.ok("create_alternating_binary_mask(even=%s): zeros; mask[%d::2] += 1" % (ev_, want))
            else:
                res.fail(Finding("UT-MASK", fi.module, fi.qualname, path.ret_node, "alternating mask must start from zeros and set every second entry starting at 0 (even=True) or 1 (even=False)"))
    # mid split
    fi = _fn(p, TU, "create_mid_split_binary_mask")
    n = fi.params()[0][0]
    for path in _single_return(fi):
        path_conds[:] = [(et, pol) for et, raw, pol in path.conds]
        core, stores = strip_stores(path.ret)
        zero = _is_zeros_of(core, n)
        okst = False
        half = None
        if len(stores) == 1 and isinstance(stores[0][0], ast.Slice) and stores[0][0].lower is None and stores[0][0].step is None:
            half = ceil_half(stores[0][0].upper, n)
            vt = norm_text(stores[0][1]).replace(" ", "")
            okst = bool(half) and (vt.endswith("+1") or vt == "1")
        if zero and okst:
            res.ok("create_mid_split_binary_mask: zeros; mask[:ceil(n/2)] += 1")
        elif half is None and len(stores) == 1 and zero:
            res.undecide("create_mid_split_binary_mask", "the prefix length `%s` is not a closed integer formula of %s" % (norm_text(stores[0][0])[:60], n))
        else:
            res.fail(Finding("UT-MASK", fi.module, fi.qualname, path.ret_node, "mid-split mask must be ones on the prefix of length ceil(features / 2)" + ("".join("; " + x for x in half_notes[-1:]))))
    # random
    fi = _fn(p, TU, "create_random_binary_mask")
    n = fi.params()[0][0]
    for path in _single_return(fi):
        path_conds[:] = [(et, pol) for et, raw, pol in path.conds]
        core, stores = strip_stores(path.ret)
        zero = _is_zeros_of(core, n)
        okst = False
        if len(stores) == 1:
            idx = stores[0][0]
            if isinstance(idx, ast.Call) and norm_text(idx.func) == "torch.multinomial":
                kw = {k.arg: k.value for k in idx.keywords}
                ns = kw.get("num_samples", idx.args[1] if len(idx.args) > 1 else None)
                rep = kw.get("replacement", idx.args[2] if len(idx.args) > 2 else None)
                w = kw.get("input", idx.args[0] if idx.args else None)
                uniform = w is not None and _is_ones_of(w, n)
                half = ceil_half(ns, n)
                if half and (rep is None or (isinstance(rep, ast.Constant) and rep.value is False)) and uniform:
                    okst = True
                elif half is None and uniform:
                    okst = None
            elif isinstance(idx, ast.Subscript) and "randperm" in norm_text(idx):
                half = ceil_half(idx.slice.upper, n) if isinstance(idx.slice, ast.Slice) else False
                okst = None if half is None else bool(half)
        if zero and okst:
            res.ok("create_random_binary_mask: ceil(n/2) distinct indices, uniformly, set to 1")
        elif zero and okst is None:
            res.undecide("create_random_binary_mask", "the number of ones is not a closed integer formula of %s" % n)
        else:
            res.fail(Finding("UT-MASK", fi.module, fi.qualname, path.ret_node, "random mask must set exactly ceil(features / 2) distinct, uniformly drawn positions (multinomial(ones, ceil(n/2), replacement=False))" + ("".join("; " + x for x in half_notes[-1:]))))
    return res


PRED_DOMAIN = [-3, -1, 0, 1, 2, 3, 4, 5, 6, 7, 8, 12, 16, 24, 32, True, False, 2.0, 2.5, -1.5, 0.0, None, "3", "", [3], (2,)]


def _pred_spec(name, v):
    is_int = isinstance(v, int)
    if name == "is_bool":
        return isinstance(v, bool)
    if name == "is_int":
        return is_int
    if name == "is_positive_int":
        return is_int and v > 0
    if name == "is_nonnegative_int":
        return is_int and v >= 0
    if name == "is_power_of_two":
        return is_int and v > 0 and (int(v) & (int(v) - 1)) == 0
    raise KeyError(name)


def pred_rule(ctx):
    """UT-PRED by evaluation of the predicates' own source (the checker's evaluator,
    nfstatic/shapeeval.py -- no code of the repository is run) on a domain of ints of both signs,
    bools, floats with and without a fractional part, None, strings and sequences, against the
    documented meaning; and of the four validating helpers on invalid counts (TypeError)."""
    from ..axes import Mismatch, Unknown
    from ..shapeeval import ShapeEval, RaisesExc, Sz

    p = ctx.p
    res = RuleResult("UT-PRED", "the type-check predicates mean what they say for ints of both signs, bools, floats, None, strings and sequences; the helpers reject invalid counts with TypeError")
    thorough = getattr(ctx, "tier", "quick") == "thorough"
    domain = list(PRED_DOMAIN) + (list(range(-20, 70)) if thorough else [])
    for name in ("is_bool", "is_int", "is_positive_int", "is_nonnegative_int", "is_power_of_two"):
        fi = _fn(p, TC, name)
        arg = fi.params()[0][0]
        bad = None
        undec = None
        n_ok = 0
        for v in domain:
            ev = ShapeEval({}, {arg: v}, p, fi.module)
            ev.builtin_predicates = False
            try:
                r = ev.run(fi)
                got = bool(r[1]) if isinstance(r, tuple) and len(r) == 2 and r[0] == "py" and isinstance(r[1], (bool, int)) else ("value", r)
            except RaisesExc as ex:
                got = ("raises", ex.exc)
            except (Unknown, Mismatch) as u:
                undec = "%s(%r): %s" % (name, v, u)
                continue
            want = _pred_spec(name, v)
            if got != want:
                bad = bad or (v, got, want)
            else:
                n_ok += 1
        if bad is not None:
            v, got, want = bad
            res.fail(Finding("UT-PRED", fi.module, fi.qualname, fi.node, "%s(%r) evaluates to %s; the documented meaning gives %s" % (name, v, got, want), construct="meaning of " + name))
        elif undec is not None:
            res.undecide(name, undec)
        else:
            res.ok("%s agrees with its documented meaning on %d values" % (name, n_ok))
    # validation in the helpers: invalid counts end in TypeError
    x1 = ((("a0", "A0", False),), (("a1", "A1", False),))
    checks = [("tile", "n", [0, -1, 2.5, "2", None]), ("sum_except_batch", "num_batch_dims", [-1, 1.0, "1", None]), ("merge_leading_dims", "num_dims", [0, -1, 2.5, "1", None]), ("repeat_rows", "num_reps", [0, -2, 1.5, "3", None])]
    for fname, param, invalid in checks:
        fi = _fn(p, TU, fname)
        params = [a for a, _ in fi.params()]
        if param not in params:
            res.undecide(fname, "parameter %s missing" % param)
            continue
        tensor_param = params[0]
        bad = None
        undec = None
        for v in invalid:
            ev = ShapeEval({tensor_param: x1}, {param: v}, p, fi.module)
            ev.builtin_predicates = False
            try:
                ev.run(fi)
                got = "returns a result"
            except RaisesExc as ex:
                got = None if ex.exc == "TypeError" else "raises %s" % ex.exc
            except (Unknown, Mismatch) as u:
                if getattr(u, "past_guards", False) or isinstance(u, Mismatch):
                    got = "passes every check and is used (%s)" % str(u)[:60]
                else:
                    undec = "%s(.., %s=%r): %s" % (fname, param, v, str(u)[:80])
                    continue
            if got is not None:
                bad = bad or (v, got)
        if bad is None and undec is not None:
            res.undecide(fname, undec)
        elif bad is not None:
            res.fail(Finding("UT-PRED", fi.module, fi.qualname, fi.node, "%s(.., %s=%r) %s; it must raise TypeError" % (fname, param, bad[0], bad[1]), construct="validation of %s in %s" % (param, fname)))
        else:
            res.ok("%s: TypeError for %s in %s" % (fname, param, invalid))
    return res


def form_rule(ctx):
    p = ctx.p
    res = RuleResult("UT-FORM", "cbrt = sign(x) * exp(log|x| / 3); logabsdet = slogdet(x)[1] (sign handling present; values not checked)")
    fi = _fn(p, TU, "cbrt")
    x = fi.params()[0][0]
    from ..canon import canon_text, canon_of_source

    for path in _single_return(fi):
        t = canon_text(path.ret).replace(" ", "")
        forms = ("torch.sign(%s)*torch.exp(torch.log(torch.abs(%s))/3.0)" % (x, x), "torch.sign(%s)*torch.exp(torch.log(torch.abs(%s))/3)" % (x, x), "torch.sign(%s)*torch.abs(%s)**(1/3)" % (x, x), "torch.sign(%s)*torch.pow(torch.abs(%s),1/3)" % (x, x), "torch.sign(%s)*torch.abs(%s).pow(1/3)" % (x, x), "torch.sign(%s)*torch.abs(%s).pow(1.0/3.0)" % (x, x))
        forms = tuple(canon_of_source(f).replace(" ", "") for f in forms)
        if t in forms:
            res.ok("cbrt: sign(x) * |x|^(1/3)")
        else:
            has_sign = "torch.sign(%s)" % x in t or ".sign()" in t
            has_abs = "torch.abs(%s)" % x in t or "%s.abs()" % x in t
            third = "/3" in t or "1/3" in t
            # the magnitude must reach the root unaltered: a floor / offset on |x| (clamp(min=eps), + eps, maximum)
            # makes cbrt(x) ** 3 != x for every non-zero x it acts on
            altered = None
            from ..symexp import uwalk as _uw

            def mentions_abs(e):
                return any((isinstance(n, ast.Call) and ((isinstance(n.func, ast.Attribute) and n.func.attr == "abs") or (isinstance(n.func, ast.Name) and n.func.id == "abs"))) for n in _uw(e))

            for n in _uw(path.ret):
                if isinstance(n, ast.Call):
                    last = n.func.attr if isinstance(n.func, ast.Attribute) else (n.func.id if isinstance(n.func, ast.Name) else "")
                    if last in ("clamp", "clamp_min", "clip", "maximum", "max", "fmax", "relu", "threshold", "add", "nan_to_num", "where", "masked_fill") and any(mentions_abs(a) for a in list(n.args) + ([n.func.value] if isinstance(n.func, ast.Attribute) else [])):
                        altered = n
                        break
                if isinstance(n, ast.BinOp) and isinstance(n.op, (ast.Add, ast.Sub)) and (mentions_abs(n.left) or mentions_abs(n.right)):
                    altered = n
                    break
            if altered is not None:
                res.fail(Finding("UT-FORM", fi.module, fi.qualname, path.ret_node, "cbrt alters the magnitude before taking the root (`%s`): for every non-zero x the alteration acts on (|x| below a floor, or shifted by an offset) the result is the cube root of something else -- cbrt(x) ** 3 != x, and the value no longer depends on x there" % norm_text(altered)[:70], construct="magnitude of cbrt"))
            elif has_sign and has_abs and third:
                res.ok("cbrt: sign and magnitude handled separately")
            else:
                res.fail(Finding("UT-FORM", fi.module, fi.qualname, path.ret_node, "cbrt must combine torch.sign(x) with the cube root of |x| (sign %s, abs %s, third %s): negative inputs otherwise give NaN or the wrong sign" % (has_sign, has_abs, third)))
    fi = _fn(p, TU, "logabsdet")
    x = fi.params()[0][0]
    for path in _single_return(fi):
        r = path.ret
        okl = False
        if is_component(r) and isinstance(r.args[0], ast.Call) and norm_text(r.args[0].func) in ("torch.slogdet", "torch.linalg.slogdet") and r.args[1].value == 1 and norm_text(r.args[0].args[0]) == x:
            okl = True
        t = canon_text(r).replace(" ", "")
        if t in ("torch.slogdet(%s)[1]" % x, "torch.linalg.slogdet(%s)[1]" % x, "torch.slogdet(%s).logabsdet" % x, "torch.linalg.slogdet(%s).logabsdet" % x, "torch.log(torch.abs(torch.det(%s)))" % x):
            okl = True
        if okl:
            res.ok("logabsdet: second component of slogdet")
        else:
            res.fail(Finding("UT-FORM", fi.module, fi.qualname, path.ret_node, "logabsdet must be the log-abs component of slogdet (torch.logdet is NaN for negative determinants; component 0 is the sign)"))
    return res


def tile_util_rule(ctx):
    r = tile_rule(ctx)
    r.rule = "UT-TILE"
    for f in r.findings:
        f.rule = "UT-TILE"
    return r


# ---------------------------------------------------------------------------------------
# UT-ARGS: no helper mutates a Python container argument (lists / dicts of shapes, sizes ...)
# ---------------------------------------------------------------------------------------

_PY_MUTATORS = {"append", "extend", "insert", "pop", "remove", "reverse", "clear", "update", "setdefault", "popitem", "discard"}


def _may_alias(e, aliases):
    """may the value of `e` be the very object one of the names in `aliases` holds?"""
    if isinstance(e, ast.Name):
        return e.id in aliases
    if isinstance(e, ast.IfExp):
        return _may_alias(e.body, aliases) or _may_alias(e.orelse, aliases)
    if isinstance(e, ast.BoolOp):
        return any(_may_alias(v, aliases) for v in e.values)
    if isinstance(e, ast.NamedExpr):
        return _may_alias(e.value, aliases)
    return False  # calls, displays, arithmetic, slices build new objects


def py_args_rule(ctx):
    """The tensor side of "none of them modifies its arguments" is UT-PURE (ownership analysis); this
    is the Python side: a list / dict argument (a shape, a list of sizes) must not be extended,
    appended to, sorted, cleared or augmented in place -- directly or through a local that may be the
    same object (`new = shape if isinstance(shape, list) else list(shape); new += ...`).  `x += y` on
    a may-alias counts when the parameter can be a list: the function tests isinstance(p, list), its
    default is a list, or some call site in the repository passes a list display."""
    p = ctx.p
    res = RuleResult("UT-ARGS", "no helper mutates a Python container it was given (append / extend / += / sort / clear / item deletion on an argument or a local that may be the same object)")
    funcs = [fi for fi in p.all_functions() if fi.module.name in (TU, TC) and fi.cls is None]
    # call sites: which parameters receive list / dict displays somewhere in the repository?
    listy = {}
    for caller in p.all_functions():
        for n in ast.walk(caller.node):
            if not isinstance(n, ast.Call):
                continue
            nm = n.func.attr if isinstance(n.func, ast.Attribute) else (n.func.id if isinstance(n.func, ast.Name) else None)
            for fi in funcs:
                if nm != fi.name:
                    continue
                params = [a for a, _ in fi.params()]
                for i, a in enumerate(n.args):
                    if i < len(params) and isinstance(a, (ast.List, ast.ListComp, ast.Dict, ast.DictComp, ast.Set)):
                        listy.setdefault((fi.qualname, params[i]), []).append("%s:%d" % (caller.module.relpath, n.lineno))
                for k in n.keywords:
                    if k.arg in params and isinstance(k.value, (ast.List, ast.ListComp, ast.Dict, ast.DictComp, ast.Set)):
                        listy.setdefault((fi.qualname, k.arg), []).append("%s:%d" % (caller.module.relpath, n.lineno))
    n_checked = 0
    for fi in funcs:
        params = [a for a, _ in fi.params()]
        defaults = dict(fi.params())
        for prm in params:
            aliases = {prm}
            changed = True
            while changed:
                changed = False
                for n in ast.walk(fi.node):
                    if isinstance(n, ast.Assign) and _may_alias(n.value, aliases):
                        for t in n.targets:
                            if isinstance(t, ast.Name) and t.id not in aliases:
                                aliases.add(t.id)
                                changed = True
            can_be_list = bool(listy.get((fi.qualname, prm))) or isinstance(defaults.get(prm), (ast.List, ast.Dict)) or any(
                isinstance(n, ast.Call) and isinstance(n.func, ast.Name) and n.func.id == "isinstance" and len(n.args) == 2 and isinstance(n.args[0], ast.Name) and n.args[0].id == prm and any(isinstance(x, ast.Name) and x.id in ("list", "dict", "set") for x in ast.walk(n.args[1]))
                for n in ast.walk(fi.node)
            )
            for n in ast.walk(fi.node):
                what = None
                if isinstance(n, ast.Expr) and isinstance(n.value, ast.Call) and isinstance(n.value.func, ast.Attribute) and isinstance(n.value.func.value, ast.Name) and n.value.func.value.id in aliases and (n.value.func.attr in _PY_MUTATORS or n.value.func.attr == "sort"):
                    what = "`%s`" % norm_text(n.value)[:50]
                elif isinstance(n, ast.Delete) and any(isinstance(t, ast.Subscript) and isinstance(t.value, ast.Name) and t.value.id in aliases for t in n.targets):
                    what = "`%s`" % norm_text(n)[:50]
                elif isinstance(n, ast.AugAssign) and isinstance(n.target, ast.Name) and n.target.id in aliases and can_be_list and isinstance(n.op, (ast.Add, ast.Mult, ast.BitOr)):
                    what = "`%s` (an in-place extension when `%s` is a list)" % (norm_text(n)[:50], prm)
                if what is None:
                    continue
                sites = listy.get((fi.qualname, prm), [])
                via = "" if (isinstance(n, ast.AugAssign) and n.target.id == prm) or (isinstance(n, ast.Expr) and n.value.func.value.id == prm) else " through a local that may be the same object"
                res.fail(Finding("UT-ARGS", fi.module, fi.qualname, n, "%s modifies its argument `%s`%s: %s -- the caller's object changes (a second call with the same list sees the extended one)%s" % (fi.name, prm, via, what, ("; lists are passed at " + ", ".join(sites[:3])) if sites else "")))
            n_checked += 1
    if n_checked < getattr(ctx, "ut_args_floor", 15):
        raise AnalysisIncomplete("UT-ARGS: %d (function, parameter) pairs (< 15)" % n_checked)
    res.ok("%d (helper, parameter) pairs: no append / extend / += / sort / clear / del on an argument or a may-alias of it" % n_checked)
    return res


register(
    "C20",
    [c20_pure, py_args_rule, reshape_rule, tile_util_rule, search_rule, mask_rule, pred_rule, form_rule, c20_dtype],
    "For every function exported by nflows/utils/__init__.py. UT-PURE: the ownership analysis of C13 with each helper as its own "
    "entry point: no write may reach storage aliasing an argument. UT-RESHAPE / UT-TILE: symbolic layout of tile ([L] -> "
    "[L (x) n]) and repeat_rows ([R,...] -> [R (x) n,...]); merge_leading_dims / split_leading_dim are single reshapes with "
    "targets (-1,)+x.shape[k:] and shape+x.shape[1:] (mutually inverse views of one row-major buffer); sum_except_batch reduces "
    "exactly range(num_batch_dims, ndim). UT-SEARCH: sum(inputs[...,None] >= knots, -1) - 1 with the epsilon on the last knot "
    "only. UT-MASK: pattern/count structure of the three mask constructors. UT-PRED: predicate bodies and TypeError validation "
    "dominating use. UT-DTYPE: the dtype-provenance engine of C19 over the helpers. UT-FORM: sign handling present in cbrt and "
    "logabsdet. Cube-root and log-abs-det numerics are NOT decided.",
    [T_OPS, "isinstance(True, int) is true in Python: whether is_int(True) should hold is a matter of specification and only noted"],
)
