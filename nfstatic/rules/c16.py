"""C16 -- differentiability: no gradient-severing construct on a path to a returned float
result (GRAD-CUT); every trainable parameter reaches a result (GRAD-REACH)."""

import ast

from ..astutil import const_number
from ..entries import enumerate_entries, entry_args
from ..interp import Interp, OBJ, E, AV, T, TUP, all_ann
from ..model import AnalysisIncomplete, PARAM, norm_text
from ..report import Finding, RuleResult
from ..taint import TaintDomain
from . import register, A_NET, A_UMNN, T_OPS


class GradDomain(TaintDomain):
    """Labels: ('CUT', file, line, text) gradient severed there; ('P', class, attr) a trainable
    parameter.  Comparisons / integer-valued ops are honestly piecewise constant: they clear CUT."""

    name = "grad"

    def __init__(self):
        self.cut_sites = {}

    def src_arg(self, func, pname):
        return E

    def src_state(self, interp, path, attrinfo, node):
        if attrinfo is not None and attrinfo.kind == PARAM or (attrinfo is not None and any(a.kind == PARAM for a in attrinfo.alts)):
            return {("P", attrinfo.cls.name, ".".join(path))}
        return E

    def _cut(self, interp, node, what):
        if what.startswith("computed under"):
            ns = interp.frame.nograd_site()
            if ns is not None:
                f, wnode = ns
                site = ("CUT", f.func.module.relpath, f.func.qualname, "with torch.no_grad()")
                self.cut_sites.setdefault(site, (f.func, wnode, what))
                return site
        fi = interp.frame.func
        site = ("CUT", fi.module.relpath, fi.qualname, norm_text(_stmt(node))[:100])
        self.cut_sites.setdefault(site, (fi, node, what))
        return site

    def xfer(self, interp, op, info, anns, recv, args, kwargs, node):
        out = set(anns)
        if info.get("idx") or op == "compare":
            out = {l for l in out if not (isinstance(l, tuple) and l[0] == "CUT")}
            out = {l for l in out if not (isinstance(l, tuple) and l[0] == "P")}
            return out
        tensorish = recv is not None and recv.kind in ("tensor", "top")
        if info.get("cut") and tensorish:
            out.add(self._cut(interp, node, op))
        if op in ("tensor", "Tensor") and any(a.kind == "tensor" for a in args):
            out.add(self._cut(interp, node, "torch.tensor(tensor) copies without history"))
        if interp.frame is not None and interp.frame.in_nograd() and info.get("cat") not in ("scalar",) and (anns or tensorish):
            if any(isinstance(l, tuple) and l[0] == "P" for l in anns) or tensorish:
                out.add(self._cut(interp, node, "computed under torch.no_grad()"))
        return out

    def index_labels(self, ann):
        return E  # INDEX position: a severed value may select, it does not carry a derivative


def _stmt(node):
    from ..model import stmt_of

    return stmt_of(node) or node


SINK_METHODS = {
    "transform": None,  # all
    "distribution": {"log_prob", "_log_prob", "mean", "_mean", "transform_to_noise"},
    "module": {"forward", "log_prob"},
    "spline": None,
}
FLOW_EXTRA = {"sample_and_log_prob", "_sample"}


def is_sink(p, e):
    if e.kind == "util":
        return False
    allowed = SINK_METHODS.get(e.kind)
    if allowed is None:
        return True
    if e.func.name in allowed:
        return True
    if e.cls is not None and e.cls.name == "Flow" or (e.cls is not None and any(c.name == "Flow" for c in e.cls.repo_mro())):
        return e.func.name in FLOW_EXTRA and e.func.cls is not None and e.func.cls.name == "Flow"
    return False


def analyse(p):
    dom = GradDomain()
    it = Interp(p, dom)
    per_entry = []
    for e in enumerate_entries(p):
        if not is_sink(p, e):
            continue
        self_av = OBJ(e.cls) if e.cls is not None and not e.func.is_static else None
        r = it.run_function(e.func, self_av, entry_args(dom, e))
        per_entry.append((e, r))
    return dom, it, per_entry


def _tensor_leaves(v):
    if v is None:
        return []
    if v.kind == "tuple":
        out = []
        for x in v.data:
            out.extend(_tensor_leaves(x))
        return out
    if v.kind == "list":
        items, elem = v.data
        out = []
        for x in items or []:
            out.extend(_tensor_leaves(x))
        if elem is not None:
            out.extend(_tensor_leaves(elem))
        return out
    if v.kind in ("tensor", "top"):
        return [v]
    return []


def findings_cut(p):
    dom, it, per_entry = analyse(p)
    out = []
    for e, r in per_entry:
        for leaf in _tensor_leaves(r):
            for l in leaf.ann:
                if isinstance(l, tuple) and l[0] == "CUT":
                    fi, node, what = dom.cut_sites[l]
                    out.append(Finding("GRAD-CUT", fi.module, fi.qualname, _stmt(node), "gradient is severed here (%s) and the value reaches a returned float result of %s in a value position" % (what, e.label), witness=[e.label]))
    return out


def grad_cut_rule(ctx):
    p = ctx.p
    dom, it, per_entry = ctx.shared("grad", lambda: analyse(p))
    res = RuleResult("GRAD-CUT", "no detached / no_grad / .data / .item() value occupies a value position on a path to a returned float result")
    if len(per_entry) < 150:
        raise AnalysisIncomplete("GRAD-CUT: %d differentiable entry points (< 150 confirmed by hand)" % len(per_entry))
    flagged = set()
    for e, r in per_entry:
        bad = False
        for leaf in _tensor_leaves(r):
            for l in leaf.ann:
                if isinstance(l, tuple) and l[0] == "CUT":
                    fi, node, what = dom.cut_sites[l]
                    bad = True
                    res.fail(Finding("GRAD-CUT", fi.module, fi.qualname, _stmt(node), "gradient is severed here (%s) and the value reaches a returned float result of %s in a value position" % (what, e.label), witness=[e.label]))
                    flagged.add(l)
        if not bad:
            res.ok("%s: returned results carry no severed value" % e.label, nontrivial=bool(_tensor_leaves(r)))
    for site, (fi, node, what) in sorted(dom.cut_sites.items(), key=str):
        if site not in flagged:
            res.ok("severing site %s:%s `%s` (%s) reaches no differentiable result in a value position" % (site[1], site[2], site[3][:50], what))
    res.notes.append("%d severing sites seen, %d reach a result" % (len(dom.cut_sites), len(flagged)))
    return res


def grad_reach_rule(ctx):
    p = ctx.p
    dom, it, per_entry = ctx.shared("grad", lambda: analyse(p))
    res = RuleResult("GRAD-REACH", "every trainable parameter of a transform/distribution class reaches a returned result of some entry point of that class")
    reached = {}
    for e, r in per_entry:
        if e.cls is None:
            continue
        s = reached.setdefault(e.cls, set())
        for leaf in _tensor_leaves(r):
            for l in leaf.ann:
                if isinstance(l, tuple) and l[0] == "P":
                    s.add(l[2].split(".")[-1] if "." not in l[2] else l[2])
    from ..entries import is_abstract

    for cls, got in sorted(reached.items(), key=lambda kv: kv[0].name):
        if is_abstract(cls, ["forward", "_log_prob", "_coupling_transform_forward", "_elementwise_forward", "forward_no_cache", "_piecewise_cdf"]):
            continue
        for name, ai in sorted(p.attrs(cls).items()):
            if ai.kind != PARAM and not any(a.kind == PARAM for a in ai.alts):
                continue
            if name in got:
                res.ok("%s.%s reaches a result" % (cls.name, name))
            else:
                res.fail(Finding("GRAD-REACH", ai.cls.module, "%s.__init__" % ai.cls.name, ai.node, "trainable parameter '%s' of %s never reaches a returned result of forward/inverse/log_prob: it would receive no gradient" % (name, cls.name), construct="parameter %s.%s" % (cls.name, name)))
    if len(res.instances) < 25:
        raise AnalysisIncomplete("GRAD-REACH: %d parameters examined (< 25 confirmed by hand)" % len(res.instances))
    return res


# ---------------------------------------------------------------------------------------
# GRAD-WHERE: torch.where evaluates both branches; a branch that is singular outside the region
# it is selected in yields 0 * inf = NaN in the backward pass
# ---------------------------------------------------------------------------------------

SINGULAR_POS = {"log": "its argument must stay > 0", "log2": "its argument must stay > 0", "log10": "its argument must stay > 0", "sqrt": "d/dx sqrt is infinite at 0", "rsqrt": "infinite at 0", "reciprocal": "infinite at 0"}
SINGULAR_ANY = {"atanh": "infinite at +-1", "acos": "derivative infinite at +-1", "asin": "derivative infinite at +-1", "acosh": "derivative infinite at 1", "log1p": "infinite at -1", "logit": "infinite at 0 and 1", "tan": "poles"}


def _where_ops(c):
    """(condition, a, b) of torch.where(cond, a, b) / a.where(cond, b), else None"""
    f = c.func
    last = f.attr if isinstance(f, ast.Attribute) else (f.id if isinstance(f, ast.Name) else "")
    if last != "where":
        return None
    ops = list(c.args)
    if isinstance(f, ast.Attribute) and not (isinstance(f.value, ast.Name) and f.value.id in ("torch", "np", "numpy")):
        if len(ops) == 2:
            return ops[0], f.value, ops[1]
        return None
    if isinstance(f, ast.Attribute) and isinstance(f.value, ast.Name) and f.value.id in ("np", "numpy"):
        return None
    return tuple(ops) if len(ops) == 3 else None


def _reaching_defs(fn, name, before_line):
    """values assigned to the local `name` by plain assignments that precede the line"""
    out = []
    for n in ast.walk(fn):
        if isinstance(n, ast.Assign) and n.lineno < before_line:
            for t in n.targets:
                if isinstance(t, ast.Name) and t.id == name:
                    out.append(n)
    if not out:
        return []
    last = max(out, key=lambda a: a.lineno)
    # the closest preceding assignment reaches; earlier ones may as well when it sits in a branch
    par = getattr(last, "_parent", None)
    if isinstance(par, (ast.FunctionDef, ast.AsyncFunctionDef)):
        return [last]
    return out


def _depends_on_args(e, fn, line, depth=0, seen=None):
    """does the expression mention a tensor argument of the function (directly or through locals)?"""
    params = {a.arg for a in fn.args.posonlyargs + fn.args.args + fn.args.kwonlyargs} - {"self", "cls"}
    seen = seen if seen is not None else set()
    for n in ast.walk(e):
        if isinstance(n, ast.Name) and isinstance(n.ctx, ast.Load):
            if n.id in params:
                return True
            if n.id in seen or depth > 8:
                continue
            seen.add(n.id)
            for d in _reaching_defs(fn, n.id, line):
                if _depends_on_args(d.value, fn, d.lineno, depth + 1, seen):
                    return True
    return False


def _inline_locals(e, fn, line, depth=0):
    """copy of `e` with single-definition locals replaced by their defining expressions"""
    import copy

    class Sub(ast.NodeTransformer):
        def visit_Name(self, n):
            if isinstance(n.ctx, ast.Load) and depth < 6:
                defs = _reaching_defs(fn, n.id, line)
                if len(defs) == 1 and not any(isinstance(x, ast.Name) and x.id == n.id for x in ast.walk(defs[0].value)):
                    return _inline_locals(defs[0].value, fn, defs[0].lineno, depth + 1)
            return n

    return Sub().visit(copy.deepcopy(e))


def where_sites(p):
    out = []
    for fi in p.all_functions():
        if not fi.module.name.startswith("nflows.") or ".tests" in fi.module.name or fi.module.relpath.startswith("tests"):
            continue
        for n in ast.walk(fi.node):
            if isinstance(n, ast.Call):
                ops = _where_ops(n)
                if ops is not None:
                    owner = n
                    while owner is not None and not isinstance(owner, (ast.FunctionDef, ast.AsyncFunctionDef)):
                        owner = getattr(owner, "_parent", None)
                    if owner is fi.node:
                        out.append((fi, n, ops))
    return out


def _positive_attrs(fi):
    """'POS:self.x' facts the constructor of the function's class establishes: a parameter the constructor
    rejects unless it is > 0 (`if p <= 0: raise`), stored as it is; an attribute assigned an expression that is
    positive given those (np.exp(..), a product / quotient of positives)"""
    from ..sign import sign_of, POS

    cls = getattr(fi, "cls", None)
    init = cls.lookup_method("__init__") if cls is not None else None
    if init is None:
        return ()
    facts = set()
    for st in ast.walk(init.node):
        if isinstance(st, ast.If) and st.body and all(isinstance(b, ast.Raise) for b in st.body) and isinstance(st.test, ast.Compare) and len(st.test.ops) == 1:
            l, op, r = st.test.left, st.test.ops[0], st.test.comparators[0]
            if isinstance(l, ast.Name) and isinstance(op, (ast.LtE,)) and const_number(r) is not None and const_number(r) >= 0:
                facts.add("POS:" + l.id)
            if isinstance(l, ast.Name) and isinstance(op, (ast.Lt,)) and const_number(r) is not None and const_number(r) > 0:
                facts.add("POS:" + l.id)
    changed = True
    rounds = 0
    while changed and rounds < 4:
        changed = False
        rounds += 1
        for st in ast.walk(init.node):
            if isinstance(st, ast.Assign) and len(st.targets) == 1 and isinstance(st.targets[0], ast.Attribute) and isinstance(st.targets[0].value, ast.Name) and st.targets[0].value.id == "self":
                k = "POS:self." + st.targets[0].attr
                if k not in facts and sign_of(st.value, tuple(facts)) == POS:
                    # assigned once only
                    if sum(1 for x in ast.walk(init.node) if isinstance(x, ast.Attribute) and isinstance(x.ctx, ast.Store) and x.attr == st.targets[0].attr) == 1:
                        facts.add(k)
                        changed = True
    return tuple(sorted(facts))


def where_findings(p, res=None):
    from ..sign import sign_of, POS

    found = []
    for fi, call, (cond, a, b) in where_sites(p):
        bad = []
        guards = _positive_attrs(fi)
        for which, br in (("first", a), ("second", b)):
            if not _depends_on_args(br, fi.node, call.lineno + 1):
                continue
            e = _inline_locals(br, fi.node, call.lineno + 1)
            for n in ast.walk(e):
                arg, why = None, None
                if isinstance(n, ast.Call):
                    f = n.func
                    last = f.attr if isinstance(f, ast.Attribute) else (f.id if isinstance(f, ast.Name) else "")
                    host = isinstance(f, ast.Attribute) and isinstance(f.value, ast.Name) and f.value.id in ("np", "numpy", "math")
                    if host or (last not in SINGULAR_POS and last not in SINGULAR_ANY):
                        continue
                    is_mod = isinstance(f, ast.Attribute) and isinstance(f.value, ast.Name) and f.value.id in ("torch", "F")
                    arg = (n.args[0] if n.args else None) if is_mod or isinstance(f, ast.Name) else f.value
                    if arg is None:
                        continue
                    if last in SINGULAR_POS and sign_of(arg, guards) == POS:
                        continue
                    why = "%s(%s): %s" % (last, norm_text(arg)[:50], SINGULAR_POS.get(last) or SINGULAR_ANY[last])
                elif isinstance(n, ast.BinOp) and isinstance(n.op, ast.Div):
                    if const_number(n.right) is not None or sign_of(n.right, guards) == POS:
                        continue
                    arg = n.right
                    why = "division by `%s`, which is not bounded away from 0" % norm_text(arg)[:50]
                elif isinstance(n, ast.BinOp) and isinstance(n.op, ast.Pow):
                    k = const_number(n.right)
                    if k is not None and float(k).is_integer() and k >= 0:
                        continue
                    if sign_of(n.left, guards) == POS:
                        continue
                    arg = n.left
                    why = "`%s` raised to a negative / fractional / non-constant power" % norm_text(arg)[:50]
                if why is None:
                    continue
                # a singular operation of something that does not depend on the rows is singular
                # (or not) for every element alike: not a matter of the region
                if not any(isinstance(x, ast.Name) for x in ast.walk(arg)) or not _depends_on_args(arg, fi.node, 0):
                    pn = {a.arg for a in fi.node.args.posonlyargs + fi.node.args.args + fi.node.args.kwonlyargs} - {"self", "cls"}
                    if not any(isinstance(x, ast.Name) and x.id in pn for x in ast.walk(arg)):
                        continue
                bad.append((which, why))
        if bad:
            which, why = bad[0]
            found.append(Finding("GRAD-WHERE", fi.module, fi.qualname, _stmt(call), "torch.where evaluates both branches for every element and back-propagates a zero cotangent into the unselected one; the %s branch contains %s -- at an element outside `%s` where that operation is singular the backward pass computes 0 * inf = NaN, for the inputs and for every upstream parameter (the forward values are unaffected)" % (which, why, norm_text(cond)[:50])))
        elif res is not None:
            res.ok("%s:%s `%s`: neither branch is singular off its region" % (fi.module.relpath, fi.qualname, norm_text(call)[:60]))
    return found


def grad_where_rule(ctx):
    p = ctx.p
    res = RuleResult("GRAD-WHERE", "no branch of a torch.where is singular (log / division / root / negative power of a row-dependent value not proven positive) outside the region it is selected in")
    for f in where_findings(p, res):
        res.fail(f)
    n = len(where_sites(p))
    res.notes.append("%d torch.where sites in nflows" % n)
    if n == 0:
        res.ok("no torch.where in nflows: region-wise definitions use masked gather / scatter, whose backward touches only the selected elements (T-OPS)", nontrivial=False)
    return res


# ---------------------------------------------------------------------------------------
# GRAD-UMNN: the contract of the third-party integrators' custom backward
# ---------------------------------------------------------------------------------------


def grad_umnn_rule(ctx):
    """NeuralIntegral.apply / ParallelNeuralIntegral.apply(x0, xT, integrand_net, flat_params, h, nb_steps)
    are custom autograd functions: their backward hands the integral's gradient with respect to the
    integrand network's parameters back through the `flat_params` argument and through nothing else
    (A-UMNN).  So on every path -- whatever the mode -- that argument must be the flattened parameters
    of the very network passed as `integrand_net`; anything else (an empty tensor in evaluation mode, a
    detached copy, another network's parameters) silently drops that part of the gradient."""
    from ..symexp import paths_of, uwalk

    p = ctx.p
    res = RuleResult("GRAD-UMNN", "every call of the UMNN integrators passes the flattened parameters of the integrand network it integrates, on every path")
    n = 0
    for fi in p.all_functions():
        if not fi.module.name.startswith("nflows."):
            continue
        INTEGRATORS = ("NeuralIntegral", "ParallelNeuralIntegral")
        mentions_here = any(isinstance(x, ast.Name) and x.id in INTEGRATORS for x in ast.walk(fi.node))
        # the integrator may come out of a table / helper of the class (`integral = self._integral(); integral.apply(..)`):
        # a six-argument `.apply` in a module that imports the integrators is an integrator call
        module_has = any(isinstance(x, ast.Name) and x.id in INTEGRATORS for x in ast.walk(fi.module.tree)) or any(nm in INTEGRATORS for nm in getattr(fi.module, "imports", {}))
        wide_apply = any(isinstance(x, ast.Call) and isinstance(x.func, ast.Attribute) and x.func.attr == "apply" and len(x.args) >= 5 for x in ast.walk(fi.node))
        if not mentions_here and not (module_has and wide_apply):
            continue  # (the integrator may be bound to a local first: integral = NeuralIntegral; integral.apply(..))
        try:
            paths = paths_of(fi.node)
        except AnalysisIncomplete as ex:
            res.undecide(fi.qualname, str(ex))
            continue
        seen = set()
        for path in paths:
            if path.kind == "raise":
                continue
            roots = ([path.ret] if path.ret is not None else []) + [x for eff in path.effects for x in eff[2:] if isinstance(x, ast.AST)]
            for root in roots:
                for c in uwalk(root):
                    if not (isinstance(c, ast.Call) and isinstance(c.func, ast.Attribute) and c.func.attr == "apply"):
                        continue
                    named = isinstance(c.func.value, ast.Name) and c.func.value.id in INTEGRATORS
                    if not named and not (module_has and len(c.args) >= 5 and not (isinstance(c.func.value, ast.Name) and c.func.value.id in ("torch", "self", "F"))):
                        continue
                    if len(c.args) < 4:
                        res.undecide(fi.qualname, "integrator call with fewer than four positional arguments")
                        continue
                    net, flat = c.args[2], c.args[3]
                    # A-UMNN, second clause: the integrators' hand-written backward re-integrates from 0 with steps
                    # x / nb_steps -- it is the gradient of the forward value only for a lower limit x0 == 0
                    x0 = c.args[0]
                    zero_like = isinstance(x0, ast.Call) and (norm_text(x0.func) in ("torch.zeros", "torch.zeros_like") or (isinstance(x0.func, ast.Attribute) and x0.func.attr in ("to", "type_as", "new_zeros", "expand", "expand_as", "contiguous") and any(isinstance(q, ast.Call) and norm_text(q.func) in ("torch.zeros", "torch.zeros_like") or (isinstance(q, ast.Call) and isinstance(q.func, ast.Attribute) and q.func.attr == "new_zeros") for q in uwalk(x0)) and not any(isinstance(q, ast.BinOp) for q in uwalk(x0))))
                    if not zero_like:
                        key0 = ("x0", norm_text(x0)[:80])
                        if key0 not in seen:
                            seen.add(key0)
                            res.fail(Finding("GRAD-UMNN", fi.module, fi.qualname, path.ret_node if getattr(path, "ret_node", None) is not None else fi.node, "the integrator `%s.apply` is given the lower limit `%s`, which is not a zeros tensor: the integrators' custom backward steps by x / nb_steps from the lower limit (it assumes x0 == 0), so for any other origin the gradients with respect to the integrand network's parameters and the conditioner are those of a different integral -- silently (the forward values are right)" % (norm_text(c.func.value)[:30], norm_text(x0)[:50]), construct="lower limit of %s.apply" % norm_text(c.func.value)[:30]))
                    conds = ", ".join(("" if pol else "not ") + norm_text(raw)[:30] for _et, raw, pol in path.conds) or "-"
                    key = (norm_text(net), norm_text(flat)[:120], conds)
                    if key in seen:
                        continue
                    seen.add(key)
                    n += 1
                    # (a private _flatten helper is expanded by the symbolic expansion: what counts is that the
                    # expression is built from <net>.parameters() of the same network, without a detach)
                    mentions = [x for x in uwalk(flat) if isinstance(x, ast.Call) and isinstance(x.func, ast.Attribute) and x.func.attr == "parameters" and not x.args]
                    same = [x for x in mentions if norm_text(x.func.value) == norm_text(net)]
                    severed = any(isinstance(x, ast.Call) and isinstance(x.func, ast.Attribute) and x.func.attr in ("detach", "item", "numpy", "tolist") for x in uwalk(flat)) or any(isinstance(x, ast.Attribute) and x.attr == "data" for x in uwalk(flat))
                    if same and not severed:
                        res.ok("%s [%s]: flat_params is built from %s.parameters()" % (fi.qualname, conds, norm_text(net)))
                    else:
                        why = "a detached copy of the parameters" if same else ("the parameters of `%s`" % norm_text(mentions[0].func.value)[:40] if mentions else "`%s`, which does not contain the network's parameters" % norm_text(flat)[:50])
                        res.fail(Finding("GRAD-UMNN", fi.module, fi.qualname, path.ret_node if getattr(path, "ret_node", None) is not None else fi.node, "on the path [%s] the integrator `%s.apply` receives as flat_params %s, not the flattened parameters of the network `%s` it integrates: the integral's gradient with respect to that network's parameters is dropped in its backward pass (the forward values are unaffected)" % (conds, norm_text(c.func.value)[:30], why, norm_text(net)[:40]), construct="flat_params of %s.apply [%s]" % (norm_text(c.func.value)[:30], conds)))
    if n < 1:
        raise AnalysisIncomplete("GRAD-UMNN: no integrator call site found (the CC and the CCParallel solver of MonotonicNormalizer.forward call one each on the pinned tree)")
    return res


def _late_inplace(ctx):
    return grad_inplace_rule(ctx)


def grad_memo_rule(ctx):
    """GRAD-MEMO = OWN-ATTR for kept tensors (shared with C13): a result must be computed from the arguments and
    the parameters of *this* call; a tensor memoised by an earlier evaluation call brings that call's graph
    (freed after the first backward) or, if made under no_grad, no graph at all."""
    from .own_rules import memo_findings

    return memo_findings(ctx, "GRAD-MEMO", "a later call that returns the kept tensor differentiates through the graph of the call that made it (freed after one backward; absent if that call ran under no_grad; blind to parameter updates)")


def grad_ident_rule(ctx):
    """GRAD-IDENT: a trainable parameter keeps its identity for the lifetime of the module.  An optimiser (and
    every `torch.autograd.grad(.., params)` call) holds the Parameter objects collected when it was built;
    a method that *rebinds* the attribute to a new nn.Parameter / tensor after construction leaves those
    holding tensors that are no longer part of the computation: their gradient is None, the new leaf is
    never updated.  Decided per class: outside the constructor (and the helpers only it calls) no method
    assigns to `self.<registered parameter>` -- writes go through `.data` / in-place operations."""
    import ast

    from ..model import PARAM

    p = ctx.p
    res = RuleResult("GRAD-IDENT", "no method other than the constructor (and helpers only it calls) rebinds a registered nn.Parameter attribute: parameters keep their identity, so optimisers and autograd.grad see the tensors the module computes with")
    n_classes = n_params = 0
    for cls in p.all_classes():
        if not cls.is_nn_module():
            continue
        table = p.attrs(cls)
        params = {nm for nm, ai in table.items() if ai.kind == PARAM}
        if not params:
            continue
        n_classes += 1
        n_params += len(params)
        methods = {}
        for c in reversed(cls.repo_mro()):
            methods.update(c.methods)
        # helpers reachable from __init__ only
        calls = {nm: {n.func.attr for n in ast.walk(fi.node) if isinstance(n, ast.Call) and isinstance(n.func, ast.Attribute) and isinstance(n.func.value, ast.Name) and n.func.value.id == "self" and n.func.attr in methods} for nm, fi in methods.items()}

        def reach(start):
            seen, todo = set(), list(start)
            while todo:
                m = todo.pop()
                if m in seen:
                    continue
                seen.add(m)
                todo.extend(calls.get(m, ()))
            return seen

        from_init = reach(["__init__"])
        others = reach([m for m in methods if m not in from_init or (not m.startswith("_") and m != "__init__")])
        for nm, fi in methods.items():
            if nm == "__init__" or (nm in from_init and nm not in others):
                continue
            if fi.cls is None or fi.cls not in cls.repo_mro():
                continue
            for st in ast.walk(fi.node):
                targets = []
                if isinstance(st, ast.Assign):
                    targets = st.targets
                elif isinstance(st, (ast.AnnAssign,)):
                    targets = [st.target]
                for t in targets:
                    for x in ast.walk(t) if isinstance(t, (ast.Tuple, ast.List)) else [t]:
                        if isinstance(x, ast.Attribute) and isinstance(x.value, ast.Name) and x.value.id == "self" and x.attr in params and isinstance(x.ctx, ast.Store):
                            res.fail(Finding("GRAD-IDENT", fi.module, fi.qualname, st, "`self.%s` is a registered parameter of %s and is rebound here, after construction: an optimiser built before this runs keeps the old tensor (its .grad stays None and the new one is never updated); write through `.data` / an in-place operation under no_grad instead" % (x.attr, cls.name), construct="rebinding of parameter %s.%s" % (fi.cls.name, x.attr)))
                if isinstance(st, ast.Call) and isinstance(st.func, ast.Name) and st.func.id in ("setattr", "delattr") and len(st.args) >= 2 and isinstance(st.args[0], ast.Name) and st.args[0].id == "self" and isinstance(st.args[1], ast.Constant) and st.args[1].value in params:
                    res.fail(Finding("GRAD-IDENT", fi.module, fi.qualname, st, "`%s(self, %r, ..)` replaces a registered parameter of %s after construction" % (st.func.id, st.args[1].value, cls.name), construct="rebinding of parameter %s.%s" % (fi.cls.name, st.args[1].value)))
    if n_classes < getattr(ctx, "grad_ident_floor", 8):
        raise AnalysisIncomplete("GRAD-IDENT: %d module classes with parameters (< 8)" % n_classes)
    res.ok("%d module classes, %d registered parameters: none rebound outside construction" % (n_classes, n_params))
    return res


def grad_reparam_rule(ctx):
    """GRAD-REPARAM.  A sampler that stays inside autograd must be reparameterised: `mean + std * randn(..)`
    carries d/dmean and d/dstd, whereas `torch.normal(mean, std)` returns a tensor that *requires grad* and
    back-propagates zeros to its parameter arguments (discrete draws -- bernoulli, poisson -- have no
    derivative to lose and are not judged) -- no error, no None, a wrong gradient for everything upstream (the context encoder, the
    embedding net).  Inside `torch.no_grad()` the author has declared the draw non-differentiable and the
    result does not require grad; that is GRAD-CUT's business when it reaches a differentiable result."""
    import ast

    from .shared_rules import _functions, _own_nodes

    p = ctx.p
    res = RuleResult("GRAD-REPARAM", "outside torch.no_grad() no continuous draw is made by the non-reparameterised torch.normal(mean, std) with tensor parameters: its output back-propagates zeros to them")
    n_fn = n_draw = 0
    SAMPLERS = ("normal",)
    for mod, qual, fn, cls in _functions(p):
        n_fn += 1
        deco_nograd = any("no_grad" in norm_text(d) for d in fn.decorator_list)
        for n in _own_nodes(fn):
            if not (isinstance(n, ast.Call) and isinstance(n.func, ast.Attribute) and n.func.attr in SAMPLERS):
                continue
            recv = n.func.value
            functional = isinstance(recv, ast.Name) and recv.id == "torch"
            args = list(n.args) + [k.value for k in n.keywords if k.arg in ("mean", "std", "input", "p", "total_count", "count", "prob")]
            if not functional:
                # method form  p.bernoulli()  on a tensor expression
                if n.func.attr == "normal" or isinstance(recv, ast.Name) and recv.id in ("np", "random", "numpy", "init", "nn"):
                    continue
                if isinstance(recv, ast.Attribute) and norm_text(recv) in ("np.random", "numpy.random", "nn.init", "torch.nn.init"):
                    continue
                args = [recv] + args
            tens = [a for a in args if not isinstance(a, ast.Constant) and not (isinstance(a, ast.UnaryOp) and isinstance(a.operand, ast.Constant))]
            if not tens:
                continue
            n_draw += 1
            cur, under = n, deco_nograd
            while getattr(cur, "_parent", None) is not None and not under:
                cur = cur._parent
                if isinstance(cur, ast.With) and any("no_grad" in norm_text(i.context_expr) or "set_grad_enabled(False)" in norm_text(i.context_expr) for i in cur.items):
                    under = True
                if cur is fn:
                    break
            if under:
                res.ok("%s: `%s` is drawn under torch.no_grad()" % (qual, norm_text(n)[:50]))
                continue
            res.fail(Finding("GRAD-REPARAM", mod, qual, n, "`%s` draws from a sampler that is not reparameterised: the result requires grad, but its derivative with respect to %s is identically zero, so every gradient taken through the samples (and through a log-density evaluated at them) silently misses the dependence on the parameters that produced %s; write the draw as  mean + std * torch.randn(..)" % (norm_text(n)[:70], ", ".join("`%s`" % norm_text(a)[:30] for a in tens[:2]), "them" if len(tens) > 1 else "it"), construct="non-reparameterised draw in %s" % qual))
    if n_fn < getattr(ctx, "reparam_floor", 300):
        raise AnalysisIncomplete("GRAD-REPARAM: only %d functions examined" % n_fn)
    res.ok("%d functions examined, %d parameterised draws by torch.normal" % (n_fn, n_draw), nontrivial=False)
    return res


def grad_state_rule(ctx):
    """GRAD-STATE (= the detach clause of BN-STATS, shared with C14): what a training-mode forward pass records in
    a buffer is cut from the graph.  A running statistic updated with a graph-attached batch statistic makes the
    buffer a non-leaf that drags the graph of every earlier batch along: back-propagation through a later
    evaluation-mode pass either fails ("backward through the graph a second time") or adds spurious terms
    through the stored statistics."""
    from .c14 import batchnorm_flow_rule

    r = batchnorm_flow_rule(ctx)
    r.rule = "GRAD-STATE"
    r.description = "batch statistics recorded in buffers by a training-mode forward pass are detached (the stored state carries no autograd graph of earlier batches)"
    r.findings = [f for f in r.findings if "not detached" in f.message]
    for f in r.findings:
        f.rule = "GRAD-STATE"
        f.message += ": the buffer becomes a non-leaf attached to the graph of this and every earlier training batch, so gradients taken later through the stored statistics are wrong or raise"
    return r


register(
    "C16",
    [grad_cut_rule, grad_reach_rule, _late_inplace, grad_where_rule, grad_umnn_rule, grad_ident_rule, grad_memo_rule, grad_reparam_rule, grad_state_rule],
    "Forward may-dependence (taint) analysis over every differentiable entry point (forward/inverse of every Transform per "
    "concrete receiver class, the Linear accessors, log_prob/_log_prob/mean of every Distribution, Flow.sample_and_log_prob/"
    "_sample/transform_to_noise, forward/log_prob of the remaining nn.Modules, the eight spline functions). Gradient-severing "
    "constructs (.detach(), .data, .item(), .numpy(), .tolist(), float()/int() of a tensor, torch.tensor(tensor), anything "
    "computed under torch.no_grad()) label their result CUT@site; comparisons, floor/long/argsort/sign and index positions "
    "clear the label (honestly piecewise-constant). Rule GRAD-CUT: no returned tensor carries a CUT label. Rule GRAD-REACH: "
    "every nn.Parameter of a concrete class may-flows to some returned result of that class. Rule GRAD-WHERE: no branch of a "
    "torch.where applies log / sqrt / a division / a negative or fractional power to a row-dependent value that the sign lattice "
    "cannot prove positive (0 * inf = NaN in backward at elements outside the branch's region). Rule GRAD-UMNN: every call of the "
    "third-party integrators passes the flattened parameters of the integrand network it integrates, on every path (their custom "
    "backward returns that gradient through this argument only). Decides the structural way "
    "gradients are lost silently; gradient values (finite differences) and the third-party integrator's custom backward are "
    "out of reach.",
    [A_NET, A_UMNN, T_OPS, "autograd computes correct derivatives for the torch operations themselves"],
)


# ---------------------------------------------------------------------------------------
# GRAD-INPLACE: no in-place write to a value an earlier differentiable op saved for backward
# ---------------------------------------------------------------------------------------

# T-OPS "saved operand" column (hand-written from torch's derivatives.yaml):
SAVES_INPUTS = {"mul", "div", "true_divide", "matmul", "mm", "bmm", "mv", "linear", "ger", "outer", "pow", "log", "log1p", "atan2", "cos", "sin", "tan", "atan", "abs", "clamp", "softplus", "leaky_relu", "elu", "logsumexp", "var", "std", "norm", "prod", "erf", "lerp", "where", "solve_triangular", "lu_solve", "addmv", "addmm", "square"}
SAVES_RESULT = {"exp", "sigmoid", "tanh", "softmax", "log_softmax", "sqrt", "reciprocal", "relu", "logsumexp", "inverse", "prod", "std", "norm", "expm1", "exp2"}
BINOP_SAVES = {"Mult", "Div", "Pow", "MatMult"}


class InplaceDomain(TaintDomain):
    """Annotation = allocation sites whose storage a tensor may share ('V', file, line, col) plus
    'G' (may require grad).  `saved` collects the sites of values some differentiable
    operation keeps for its backward pass."""

    value_semantics = False  # the annotation describes storage, like the ownership domain
    like_keeps_labels = False

    def __init__(self):
        self.saved = {}
        self.findings = []
        self.counter = 0

    def _site(self, interp, node):
        # one identity per *evaluation* of an allocating operation (the interpreter runs without
        # memoisation and unrolls loops twice in this mode), so a rebinding `x = x - t` is a new value
        self.counter += 1
        return ("V", self.counter)

    def arg(self, func, pname, idx, default):
        return T(frozenset({("V", "arg", pname, 0), "G"}))

    def state(self, interp, objav, path, attrinfo, node):
        return T(frozenset({("V", "state", ".".join(path), 0), "G"}))

    def net_result(self, interp, netav, method, args, kwargs, node):
        return T(frozenset({self._site(interp, node), "G"}))

    def ext_module_result(self, interp, dotted, path, args, kwargs, node):
        return T(frozenset({self._site(interp, node), "G"}))

    def ctor(self, interp, op, args, kwargs, node):
        return T(frozenset({self._site(interp, node)}))

    def umnn_call(self, interp, dotted, args, kwargs, node):
        return T(frozenset({self._site(interp, node), "G"}))

    def shape_ann(self, ann):
        return E

    def plain_param(self, interp, one, cls, path, ai, node):
        """a callable constructor argument kept as is (`activation=F.relu`): its documented default
        (A-CFG) -- so that what the default saves for its backward pass is known"""
        for a in [ai] + list(getattr(ai, "alts", [])):
            v = getattr(a, "value", None)
            if isinstance(v, ast.Name) and a.func is not None:
                for pn, d in a.func.params():
                    if pn == v.id and d is not None:
                        try:
                            r = interp.p.resolve_expr(a.cls.module, d)
                        except Exception:
                            r = None
                        if isinstance(r, tuple) and r and r[0] == "ext" and r[1].startswith("torch."):
                            return AV("ext", r[1])
        return None

    def _save(self, interp, av, node, op):
        if av is None or av.kind not in ("tensor", "top") or interp.frame.in_nograd():
            return
        if "G" not in av.ann:
            return
        for l in av.ann:
            if isinstance(l, tuple) and l[0] == "V":
                self.saved.setdefault(l, (interp.frame.func, node, op))

    def op(self, interp, op, info, recv, args, kwargs, node):
        cat = info.get("cat")
        tens = [a for a in [recv] + list(args) + list(kwargs.values()) if isinstance(a, AV) and a.kind in ("tensor", "top")]
        grad = any("G" in a.ann for a in tens)
        if cat in ("inplace", "init"):
            return recv
        if cat == "scalar":
            return None
        if cat in ("alias",):
            return AV("tensor", None, all_ann(self, recv))
        if cat == "aliases":
            from ..interp import LST

            return LST(None, AV("tensor", None, all_ann(self, recv)))
        if op in SAVES_INPUTS:
            for a in tens:
                self._save(interp, a, node, op)
        site = self._site(interp, node)
        ann = {site}
        if grad and not info.get("idx") and cat not in ("ctor", "like"):
            ann.add("G")
        res = AV("tensor", None, frozenset(ann))
        if op in SAVES_RESULT and grad:
            self._save(interp, res, node, op)
        if cat == "tuple":
            return TUP([AV("tensor", None, frozenset(ann)) for _ in range(info.get("n", 2))])
        return res

    def binop(self, interp, opnode, left, right, node):
        tens = [a for a in (left, right) if a.kind in ("tensor", "top")]
        grad = any("G" in a.ann for a in tens)
        if isinstance(node, ast.AugAssign):
            # x op= y: autograd keeps what it needs of the old x itself; only y is saved
            if type(opnode).__name__ in BINOP_SAVES and right.kind in ("tensor", "top"):
                self._save(interp, right, node, type(opnode).__name__)
            return AV("tensor", None, left.ann if left.kind in ("tensor", "top") else frozenset({self._site(interp, node)}))
        if type(opnode).__name__ in BINOP_SAVES and len(tens) == 2:
            for a in tens:
                self._save(interp, a, node, type(opnode).__name__)
        elif type(opnode).__name__ in ("Pow",) and tens:
            self._save(interp, tens[0], node, "pow")
        elif type(opnode).__name__ == "Div" and right.kind in ("tensor", "top"):
            self._save(interp, right, node, "div")
            if left.kind in ("tensor", "top"):
                self._save(interp, left, node, "div")
        ann = {self._site(interp, node)}
        if grad:
            ann.add("G")
        return AV("tensor", None, frozenset(ann))

    def compare(self, interp, left, right, node):
        return AV("tensor", None, frozenset({self._site(interp, node)}))

    def subscript(self, interp, base, index, node):
        from ..own import _is_basic_index

        if _is_basic_index(index):
            return AV(base.kind, None, base.ann)
        ann = {self._site(interp, node)}
        if "G" in base.ann:
            ann.add("G")
        return AV("tensor", None, frozenset(ann))

    def on_write(self, interp, how, target, value, node):
        if target.kind not in ("tensor", "top") or interp.frame.in_nograd():
            return
        if how == "data":
            return
        for l in target.ann:
            if isinstance(l, tuple) and l[0] == "V" and l in self.saved:
                sf, snode, sop = self.saved[l]
                fi = interp.frame.func
                self.findings.append(
                    Finding(
                        "GRAD-INPLACE",
                        fi.module,
                        fi.qualname,
                        node,
                        "in-place write (%s) to a tensor that `%s` at %s:%d saved for its backward pass: back-propagation raises 'modified by an inplace operation' (or silently uses the overwritten value)" % (how, sop, sf.module.relpath, getattr(snode, "lineno", 0)),
                        witness=[f.func.qualname for f in interp.frame.stack()],
                    )
                )


def grad_inplace_rule(ctx):
    p = ctx.p
    res = RuleResult("GRAD-INPLACE", "no in-place write reaches a tensor that an earlier differentiable operation saved for backward")
    n = 0
    nsaved = 0
    allf = []
    funcs = set()
    for e in enumerate_entries(p):
        if not is_sink(p, e):
            continue
        dom = InplaceDomain()  # a fresh registry per entry point: saves of one call history only
        it = Interp(p, dom, memo=False, unroll=2)
        self_av = OBJ(e.cls) if e.cls is not None and not e.func.is_static else None
        it.run_function(e.func, self_av, entry_args(dom, e))
        n += 1
        nsaved += len(dom.saved)
        allf.extend(dom.findings)
        funcs |= it.stats["functions"]
    from ..report import dedupe

    for f in dedupe(allf):
        res.fail(f)
    res.ok("%d entry points, %d saved-for-backward values, no in-place write reaches one" % (n, nsaved))
    res.ok("%d functions interpreted" % len(funcs), nontrivial=False)
    return res
