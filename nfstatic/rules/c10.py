"""C10 -- weight caching in linear transforms is transparent over every history.

Typestate fixpoint over all event sequences plus structural companion rules.
"""

import ast

from ..astutil import attr_chain, product_factors, signed_terms, walk_pc, pc_atoms
from ..model import AnalysisIncomplete, norm_text
from ..report import Finding, RuleResult
from ..typestate import StoreExec, Hooks, UNK, explore, freeze, trace_to
from . import register, A_API, T_NN


def linear_classes(p):
    base = p.find_class("Linear", "nflows.transforms.linear")
    return base, [c for c in p.subclasses_of(base)]


def cache_fields(p):
    cc = p.find_class("LinearCache", "nflows.transforms.linear")
    init = cc.methods.get("__init__")
    if init is None:
        raise AnalysisIncomplete("LinearCache.__init__ missing")
    fields = []
    # the constructor and the helpers it calls on self (a shared _reset())
    todo, seen = [init], set()
    while todo:
        m = todo.pop()
        if id(m) in seen:
            continue
        seen.add(id(m))
        for n in ast.walk(m.node):
            if isinstance(n, ast.Assign):
                for t in n.targets:
                    if isinstance(t, ast.Attribute) and isinstance(t.value, ast.Name) and t.value.id == "self" and t.attr not in fields:
                        fields.append(t.attr)
            if isinstance(n, ast.Call) and isinstance(n.func, ast.Attribute) and isinstance(n.func.value, ast.Name) and n.func.value.id == "self" and n.func.attr in cc.methods:
                todo.append(cc.methods[n.func.attr])
    if not fields:
        raise AnalysisIncomplete("LinearCache has no fields")
    return cc, fields


class CacheHooks(Hooks):
    def __init__(self, fields):
        self.fields = fields
        self.problems = []  # (kind, path, node, ctx-func, store)

    def stored_value(self, ex, path, val, value_node, target, st, store, ctx):
        if path.startswith("cache."):
            if isinstance(value_node, ast.Constant) and value_node.value is None:
                return None
            if val is None and not isinstance(value_node, ast.Call):
                return None
            return "Fresh"
        return val

    def on_read(self, ex, path, value, node, store, ctx):
        if path.startswith("cache."):
            if value == "Stale":
                self.problems.append(("stale", path, node, ctx["func"], dict(store)))
            elif value is None:
                self.problems.append(("none", path, node, ctx["func"], dict(store)))

    def external_super(self, ex, name, args, store, ctx):
        if name == "train":
            mode = args[0] if args else True
            store["training"] = mode
            return UNK
        if name == "eval":
            store["training"] = False
            return UNK
        if name in ("_apply", "_load_from_state_dict", "load_state_dict", "to", "double", "float", "half", "cuda", "cpu", "type"):
            params_changed(store)
            return UNK
        return UNK


def params_changed(store):
    for k, v in store.items():
        if k.startswith("cache.") and v == "Fresh":
            store[k] = "Stale"


EVENTS = [
    ("train", {"mode": True}),
    ("eval", {"mode": False}),
    ("train_of_enclosing_module", {"mode": True}),
    ("eval_of_enclosing_module", {"mode": False}),
    ("use_cache(True)", {"mode": True}),
    ("use_cache(False)", {"mode": False}),
    ("forward", {}),
    ("inverse", {}),
    ("optimizer_step", {}),
    ("load_state_dict", {}),
    ("load_state_dict_of_enclosing_module", {}),
    ("dtype_or_device_conversion", {}),
]


def typestate_rule(ctx):
    p = ctx.p
    base, classes = linear_classes(p)
    cc, fields = cache_fields(p)
    res = RuleResult("CACHE-STALE", "typestate fixpoint over all histories: no transition reads a stale or unfilled cache field")
    tracked = ["training", "using_cache"] + ["cache." + f for f in fields]
    total_states = 0
    total_trans = 0
    sample_traces = []
    all_problems = {}
    for cls in classes:
        hooks = CacheHooks(fields)
        ex = StoreExec(p, cls, tracked, hooks)
        for m in ("forward", "inverse", "use_cache"):
            if cls.lookup_method(m) is None:
                raise AnalysisIncomplete("%s.%s missing" % (cls.name, m))
        problems_at = []

        def step(s, ev, ex=ex, hooks=hooks, cls=cls):
            name, args = ev
            hooks.problems = []
            outs = []
            if name in ("train", "eval", "train_of_enclosing_module", "eval_of_enclosing_module"):
                # nn.Module.eval() is self.train(False); a parent's train(mode) / eval() calls child.train(mode)
                # on its sub-modules, never child.eval(): an `eval` override runs only for a direct .eval()
                mode = name.startswith("train")
                direct = not name.endswith("_of_enclosing_module")
                if direct and not mode and cls.lookup_method("eval") is not None:
                    outs = ex.run_method("eval", {}, s)
                    # torch's eval() goes on to self.train(False)
                    if cls.lookup_method("train") is not None:
                        nxt = []
                        for o in outs:
                            nxt.extend(ex.run_method("train", {"mode": False}, o.store) if o.kind == "return" else [o])
                        outs = nxt
                elif cls.lookup_method("train") is not None:
                    outs = ex.run_method("train", {"mode": mode}, s)
                else:
                    s2 = dict(s)
                    s2["training"] = mode
                    outs = [type("O", (), {"store": s2, "kind": "return", "value": None})()]
            elif name.startswith("use_cache"):
                outs = ex.run_method("use_cache", dict(args), s)
            elif name in ("forward", "inverse"):
                outs = ex.run_method(name, {"inputs": UNK, "context": None}, s)
            elif name == "optimizer_step":
                s2 = dict(s)
                params_changed(s2)
                outs = [type("O", (), {"store": s2, "kind": "return", "value": None})()]
            elif name in ("load_state_dict", "load_state_dict_of_enclosing_module"):
                # torch.nn.Module.load_state_dict calls _load_from_state_dict on every module of the
                # tree but load_state_dict only on the module it was invoked on: a transform nested
                # in a CompositeTransform / Flow sees only its _load_from_state_dict
                outs = [type("O", (), {"store": dict(s), "kind": "return", "value": None})()]
                ran = False
                if name == "load_state_dict" and cls.lookup_method("load_state_dict") is not None:
                    outs = ex.run_method("load_state_dict", {}, s)
                    ran = True
                if cls.lookup_method("_load_from_state_dict") is not None:
                    nxt = []
                    for o in outs:
                        if o.kind != "return":
                            nxt.append(o)
                            continue
                        nxt.extend(ex.run_method("_load_from_state_dict", {}, o.store))
                    outs = nxt
                    ran = True
                if not ran:
                    s2 = dict(s)
                    params_changed(s2)
                    outs = [type("O", (), {"store": s2, "kind": "return", "value": None})()]
            elif name == "dtype_or_device_conversion":
                if cls.lookup_method("_apply") is not None:
                    outs = ex.run_method("_apply", {}, s)
                else:
                    s2 = dict(s)
                    params_changed(s2)
                    outs = [type("O", (), {"store": s2, "kind": "return", "value": None})()]
            for pr in hooks.problems:
                problems_at.append((freeze(s), name, pr))
            return [(o.store, name) for o in outs]

        def enabled(s):
            for ev in EVENTS:
                if ev[0] == "optimizer_step" and s.get("training") is not True:
                    continue  # the property speaks of parameter updates in training mode
                yield ev

        init = []
        for uc in (False, True):
            s0 = {"training": True, "using_cache": uc}
            for f in fields:
                s0["cache." + f] = None
            init.append(s0)
        seen, ntrans = explore(init, enabled, step)
        total_states += len(seen)
        total_trans += ntrans
        for fs, evname, (kind, path, node, func, store) in problems_at:
            key = (kind, path, func.qualname, norm_text(node))
            trace = trace_to(seen, fs) + [evname]
            cur = all_problems.get(key)
            if cur is None or len(trace) < len(cur["trace"]):
                classes_so_far = cur["classes"] if cur else set()
                all_problems[key] = {"trace": trace, "node": node, "func": func, "kind": kind, "path": path, "classes": classes_so_far | {cls.name}}
            else:
                cur["classes"].add(cls.name)
        res.ok("%s: %d abstract states, %d transitions, methods executed: %s" % (cls.name, len(seen), ntrans, ",".join(sorted(ex.executed_methods))))
        if len(sample_traces) < 3:
            far = max(seen, key=lambda k: len(trace_to(seen, k)))
            sample_traces.append({"class": cls.name, "longest_shortest_history": trace_to(seen, far)})
    for key, pr in sorted(all_problems.items(), key=lambda kv: (kv[0][2], kv[0][1])):
        trace = pr["trace"]
        what = "stale (filled before the parameters changed)" if pr["kind"] == "stale" else "None (never filled on this path)"
        msg = "history [%s] reads %s while it is %s; receiver classes: %s" % ("; ".join(trace), pr["path"], what, ", ".join(sorted(pr["classes"])))
        res.fail(Finding("CACHE-STALE" if pr["kind"] == "stale" else "CACHE-NONE", pr["func"].module, pr["func"].qualname, pr["node"], msg, witness=trace))
    res.extra_coverage = {"states": total_states, "transitions": total_trans, "sample_histories": sample_traces}
    res.notes.append("fields read from LinearCache.__init__: %s" % fields)
    return res


def _self_cache_field(node):
    ch = attr_chain(node)
    if ch and ch.startswith("self.cache.") and ch.count(".") == 2:
        return ch[len("self.cache."):]
    return None


FIELD_ACCESSOR = {"weight": "weight", "inverse": "weight_inverse", "logabsdet": "logabsdet"}
COMBINED = {"weight_and_logabsdet": ("weight", "logabsdet"), "weight_inverse_and_logabsdet": ("inverse", "logabsdet")}


def cache_map_rule(ctx):
    p = ctx.p
    base, classes = linear_classes(p)
    res = RuleResult("CACHE-MAP", "each cache field is filled from the accessor of the same quantity; combined accessors return (matrix, logabsdet) in that order")
    for fi in base.methods.values():
        for n in ast.walk(fi.node):
            if not isinstance(n, ast.Assign):
                continue
            for t in n.targets:
                targets = t.elts if isinstance(t, (ast.Tuple, ast.List)) else [t]
                fields = [_self_cache_field(x) for x in targets]
                if not any(fields):
                    continue
                v = n.value
                if isinstance(v, ast.Constant) and v.value is None:
                    continue
                core = v
                # accept detach()/clone() wrappers around the accessor call
                while isinstance(core, ast.Call) and isinstance(core.func, ast.Attribute) and core.func.attr in ("detach", "clone") and not core.args:
                    core = core.func.value
                if isinstance(core, ast.Call) and isinstance(core.func, ast.Attribute) and attr_chain(core.func.value) == "self":
                    acc = core.func.attr
                    if len(fields) == 1:
                        want = FIELD_ACCESSOR.get(fields[0])
                        if want is None:
                            res.undecide("%s" % norm_text(n), "unknown cache field %s" % fields[0])
                        elif acc != want:
                            res.fail(Finding("CACHE-MAP", fi.module, fi.qualname, n, "cache field '%s' is filled from accessor %s(), expected %s()" % (fields[0], acc, want)))
                        else:
                            res.ok("%s: cache.%s <- %s()" % (fi.qualname, fields[0], acc))
                    else:
                        want = COMBINED.get(acc)
                        if want is None or tuple(fields) != want:
                            res.fail(Finding("CACHE-MAP", fi.module, fi.qualname, n, "cache fields %s are filled from %s(), which returns %s" % (fields, acc, want)))
                        else:
                            res.ok("%s: cache.(%s) <- %s()" % (fi.qualname, ",".join(fields), acc))
                elif isinstance(v, ast.Tuple) and len(v.elts) == len(fields):
                    for fld, e in zip(fields, v.elts):
                        if fld is None:
                            continue
                        if isinstance(e, ast.Call) and isinstance(e.func, ast.Attribute) and attr_chain(e.func.value) == "self" and e.func.attr == FIELD_ACCESSOR.get(fld):
                            res.ok("%s: cache.%s <- %s()" % (fi.qualname, fld, e.func.attr))
                        else:
                            res.fail(Finding("CACHE-MAP", fi.module, fi.qualname, n, "cache field '%s' is filled from %s" % (fld, norm_text(e))))
                else:
                    res.undecide("%s in %s" % (norm_text(n), fi.qualname), "fill value is not an accessor call")
    # combined accessor overrides: (matrix, scalar log-det) order
    for cls in classes:
        if cls is base or not any(a in cls.methods for a in ("weight", "weight_inverse", "logabsdet", "weight_and_logabsdet", "weight_inverse_and_logabsdet")):
            continue  # the abstract base / a class inheriting every accessor is decided with its concrete users
        for name, want in COMBINED.items():
            fi = cls.lookup_method(name)
            if fi is None:
                continue
            # decided in the matrix-word algebra (shared with C11): component 0 is W / W^-1,
            # component 1 is + log|det W|, in any spelling and through private helpers
            from .lin_word import combined_accessor_verdict

            verdict, msg = combined_accessor_verdict(p, cls, name)
            if verdict == "ok":
                res.ok(msg)
            elif verdict == "fail":
                res.fail(Finding("CACHE-MAP", fi.module, fi.qualname, fi.node, msg, construct="components of %s.%s" % (cls.name, name)))
            else:
                res.undecide("%s.%s" % (cls.name, name), msg)
    if len(res.instances) < 6:
        raise AnalysisIncomplete("CACHE-MAP matched %d instances (< 6 confirmed by hand)" % len(res.instances))
    return res


def _component_kind(fi, e):
    """'scalar' for a full reduction / log-det helper, 'matrix' for solves/products, else None."""
    seen = 0
    while isinstance(e, ast.Name) and seen < 5:
        seen += 1
        defs = [n for n in ast.walk(fi.node) if isinstance(n, ast.Assign) and any(isinstance(t, ast.Name) and t.id == e.id for t in n.targets)]
        if len(defs) != 1:
            return None
        e = defs[0].value
    if isinstance(e, ast.UnaryOp):
        e = e.operand
    if isinstance(e, ast.Call):
        f = norm_text(e.func)
        last = f.split(".")[-1]
        if last in ("sum", "logabsdet", "logdet", "prod", "trace"):
            has_dim = any(k.arg in ("dim", "axis") for k in e.keywords) or (last == "sum" and len(e.args) > (1 if f.startswith("torch.") else 0))
            return "scalar" if not has_dim else None
        if last in ("lu_solve", "inverse", "solve_triangular", "matmul", "mm", "t", "weight", "weight_inverse", "eye"):
            return "matrix"
    if isinstance(e, ast.BinOp) and isinstance(e.op, ast.MatMult):
        return "matrix"
    return None


def _branch_blocks(fi):
    """(cached_block, uncached_block, test) of the top-level if of Linear.forward/inverse."""
    for st in fi.node.body:
        if isinstance(st, ast.If):
            txt = norm_text(st.test)
            if "using_cache" in txt:
                return st.body, st.orelse, st.test
    return None, None, None


def _resolve_in_block(block, name, upto):
    val = None
    for st in block:
        if st is upto:
            break
        if isinstance(st, ast.Assign):
            for t in st.targets:
                if isinstance(t, ast.Name) and t.id == name:
                    val = st.value
    return val


def cache_use_rule(ctx):
    """Decided on the path-wise expansion of Linear.forward / inverse: the paths whose result
    reads the cache must carry `not self.training` and `self.using_cache` in their path
    condition (in any spelling: nested ifs, early return under the negation, ...), their outputs
    must be X C^T + b / (X - b) C^-T in the matrix-word algebra, and their log-det +/- the
    cached log-det exactly once."""
    from ..astutil import cond_atoms
    from ..linword import LinEval, Undecided, Val
    from ..symexp import paths_of as _paths_of, uwalk as _uwalk

    p = ctx.p
    base, classes = linear_classes(p)
    res = RuleResult("CACHE-USE", "the cached branch is guarded by eval-mode and the flag, applies cache.weight / cache.inverse and adds +/- cache.logabsdet")

    class _CacheEval(LinEval):
        def _ev(self, e):
            ch = attr_chain(e) if isinstance(e, ast.Attribute) else None
            if ch in ("self.cache.weight", "self.cache.inverse"):
                self.atoms.add("C", kind="general")
                return Val.atom("C", self.atoms, inv=(ch == "self.cache.inverse"))
            return LinEval._ev(self, e)

    for direction, field, sign in (("forward", "weight", 1), ("inverse", "inverse", -1)):
        fi = base.methods.get(direction)
        if fi is None:
            raise AnalysisIncomplete("Linear.%s missing" % direction)
        cpaths = []
        for pp in _paths_of(fi.node):
            if pp.kind != "return":
                continue
            if any(_self_cache_field(n) for n in _uwalk(pp.ret)):
                cpaths.append(pp)
        if not cpaths:
            # no cached branch at all: nothing to be transparent about
            res.ok("Linear.%s has no cached branch" % direction, nontrivial=False)
            continue
        for pp in cpaths:
            atoms = set()
            for et, raw, pol in pp.conds:
                atoms |= cond_atoms(et, pol)
            if "not(self.training)" not in atoms or "self.using_cache" not in atoms:
                res.fail(Finding("CACHE-USE", fi.module, fi.qualname, pp.ret_node, "a result that reads the cache is reachable without `not self.training and self.using_cache` (path condition %s): training-mode or flag-off calls would use the memo" % sorted(atoms), construct="guard of the cached %s" % direction))
            else:
                res.ok("Linear.%s: cached result guarded by %s" % (direction, sorted(atoms)))
            if not (isinstance(pp.ret, ast.Tuple) and len(pp.ret.elts) == 2):
                res.undecide("Linear.%s cached branch" % direction, "does not return a pair")
                continue
            out_e, ld_e = pp.ret.elts
            ev = _CacheEval(p, base, xname=fi.params()[0][0])
            X, bb = Val.atom("X", ev.atoms), Val.atom("b", ev.atoms)
            ev.atoms.add("C", kind="general")
            C = Val.atom("C", ev.atoms)
            expect = X.mul(C.t()).add(bb) if direction == "forward" else X.add(bb, -1).mul(C.inv().t())
            try:
                got = ev.mat(out_e)
            except Undecided as ex:
                res.undecide("Linear.%s cached outputs" % direction, str(ex))
            else:
                if got == expect:
                    res.ok("Linear.%s cached outputs = %s  (C = cache.weight, cache.inverse = C^-1)" % (direction, got.show()))
                else:
                    res.fail(Finding("CACHE-USE", fi.module, fi.qualname, pp.ret_node, "cached %s computes `%s` (C = cache.weight, C^-1 = cache.inverse) but the uncached map is `%s`" % (direction, got.show(), expect.show()), construct="cached outputs of %s" % direction))
            # which field is applied
            used = {_self_cache_field(n) for n in _uwalk(out_e)} - {None}
            if used != {field}:
                res.fail(Finding("CACHE-USE", fi.module, fi.qualname, pp.ret_node, "cached %s applies cache.%s, expected cache.%s" % (direction, sorted(used), field), construct="cache field applied by %s" % direction))
            else:
                res.ok("Linear.%s applies cache.%s" % (direction, field))
            # log-det sign
            found = []
            for sg, t in signed_terms(ld_e):
                ps, factors = product_factors(t)
                for f in factors:
                    for sg2, t2 in (signed_terms(f) if isinstance(f, (ast.UnaryOp, ast.BinOp)) else [(1, f)]):
                        if _self_cache_field(t2) == "logabsdet":
                            found.append(sg * ps * sg2)
            if found != [sign]:
                res.fail(Finding("CACHE-USE", fi.module, fi.qualname, pp.ret_node, "cached %s must return %scache.logabsdet exactly once; found signs %s" % (direction, "+" if sign > 0 else "-", found), construct="cached log-det of %s" % direction))
            else:
                res.ok("Linear.%s returns %scache.logabsdet" % (direction, "+" if sign > 0 else "-"))
    return res


def cache_clear_rule(ctx):
    p = ctx.p
    cc, fields = cache_fields(p)
    res = RuleResult("CACHE-CLEAR", "invalidate() clears every field the constructor creates")
    inv = cc.methods.get("invalidate")
    if inv is None:
        raise AnalysisIncomplete("LinearCache.invalidate missing")
    cleared = set()
    for n in ast.walk(inv.node):
        if isinstance(n, ast.Assign) and isinstance(n.value, ast.Constant) and n.value.value is None:
            for t in n.targets:
                for tt in (t.elts if isinstance(t, ast.Tuple) else [t]):
                    if isinstance(tt, ast.Attribute) and attr_chain(tt.value) == "self":
                        cleared.add(tt.attr)
    for f in fields:
        if f in cleared:
            res.ok("invalidate clears %s" % f)
        else:
            res.fail(Finding("CACHE-CLEAR", inv.module, inv.qualname, inv.node, "invalidate() does not clear cache field '%s'" % f, construct="field %s" % f))
    return res


def cache_graph_rule(ctx):
    p = ctx.p
    base, classes = linear_classes(p)
    res = RuleResult("CACHE-GRAPH", "a tensor stored in a cache field carries no autograd history (stored under no_grad or detached)")
    for fi in base.methods.values():
        for st, pc, nograd in walk_pc(fi.node.body):
            if not isinstance(st, ast.Assign):
                continue
            for t in st.targets:
                targets = t.elts if isinstance(t, (ast.Tuple, ast.List)) else [t]
                if not any(_self_cache_field(x) for x in targets):
                    continue
                v = st.value
                if isinstance(v, ast.Constant) and v.value is None:
                    continue
                detached = nograd or _all_detached(v)
                if detached:
                    res.ok("%s: `%s` stores a graph-free tensor" % (fi.qualname, norm_text(st)[:60]))
                else:
                    res.fail(
                        Finding(
                            "CACHE-GRAPH",
                            fi.module,
                            fi.qualname,
                            st,
                            "the memo keeps the autograd graph of the accessor: a second back-propagation through a cached call fails, which the uncached transform supports",
                        )
                    )
    return res


def _all_detached(v):
    if isinstance(v, ast.Tuple):
        return all(_all_detached(e) for e in v.elts)
    return isinstance(v, ast.Call) and isinstance(v.func, ast.Attribute) and v.func.attr == "detach"


def cache_src_rule(ctx):
    """CACHE-SRC = LD-STATE (shared with C01 / C02 / C15): what fills the cache is computed from the parameters
    themselves.  A memo of parameter-derived state kept by a sub-module (a dense Householder matrix keyed on a
    version counter) is a second cache that the invalidation hooks of Linear do not reach."""
    from .ld_rules import ld_state_rule

    r = ld_state_rule(ctx)
    rs = r if isinstance(r, list) else [r]
    # the linear family and the modules its accessors are built from
    base = ctx.p.find_class("Linear", "nflows.transforms.linear")
    files = {c.module.relpath for c in ctx.p.all_classes() if base in c.repo_mro()} | {"nflows/transforms/orthogonal.py"}
    for x in rs:
        x.findings = [f for f in x.findings if f.file in files]
        for f in x.findings:
            f.rule = "CACHE-SRC"
        x.rule = "CACHE-SRC"
    return rs


def cache_copy_rule(ctx):
    """CACHE-COPY.  The cache belongs to one transform.  A custom copy protocol of the linear family
    (`__deepcopy__`, `__copy__`, `__getstate__` / `__setstate__`, `__reduce__`, a `clone()` built on them) that
    copies parameters and buffers but takes the remaining attributes as they are leaves the *same* LinearCache
    object in the original and in the copy: whichever of the two fills it imposes its weight, inverse and
    log-det on the other.  Decided per override: the method gives the copy a cache of its own -- an assignment
    to `<copy>.cache` (a fresh LinearCache() or a deep copy), or a plain `copy.deepcopy` of the whole `__dict__`."""
    p = ctx.p
    base, subs = linear_classes(p)
    res = RuleResult("CACHE-COPY", "no copy protocol override of the linear family lets the copy share the original's LinearCache object")
    n = 0
    for cls in [base] + list(subs):
        for mname in ("__deepcopy__", "__copy__", "__getstate__", "__setstate__", "__reduce__", "__reduce_ex__"):
            fi = cls.methods.get(mname)
            if fi is None:
                continue
            n += 1
            own_cache = any(isinstance(a, ast.Assign) and any(isinstance(t, ast.Attribute) and t.attr == "cache" for t in a.targets) for a in ast.walk(fi.node))
            own_cache = own_cache or any(isinstance(a, ast.Assign) and any(isinstance(t, ast.Subscript) and isinstance(t.slice, ast.Constant) and t.slice.value == "cache" for t in a.targets) for a in ast.walk(fi.node))
            whole = any(isinstance(c, ast.Call) and norm_text(c.func) in ("copy.deepcopy", "deepcopy") and c.args and norm_text(c.args[0]) in ("self.__dict__", "vars(self)") for c in ast.walk(fi.node))
            deleg = any(isinstance(c, ast.Call) and isinstance(c.func, ast.Attribute) and c.func.attr == mname and isinstance(c.func.value, ast.Call) and norm_text(c.func.value.func) == "super" for c in ast.walk(fi.node))
            shallow = any(isinstance(c, ast.Call) and (norm_text(c.func) in ("copy.copy", "copy") or (isinstance(c.func, ast.Attribute) and c.func.attr in ("copy", "update") and "__dict__" in norm_text(c.func.value))) for c in ast.walk(fi.node))
            if own_cache or whole or (deleg and not shallow):
                res.ok("%s.%s gives the copy its own cache" % (cls.name, mname))
            elif shallow or mname in ("__deepcopy__", "__copy__"):
                res.fail(Finding("CACHE-COPY", fi.module, fi.qualname, fi.node, "%s.%s copies the module without giving the copy a cache of its own (no assignment to `.cache`, no deep copy of the whole __dict__): the original and every copy hold one LinearCache object, so after their parameters diverge whichever instance fills the cache first decides the weight, inverse and log-det the other one uses" % (cls.name, mname), construct="cache ownership in %s.%s" % (cls.name, mname)))
            else:
                res.undecide("%s.%s" % (cls.name, mname), "cannot tell what becomes of the cache in this copy protocol override")
    res.ok("%d copy-protocol overrides in the linear family" % n, nontrivial=False)
    return res


register(
    "C10",
    [typestate_rule, cache_map_rule, cache_use_rule, cache_clear_rule, cache_graph_rule, cache_src_rule, cache_copy_rule],
    "Typestate analysis of Linear and every subclass (NaiveLinear, LULinear, QRLinear, SVDLinear, OneByOneConvolution): "
    "the transfer function of train/eval/use_cache/forward/inverse/_apply/_load_from_state_dict is derived on every run by "
    "executing the method bodies found in /repo over the abstract store training x using_cache x {None,Fresh,Stale}^fields "
    "(fields read from LinearCache.__init__); environment events (optimiser step in training mode, load_state_dict, dtype/device "
    "conversion) follow T-NN: plain attributes are neither converted nor reloaded, so every Fresh field becomes Stale unless an "
    "overriding hook clears it. The least fixpoint of reachable states under ALL event sequences is computed; a transition that "
    "reads a Stale (or unfilled) field is the violation, reported with the shortest history reaching it. Companion structural "
    "rules: CACHE-MAP (field/accessor agreement, tuple order of the combined accessors), CACHE-USE (guard, matrix applied, bias "
    "placement, sign of cache.logabsdet), CACHE-CLEAR, CACHE-GRAPH (memo must not keep autograd history). Numeric equality of "
    "cached and uncached results is not decided.",
    [T_NN, A_API, "accessors (weight, weight_inverse, logabsdet) are pure functions of the current parameters (checked by C13)"],
)
