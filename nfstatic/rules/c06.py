"""C06 -- MADE conditioners are strictly autoregressive for every architecture and weight.

A typing argument (DESIGN 2.C06): the judgement `x : Deg(d)` means "unit k of x depends only
on network inputs j <= d[k]"; obligations DEG-* are read off the source of each MADE copy and
discharged syntactically.  No sizes, no weights, no mask draws are ever enumerated.
"""

import ast
import copy

from ..astutil import attr_chain, cond_atoms, const_number
from ..model import AnalysisIncomplete, ClassInfo, norm_text
from ..report import Finding, RuleResult
from . import register, A_NET, T_OPS

COPIES = ["nflows.transforms.made", "nflows.nn.nde.made"]

BOT = ("bot",)


def _kw(call, name, pos=None):
    for k in call.keywords:
        if k.arg == name:
            return k.value
    if pos is not None and len(call.args) > pos:
        return call.args[pos]
    return None


def _strip_float(e):
    """(cmp).float() / .type(...) / .to(...) / .byte() -> cmp"""
    while isinstance(e, ast.Call) and isinstance(e.func, ast.Attribute) and e.func.attr in ("float", "type", "to", "byte", "double", "long", "int", "bool") :
        e = e.func.value
    return e


def _is_unsqueezed(e, name):
    """`name[..., None]` / `name[:, None]` / `name.unsqueeze(-1)` / `name.unsqueeze(1)`"""
    if isinstance(e, ast.Subscript) and isinstance(e.value, ast.Name) and e.value.id == name:
        sl = e.slice
        elts = sl.elts if isinstance(sl, ast.Tuple) else [sl]
        if len(elts) == 2 and isinstance(elts[1], ast.Constant) and elts[1].value is None:
            return True
    if isinstance(e, ast.Call) and isinstance(e.func, ast.Attribute) and e.func.attr == "unsqueeze" and isinstance(e.func.value, ast.Name) and e.func.value.id == name:
        v = const_number(e.args[0]) if e.args else None
        return v in (-1, 1)
    return False


def _mask_compare(e, rowvar, colvar):
    """Returns the comparison operator class of `row[...,None] OP col` (row = this layer's
    degrees, col = previous layer's), normalised to row-on-the-left; None if another shape."""
    e = _strip_float(e)
    if not (isinstance(e, ast.Compare) and len(e.ops) == 1):
        return None
    l, r = e.left, e.comparators[0]
    op = type(e.ops[0])
    swap = {ast.Gt: ast.Lt, ast.GtE: ast.LtE, ast.Lt: ast.Gt, ast.LtE: ast.GtE}
    if _is_unsqueezed(l, rowvar) and isinstance(r, ast.Name) and r.id == colvar:
        return op
    if _is_unsqueezed(r, rowvar) and isinstance(l, ast.Name) and l.id == colvar:
        return swap.get(op)
    # col[None, :] forms with row unsqueezed on the other side are covered above; a mask
    # built with the unsqueeze on the *input* side has the transposed orientation
    return None


def check_mask_rules(p, mod, res):
    """DEG-HID / DEG-OUT on MaskedLinear._get_mask_and_degrees."""
    ml = mod.classes.get("MaskedLinear")
    if ml is None:
        raise AnalysisIncomplete("%s: MaskedLinear missing" % mod.name)
    fn = ml.methods.get("_get_mask_and_degrees")
    if fn is None:
        raise AnalysisIncomplete("%s: MaskedLinear._get_mask_and_degrees missing" % mod.name)
    params = [a for a, _ in fn.params()]
    if "in_degrees" not in params or "is_output" not in params:
        raise AnalysisIncomplete("%s: _get_mask_and_degrees signature changed" % mod.name)
    # Decided on the returning paths of the expansion (locals and private helpers expanded):
    # every path returns (mask, degrees); on the paths where is_output holds the mask is
    # `degrees[..., None] > in_degrees` with degrees = tile(IN(F), out_features // F), on the
    # others `degrees[..., None] >= in_degrees` for whatever degrees are returned.
    from ..symexp import paths_of as _paths_of

    def unsq_of(e):
        """X when e is X[..., None] / X[:, None] / X.unsqueeze(-1|1)"""
        if isinstance(e, ast.Subscript):
            sl = e.slice
            elts = sl.elts if isinstance(sl, ast.Tuple) else [sl]
            if len(elts) == 2 and isinstance(elts[1], ast.Constant) and elts[1].value is None:
                return e.value
        if isinstance(e, ast.Call) and isinstance(e.func, ast.Attribute) and e.func.attr == "unsqueeze" and e.args and const_number(e.args[0]) in (-1, 1):
            return e.func.value
        return None

    def mask_op(mask, deg):
        """comparison class of `deg[..., None] OP in_degrees` (row side = returned degrees)"""
        m = _strip_float(mask)
        if not (isinstance(m, ast.Compare) and len(m.ops) == 1):
            return None
        l, r = m.left, m.comparators[0]
        op = type(m.ops[0])
        swap = {ast.Gt: ast.Lt, ast.GtE: ast.LtE, ast.Lt: ast.Gt, ast.LtE: ast.GtE}
        dt = norm_text(deg)
        ul, ur = unsq_of(l), unsq_of(r)
        if ul is not None and norm_text(ul) == dt and norm_text(r) == "in_degrees":
            return op
        if ur is not None and norm_text(ur) == dt and norm_text(l) == "in_degrees":
            return swap.get(op)
        return None

    n_hid = n_out = 0
    for path in _paths_of(fn.node):
        if path.kind != "return":
            continue
        r = path.ret
        if not (isinstance(r, ast.Tuple) and len(r.elts) == 2):
            res.undecide("%s:_get_mask_and_degrees" % mod.name, "a path does not return (mask, degrees)")
            continue
        mask, deg = r.elts
        atoms = set()
        for et, raw, pol in path.conds:
            atoms |= cond_atoms(raw, pol)
        is_out = "is_output" in atoms
        is_hid = "not(is_output)" in atoms
        if not (is_out or is_hid):
            res.undecide("%s:_get_mask_and_degrees" % mod.name, "a returning path does not decide is_output")
            continue
        op = mask_op(mask, deg)
        node = path.ret_node
        if is_hid:
            n_hid += 1
            if op in (ast.GtE, ast.Gt):
                res.ok("%s DEG-HID: mask = degrees[...,None] %s in_degrees maps Deg(in) to Deg(out) for any out" % (mod.name, ">=" if op is ast.GtE else ">"))
            elif op is None:
                res.fail(Finding("DEG-HID", mod, fn.qualname, node, "hidden-layer mask is not `out_degrees[..., None] >= in_degrees` (out degrees on the row side): unit k could see inputs above its degree", construct="hidden mask"))
            else:
                res.fail(Finding("DEG-HID", mod, fn.qualname, node, "hidden-layer mask uses the wrong comparison direction: a unit of degree d would be connected to units of degree > d", construct="hidden mask"))
        else:
            n_out += 1
            if op is ast.Gt:
                res.ok("%s DEG-OUT: output mask is strict (>)" % mod.name)
            elif op is ast.GtE:
                res.fail(Finding("DEG-OUT", mod, fn.qualname, node, "output-layer mask uses >=: the outputs of feature i would depend on input i itself (not strictly autoregressive)", construct="output mask"))
            else:
                res.fail(Finding("DEG-OUT", mod, fn.qualname, node, "output-layer mask is not `out_degrees[..., None] > in_degrees`", construct="output mask"))
            # output degrees: tile(_get_input_degrees(F), out_features // F)
            okd = False
            v = deg
            if isinstance(v, ast.Call):
                callee = p.resolve_expr(mod, v.func)
                if getattr(callee, "name", None) == "tile" and len(v.args) == 2:
                    a0, a1 = v.args
                    inner = p.resolve_expr(mod, a0.func) if isinstance(a0, ast.Call) else None
                    if getattr(inner, "name", None) == "_get_input_degrees" and a0.args and norm_text(a0.args[0]) == "autoregressive_features" and norm_text(a1) == "out_features // autoregressive_features":
                        okd = True
            if okd:
                res.ok("%s DEG-OUT: out_degrees = tile(IN(F), out_features // F)" % mod.name)
            else:
                res.fail(Finding("DEG-OUT", mod, fn.qualname, node, "output degrees are not tile(_get_input_degrees(F), out_features // F): output blocks would not line up with features", construct="output degrees"))
    if not n_hid:
        res.undecide("%s:DEG-HID" % mod.name, "no returning path for hidden layers")
    if not n_out:
        res.undecide("%s:DEG-OUT" % mod.name, "no returning path for the output layer")
    # _get_input_degrees = arange(1, F+1)
    gid = mod.functions.get("_get_input_degrees")
    if gid is None:
        raise AnalysisIncomplete("%s: _get_input_degrees missing" % mod.name)
    r = [n for n in ast.walk(gid.node) if isinstance(n, ast.Return)]
    pn = gid.params()[0][0]
    forms = ("torch.arange(1, %s + 1)" % pn, "torch.arange(%s) + 1" % pn, "torch.arange(1, 1 + %s)" % pn, "torch.arange(1 + %s) - 0" % pn)

    def resolved(e, depth=0):
        """what a returned expression is: copies and memo-table reads looked through (a table entry is what every
        store into that table in this function puts there, if they all agree)"""
        while isinstance(e, ast.Call) and isinstance(e.func, ast.Attribute) and e.func.attr in ("clone", "detach", "contiguous", "long") and not e.args:
            e = e.func.value
        if isinstance(e, ast.Name) and depth < 4:
            defs = [a.value for a in ast.walk(gid.node) if isinstance(a, ast.Assign) and any(isinstance(t, ast.Name) and t.id == e.id for t in a.targets)]
            if len(defs) == 1:
                return resolved(defs[0], depth + 1)
        if isinstance(e, ast.Subscript) and isinstance(e.value, ast.Name) and depth < 4:
            stores = [a.value for a in ast.walk(gid.node) if isinstance(a, ast.Assign) and any(isinstance(t, ast.Subscript) and isinstance(t.value, ast.Name) and t.value.id == e.value.id and norm_text(t.slice) == norm_text(e.slice) for t in a.targets)]
            if stores and len({norm_text(x) for x in stores}) == 1:
                return resolved(stores[0], depth + 1)
            return None
        return e

    vals = [resolved(x.value) if x.value is not None else None for x in r]
    if r and all(v is not None and norm_text(v) in forms for v in vals):
        res.ok("%s DEG-IN: input degrees are 1..F" % mod.name)
    elif r and any(v is None for v in vals):
        res.undecide("%s:DEG-IN" % mod.name, "cannot resolve what _get_input_degrees returns")
    else:
        res.fail(Finding("DEG-IN", mod, gid.qualname, gid.node, "input degrees are not arange(1, F + 1)"))


def check_apply(p, mod, res):
    """DEG-APPLY: forward = F.linear(x, weight * mask, bias), weight has no other use."""
    ml = mod.classes["MaskedLinear"]
    fw = ml.methods.get("forward")
    if fw is None:
        res.fail(Finding("DEG-APPLY", mod, "MaskedLinear", ml.node, "MaskedLinear does not override forward: the inherited nn.Linear.forward ignores the mask", construct="class MaskedLinear forward"))
        return
    weight_uses = [n for n in ast.walk(fw.node) if isinstance(n, ast.Attribute) and attr_chain(n) == "self.weight"]
    rets = [n for n in ast.walk(fw.node) if isinstance(n, ast.Return)]
    okc = 0
    locals_ = {}
    for n in ast.walk(fw.node):
        if isinstance(n, ast.Assign) and len(n.targets) == 1 and isinstance(n.targets[0], ast.Name):
            locals_[n.targets[0].id] = n.value
    for r in rets:
        v = r.value
        if isinstance(v, ast.Name) and v.id in locals_:
            v = locals_[v.id]
        good = False
        if isinstance(v, ast.Call) and norm_text(v.func).split(".")[-1] == "linear":
            w = _kw(v, "weight", 1)
            if isinstance(w, ast.Name) and w.id in locals_:
                w = locals_[w.id]
            if isinstance(w, ast.BinOp) and isinstance(w.op, ast.Mult):
                sides = {attr_chain(w.left), attr_chain(w.right)}
                good = sides == {"self.weight", "self.mask"}
            elif isinstance(w, ast.Call) and norm_text(w.func) in ("torch.mul",) and len(w.args) == 2:
                good = {attr_chain(w.args[0]), attr_chain(w.args[1])} == {"self.weight", "self.mask"}
        if good:
            okc += 1
        else:
            res.fail(Finding("DEG-APPLY", mod, fw.qualname, r, "MaskedLinear.forward does not return F.linear(x, self.weight * self.mask, ...): the mask is not applied on this path"))
    if len(weight_uses) > max(okc, 1):
        res.fail(Finding("DEG-APPLY", mod, fw.qualname, fw.node, "self.weight is used outside the masked product", construct="uses of self.weight"))
    elif okc:
        res.ok("%s DEG-APPLY: weight * mask on every path (%d returns)" % (mod.name, okc))
    # mask orientation [out, in]: nn.Linear(in_features=len(in_degrees), out_features=out_features)
    init = ml.methods.get("__init__")
    sup = [n for n in ast.walk(init.node) if isinstance(n, ast.Call) and isinstance(n.func, ast.Attribute) and n.func.attr == "__init__"]
    if sup and norm_text(_kw(sup[0], "in_features", 0) or ast.Constant(value=None)) == "len(in_degrees)" and norm_text(_kw(sup[0], "out_features", 1) or ast.Constant(value=None)) == "out_features":
        res.ok("%s DEG-APPLY: weight is [out_features, len(in_degrees)], the mask's [out, in] orientation" % mod.name)
    else:
        res.fail(Finding("DEG-APPLY", mod, init.qualname, init.node, "nn.Linear is not constructed as (in_features=len(in_degrees), out_features=out_features): mask and weight orientations may differ", construct="super().__init__ of MaskedLinear"))
    # buffers registered from the returned pair, in order
    regs = {}
    for n in ast.walk(init.node):
        if isinstance(n, ast.Call) and isinstance(n.func, ast.Attribute) and n.func.attr == "register_buffer" and len(n.args) >= 2 and isinstance(n.args[0], ast.Constant):
            regs[n.args[0].value] = norm_text(n.args[1])
    # ... or through the attribute table (self.mask = nn.Buffer(mask), a dtype cast of the pair's element)
    table = p.attrs(ml)
    for nm in ("mask", "degrees"):
        ai = table.get(nm)
        v = getattr(ai, "value", None) if ai is not None else None
        while isinstance(v, ast.Call) and isinstance(v.func, ast.Attribute) and v.func.attr in ("to", "float", "double", "type_as", "clone", "contiguous") and isinstance(v.func.value, (ast.Name, ast.Call)):
            v = v.func.value
        if nm not in regs and isinstance(v, ast.Name):
            regs[nm] = v.id
    unpack = [n for n in ast.walk(init.node) if isinstance(n, ast.Assign) and isinstance(n.targets[0], ast.Tuple) and isinstance(n.value, ast.Call) and "_get_mask_and_degrees" in norm_text(n.value.func)]
    if unpack and len(unpack[0].targets[0].elts) == 2:
        a, b = (norm_text(e) for e in unpack[0].targets[0].elts)
        if regs.get("mask") == a and regs.get("degrees") == b:
            res.ok("%s DEG-APPLY: buffers mask/degrees are the pair returned by _get_mask_and_degrees" % mod.name)
        else:
            res.fail(Finding("DEG-APPLY", mod, init.qualname, unpack[0], "buffers `mask`/`degrees` are not registered from the (mask, degrees) pair in that order"))
    else:
        res.undecide("%s MaskedLinear.__init__" % mod.name, "mask/degrees are not unpacked from _get_mask_and_degrees")


def check_own(p, res):
    """DEG-OWN: nobody but MaskedLinear.__init__ writes a layer's mask / degrees."""
    n_sites = 0
    for fi in p.all_functions():
        in_ml_init = fi.cls is not None and fi.cls.name == "MaskedLinear" and fi.name == "__init__"
        for n in ast.walk(fi.node):
            tgt = None
            how = None
            if isinstance(n, (ast.Assign, ast.AugAssign)):
                tl = n.targets if isinstance(n, ast.Assign) else [n.target]
                for t in tl:
                    for tt in (t.elts if isinstance(t, (ast.Tuple, ast.List)) else [t]):
                        base = tt
                        while isinstance(base, ast.Subscript):
                            base = base.value
                        if isinstance(base, ast.Attribute) and base.attr == "data":
                            base = base.value
                        if isinstance(base, ast.Attribute) and base.attr in ("mask", "degrees"):
                            tgt, how = base, "store"
            elif isinstance(n, ast.Call) and isinstance(n.func, ast.Attribute):
                if n.func.attr.endswith("_") and not n.func.attr.endswith("__") and isinstance(n.func.value, ast.Attribute) and n.func.value.attr in ("mask", "degrees"):
                    tgt, how = n.func.value, "in-place " + n.func.attr
                elif n.func.attr == "register_buffer" and n.args and isinstance(n.args[0], ast.Constant) and n.args[0].value in ("mask", "degrees") and fi.cls is not None and fi.cls.name == "MaskedLinear":
                    tgt, how = n, "register_buffer"
            if tgt is None:
                continue
            n_sites += 1
            # a block's own plain `degrees` attribute (alias read by constructors) is not a layer buffer
            recv_is_block_self = isinstance(tgt, ast.Attribute) and attr_chain(tgt.value) == "self" and fi.cls is not None and fi.cls.name != "MaskedLinear" and tgt.attr == "degrees" and fi.name == "__init__"
            if in_ml_init or recv_is_block_self:
                continue
            is_mask_related = fi.module.name in COPIES or (fi.cls is not None and fi.cls.name == "MaskedLinear") or (isinstance(tgt, ast.Attribute) and any(s in norm_text(tgt) for s in ("layer", "linear", "made", "autoregressive_net", "blocks")))
            if is_mask_related:
                res.fail(Finding("DEG-OWN", fi.module, fi.qualname, n, "%s of a masked layer's `%s` outside MaskedLinear.__init__" % (how, tgt.attr if isinstance(tgt, ast.Attribute) else "buffer")))
    res.ok("DEG-OWN: %d mask/degrees write sites, all in MaskedLinear.__init__ or block-local aliases" % n_sites)


# ---------------------------------------------------------------------------------------
# constructor wiring + forward typing
# ---------------------------------------------------------------------------------------


class Wiring:
    def __init__(self):
        self.slots = {}  # slot text ('initial_layer', 'linear_layers[0]', 'linear') -> dict(in=sym, out=sym, is_output=bool, node)
        self.declared = None  # sym of self.degrees
        self.chain = None  # dict(list_slot, start, exit) for the block list
        self.ext = {}  # slot -> external module dotted name
        self.callables = set()
        self.guard = False


def _sym_of(e, env, w):
    """Symbolic degree vector denoted by expression e in a constructor."""
    if e is None:
        return None
    if isinstance(e, ast.Name):
        return env.get(e.id)
    if isinstance(e, ast.Call) and norm_text(e.func).endswith("_get_input_degrees"):
        return "IN"
    if isinstance(e, ast.Attribute) and e.attr == "degrees":
        b = e.value
        if isinstance(b, ast.Name) and isinstance(env.get(b.id), tuple) and env[b.id][0] == "layer":
            return env[b.id][1]
        ch = attr_chain(b)
        if ch and ch.startswith("self."):
            slot = ch[5:]
            if slot in w.slots:
                return w.slots[slot]["out"]
        if isinstance(b, ast.Subscript) and isinstance(b.value, ast.Name) and const_number(b.slice) == -1:
            v = env.get(b.value.id)
            if isinstance(v, tuple) and v[0] == "locallist" and v[1]:
                return v[1][-1]["out"]
            if isinstance(v, tuple) and v[0] == "blocklist":
                return ("lastdeg", b.value.id)
    if isinstance(e, ast.Attribute) and attr_chain(e) == "self.degrees":
        return w.declared
    return None


def extract_wiring(p, cls):
    """Reads the constructor: which masked layers exist, what in_degrees each was given."""
    w = Wiring()
    init = cls.methods.get("__init__")
    if init is None:
        raise AnalysisIncomplete("%s.__init__ missing" % cls.name)
    env = {"in_degrees": "INB"}
    counter = [0]

    def is_masked_ctor(call):
        r = p.resolve_expr(cls.module, call.func)
        return isinstance(r, ClassInfo) and r.name == "MaskedLinear"

    def handle_assign(st, env):
        v = st.value
        for t in st.targets:
            if isinstance(v, ast.Call) and is_masked_ctor(v):
                counter[0] += 1
                insym = _sym_of(_kw(v, "in_degrees", 0), env, w)
                iso = _kw(v, "is_output", 4)
                is_out = isinstance(iso, ast.Constant) and iso.value is True
                if iso is not None and not isinstance(iso, ast.Constant):
                    is_out = None
                name = None
                if isinstance(t, ast.Name):
                    name = t.id
                    # a local name bound to one layer after another (an unrolled loop): one symbol per layer
                    used = env.setdefault("#layer-names", {})
                    used[name] = used.get(name, 0) + 1
                    outsym = "deg(%s)" % name if used[name] == 1 else "deg(%s#%d)" % (name, used[name])
                    env[name] = ("layer", outsym, {"in": insym, "out": outsym, "is_output": is_out, "node": v})
                elif attr_chain(t) and attr_chain(t).startswith("self."):
                    slot = attr_chain(t)[5:]
                    outsym = "deg(self.%s)" % slot
                    w.slots[slot] = {"in": insym, "out": outsym, "is_output": is_out, "node": v}
                continue
            if isinstance(t, ast.Name):
                s = _sym_of(v, env, w)
                if s is not None:
                    env[t.id] = s
                    if isinstance(v, ast.Name) and isinstance(s, tuple) and s[0] == "blocklist":
                        env.setdefault("#alias", {})[t.id] = env.get("#alias", {}).get(v.id, v.id)
                elif isinstance(v, ast.IfExp) and all(isinstance(p.resolve_expr(cls.module, b), ClassInfo) for b in (v.body, v.orelse) if isinstance(b, (ast.Name, ast.Attribute))) and all(isinstance(b, (ast.Name, ast.Attribute)) for b in (v.body, v.orelse)):
                    # X = A if c else B : constructor selection
                    for b in (v.body, v.orelse):
                        env.setdefault("#ctors", {}).setdefault(t.id, set()).add(p.resolve_expr(cls.module, b))
                elif isinstance(v, ast.List) and not v.elts:
                    env[t.id] = ("blocklist", None)
                elif isinstance(v, ast.Name) and isinstance(env.get(v.id), tuple):
                    env[t.id] = env[v.id]
                    env.setdefault("#alias", {})[t.id] = env.get("#alias", {}).get(v.id, v.id)
                else:
                    r = p.resolve_expr(cls.module, v) if isinstance(v, (ast.Name, ast.Attribute)) else None
                    if isinstance(r, ClassInfo):
                        env.setdefault("#ctors", {}).setdefault(t.id, set()).add(r)
                    else:
                        env.pop(t.id, None)
            elif attr_chain(t) and attr_chain(t).startswith("self."):
                slot = attr_chain(t)[5:]
                if slot == "degrees":
                    w.declared = _sym_of(v, env, w)
                elif isinstance(v, ast.Call):
                    r = p.resolve_expr(cls.module, v.func)
                    dotted = r[1] if isinstance(r, tuple) and r[0] == "ext" else None
                    if dotted == "torch.nn.ModuleList" and not v.args:
                        # self.blocks = nn.ModuleList(); filled by append in a loop
                        env["self." + slot] = ("blocklist", None)
                    if dotted == "torch.nn.ModuleList" and v.args:
                        a = v.args[0]
                        if isinstance(a, ast.List):
                            for i, e in enumerate(a.elts):
                                if isinstance(e, ast.Name) and isinstance(env.get(e.id), tuple) and env[e.id][0] == "layer":
                                    w.slots["%s[%d]" % (slot, i)] = env[e.id][2]
                                elif isinstance(e, ast.Call):
                                    rr = p.resolve_expr(cls.module, e.func)
                                    if isinstance(rr, tuple):
                                        w.ext["%s[%d]" % (slot, i)] = rr[1]
                        elif isinstance(a, ast.Name) and isinstance(env.get(a.id), tuple) and env[a.id][0] == "locallist":
                            for i, lay in enumerate(env[a.id][1]):
                                w.slots["%s[%d]" % (slot, i)] = lay
                        elif isinstance(a, ast.ListComp) and isinstance(a.elt, ast.Call):
                            rr = p.resolve_expr(cls.module, a.elt.func)
                            if isinstance(rr, tuple):
                                w.ext[slot + "[*]"] = rr[1]
                        elif isinstance(a, ast.Name) and isinstance(env.get(a.id), tuple) and env[a.id][0] == "blocklist":
                            w.chain = dict(env[a.id][1] or {}, slot=slot, listvar=env.get("#alias", {}).get(a.id, a.id))
                    elif dotted and dotted.startswith("torch.nn."):
                        w.ext[slot] = dotted
                elif isinstance(v, ast.Name) and v.id in {a for a, _ in init.params()}:
                    w.callables.add(slot)
                elif isinstance(v, ast.Constant) and v.value is None:
                    w.ext.setdefault(slot, None)

    def walk(stmts, env):
        for st in stmts:
            if isinstance(st, ast.Assign):
                # `X = A if c else B` style constructor selection through if/else
                handle_assign(st, env)
            elif isinstance(st, ast.If):
                # both branches see the same symbolic env; block-constructor selection
                e1, e2 = dict(env), dict(env)
                walk(st.body, e1)
                walk(st.orelse, e2)
                for k in set(e1) | set(e2):
                    if k == "#ctors":
                        merged = {}
                        for src in (e1.get(k, {}), e2.get(k, {})):
                            for nm, cs in src.items():
                                merged.setdefault(nm, set()).update(cs)
                        env[k] = merged
                    elif e1.get(k) == e2.get(k):
                        env[k] = e1.get(k)
                # the residual-degree guard
                t = st.test
                if any(isinstance(b, ast.Raise) for b in st.body) and _is_not_all_ge(t, w):
                    w.guard = st
            elif isinstance(st, ast.For):
                _loop(st, env)
            elif isinstance(st, ast.Expr):
                # straight-line  lst.append(layer)  (a loop over range(2) written out, or by hand)
                c = st.value
                # self._check(args): a private method of the class that only checks and raises
                if isinstance(c, ast.Call) and isinstance(c.func, ast.Attribute) and isinstance(c.func.value, ast.Name) and c.func.value.id == "self" and c.func.attr.startswith("_") and not c.keywords and all(isinstance(a, ast.Name) for a in c.args):
                    h = cls.lookup_method(c.func.attr)
                    if h is not None and not any(c.func.attr in sub.methods for sub in cls.all_subclasses() if sub is not cls):
                        params = [a for a, _ in h.params()]
                        if params and params[0] == "self":
                            params = params[1:]
                        body = [x for x in h.node.body if not (isinstance(x, ast.Expr) and isinstance(x.value, ast.Constant))]
                        if len(params) == len(c.args) and body and all(isinstance(x, ast.If) and not x.orelse and all(isinstance(y, ast.Raise) for y in x.body) for x in body):
                            ren = {pn: a.id for pn, a in zip(params, c.args)}
                            for x in body:
                                t2 = copy.deepcopy(x.test)
                                for nn in ast.walk(t2):
                                    if isinstance(nn, ast.Name) and nn.id in ren:
                                        nn.id = ren[nn.id]
                                if _is_not_all_ge(t2, w):
                                    w.guard = x
                    continue
                if isinstance(c, ast.Call) and isinstance(c.func, ast.Attribute) and c.func.attr == "append" and isinstance(c.func.value, ast.Name) and len(c.args) == 1 and isinstance(c.args[0], ast.Name):
                    lst, item = c.func.value.id, env.get(c.args[0].id)
                    cur = env.get(lst)
                    if isinstance(item, tuple) and item[0] == "layer" and isinstance(cur, tuple) and cur[0] in ("blocklist", "locallist") and (cur[0] == "locallist" or cur[1] is None):
                        env[lst] = ("locallist", (list(cur[1]) if cur[0] == "locallist" else []) + [item[2]])

    def _loop(st, env):
        """for _ in range(n): blocks.append(C(in_degrees=prev, ...)); prev = blocks[-1].degrees
        -- also with the block bound to a local first and / or appended to a ModuleList attribute"""
        appends = []
        carried = None
        local_ctor = {}
        alt_ctor = {}
        for s in st.body:
            # the block class chosen per iteration: if c: b = A(in_degrees=prev, ..) else: b = B(in_degrees=prev, ..)
            if isinstance(s, ast.If) and len(s.body) == 1 and len(s.orelse) == 1 and all(isinstance(q, ast.Assign) and len(q.targets) == 1 and isinstance(q.targets[0], ast.Name) and isinstance(q.value, ast.Call) and _kw(q.value, "in_degrees", None) is not None for q in (s.body[0], s.orelse[0])) and s.body[0].targets[0].id == s.orelse[0].targets[0].id and norm_text(_kw(s.body[0].value, "in_degrees", None)) == norm_text(_kw(s.orelse[0].value, "in_degrees", None)):
                local_ctor[s.body[0].targets[0].id] = s.body[0].value
                alt_ctor[s.body[0].targets[0].id] = s.orelse[0].value
                continue
            # ... or appended per iteration: if c: lst.append(A(in_degrees=prev, ..)) else: lst.append(B(in_degrees=prev, ..))
            if isinstance(s, ast.If) and len(s.body) == 1 and len(s.orelse) == 1 and all(isinstance(q, ast.Expr) and isinstance(q.value, ast.Call) and isinstance(q.value.func, ast.Attribute) and q.value.func.attr == "append" and len(q.value.args) == 1 and isinstance(q.value.args[0], ast.Call) and _kw(q.value.args[0], "in_degrees", None) is not None for q in (s.body[0], s.orelse[0])) and norm_text(s.body[0].value.func.value) == norm_text(s.orelse[0].value.func.value) and norm_text(_kw(s.body[0].value.args[0], "in_degrees", None)) == norm_text(_kw(s.orelse[0].value.args[0], "in_degrees", None)):
                alt_ctor["#append"] = s.orelse[0].value.args[0]
                s = s.body[0]
            if isinstance(s, ast.Expr) and isinstance(s.value, ast.Call) and isinstance(s.value.func, ast.Attribute) and s.value.func.attr == "append":
                recv = s.value.func.value
                key = recv.id if isinstance(recv, ast.Name) else (attr_chain(recv) if attr_chain(recv) and attr_chain(recv).startswith("self.") else None)
                if key is not None:
                    appends.append((key, s.value.args[0] if s.value.args else None))
            elif isinstance(s, ast.Assign) and len(s.targets) == 1 and isinstance(s.targets[0], ast.Name):
                if isinstance(s.value, ast.Call) and _kw(s.value, "in_degrees", None) is not None:
                    local_ctor[s.targets[0].id] = s.value
                else:
                    carried = (s.targets[0].id, s.value)
        if len(appends) != 1:
            return
        lst, ctor = appends[0]
        blockvar = None
        if isinstance(ctor, ast.Name) and ctor.id in local_ctor:
            blockvar = ctor.id
            ctor = local_ctor[ctor.id]
        if not (isinstance(env.get(lst), tuple) and env[lst][0] == "blocklist") or not isinstance(ctor, ast.Call):
            return
        ind = _kw(ctor, "in_degrees", 0)
        info = {"ctor": ctor, "ctor_classes": set(), "in_expr": ind, "start": None, "step_ok": False, "node": st}
        if isinstance(ctor.func, ast.Name):
            info["ctor_classes"] = set(env.get("#ctors", {}).get(ctor.func.id, set()))
            r = p.resolve_expr(cls.module, ctor.func)
            if isinstance(r, ClassInfo):
                info["ctor_classes"].add(r)
        for key in (blockvar, "#append"):
            if key is not None and key in alt_ctor and isinstance(alt_ctor[key].func, (ast.Name, ast.Attribute)):
                r = p.resolve_expr(cls.module, alt_ctor[key].func)
                if isinstance(r, ClassInfo):
                    info["ctor_classes"].add(r)
        if isinstance(ind, ast.Name) and carried is not None and carried[0] == ind.id:
            info["start"] = env.get(ind.id)
            cv = carried[1]
            # carried := <list>[-1].degrees   or   <the block just built>.degrees
            if isinstance(cv, ast.Attribute) and cv.attr == "degrees":
                b = cv.value
                if isinstance(b, ast.Subscript) and const_number(b.slice) == -1 and (norm_text(b.value) == lst):
                    info["step_ok"] = True
                elif blockvar is not None and isinstance(b, ast.Name) and b.id == blockvar:
                    info["step_ok"] = True
            info["carried"] = ind.id
            env[ind.id] = ("chain-exit", lst)
        env[lst] = ("blocklist", info)
        if lst.startswith("self."):
            w.chain = dict(info, slot=lst[5:], listvar=lst)

    # helper calls of the constructor are written out first (private methods of the class, module-level factories)
    from ..inline import write_out_helpers
    from ..model import FuncInfo

    def resolve(call):
        f = call.func
        if isinstance(f, ast.Attribute) and isinstance(f.value, ast.Name) and f.value.id in ("self", "cls", cls.name) and f.attr.startswith("_") and not f.attr.startswith("__"):
            m = cls.lookup_method(f.attr)
            if m is not None and not any(f.attr in sub.methods for sub in cls.all_subclasses() if sub is not cls):
                return (m.node, not m.is_static)
        if isinstance(f, ast.Name) and f.id.startswith("_"):
            r = p.resolve_expr(cls.module, f)
            if isinstance(r, FuncInfo) and r.cls is None:
                return (r.node, False)
        return None

    try:
        body = write_out_helpers(copy.deepcopy(init.node.body), resolve)
    except Exception:
        body = init.node.body
    walk(body, env)
    w.env = env
    return w


def _is_not_all_ge(t, w):
    """Does `t` hold exactly when NOT all(declared >= in_degrees)?"""
    neg = False
    e = t
    for _ in range(6):
        if isinstance(e, ast.UnaryOp) and isinstance(e.op, ast.Not):
            neg = not neg
            e = e.operand
            continue
        if isinstance(e, ast.Compare) and len(e.ops) == 1:
            c = e.comparators[0]
            if isinstance(c, ast.Constant) and c.value in (1, True) and isinstance(e.ops[0], (ast.NotEq, ast.IsNot)):
                neg = not neg
                e = e.left
                continue
            if isinstance(c, ast.Constant) and c.value in (0, False) and isinstance(e.ops[0], (ast.Eq, ast.Is)):
                neg = not neg
                e = e.left
                continue
        if isinstance(e, ast.Call) and isinstance(e.func, ast.Attribute) and e.func.attr in ("item", "bool") and not e.args:
            e = e.func.value
            continue
        break
    kind = None
    inner = None
    if isinstance(e, ast.Call):
        f = norm_text(e.func)
        if f in ("torch.all", "all") and e.args:
            kind, inner = "all", e.args[0]
        elif f in ("torch.any", "any") and e.args:
            kind, inner = "any", e.args[0]
        elif isinstance(e.func, ast.Attribute) and e.func.attr in ("all", "any") and not e.args:
            kind, inner = e.func.attr, e.func.value
    if kind is None or not isinstance(inner, ast.Compare) or len(inner.ops) != 1:
        return False
    l, r = norm_text(inner.left), norm_text(inner.comparators[0])
    op = type(inner.ops[0])
    decl = {"self.degrees"}
    if isinstance(w.declared, str) and w.declared.startswith("deg("):
        decl.add(w.declared[4:-1] + ".degrees")
        decl.add("self.linear_layers[-1].degrees")

    def is_ge():
        return (l in decl and r == "in_degrees" and op is ast.GtE) or (r in decl and l == "in_degrees" and op is ast.LtE)

    def is_lt():
        return (l in decl and r == "in_degrees" and op is ast.Lt) or (r in decl and l == "in_degrees" and op is ast.Gt)

    if kind == "all" and is_ge():
        return neg  # not all(declared >= in)
    if kind == "any" and is_lt():
        return not neg  # any(declared < in)
    return False


class Typer:
    """Types the body of a forward method against the wiring."""

    def __init__(self, p, cls, w, res, input_type, block_wirings=None):
        self.p = p
        self.cls = cls
        self.w = w
        self.res = res
        self.input_type = input_type
        self.block_wirings = block_wirings or {}
        self.fi = cls.methods["forward"]
        self.errors = 0

    def fail(self, rule, node, msg):
        self.errors += 1
        self.res.fail(Finding(rule, self.cls.module, self.fi.qualname, node, msg))

    def slot_of(self, e):
        """'initial_layer' / 'linear_layers[0]' for self.<slot>, else None"""
        if isinstance(e, ast.Subscript):
            ch = attr_chain(e.value)
            i = const_number(e.slice)
            if i is None and isinstance(e.slice, ast.Name) and isinstance(getattr(self, "consts", {}).get(e.slice.id), int):
                i = self.consts[e.slice.id]
            if ch and ch.startswith("self.") and i is not None:
                return "%s[%d]" % (ch[5:], i)
            if ch and ch.startswith("self."):
                return "%s[*]" % ch[5:]
            return None
        ch = attr_chain(e)
        if ch and ch.startswith("self."):
            return ch[5:]
        return None

    def type_expr(self, e, env):
        if isinstance(e, ast.Name):
            if e.id in env:
                return env[e.id]
            return BOT if e.id == "context" else None
        if isinstance(e, ast.Constant):
            return BOT
        if isinstance(e, ast.BinOp) and isinstance(e.op, (ast.Add, ast.Sub)):
            a, b = self.type_expr(e.left, env), self.type_expr(e.right, env)
            return self.join_sum(a, b, e)
        if isinstance(e, ast.BinOp) and isinstance(e.op, (ast.Mult, ast.Div)):
            a, b = self.type_expr(e.left, env), self.type_expr(e.right, env)
            return self.join_sum(a, b, e)
        if isinstance(e, ast.Call):
            slot = self.slot_of(e.func)
            args = list(e.args) + [k.value for k in e.keywords]
            if slot is not None:
                lay = self.w.slots.get(slot)
                if lay is not None:
                    t = self.type_expr(args[0], env) if args else None
                    if t is None:
                        self.fail("DEG-WIRE", e, "cannot type the argument of masked layer self.%s" % slot)
                        return None
                    if t == BOT:
                        return BOT
                    if lay["in"] is None:
                        self.fail("DEG-WIRE", e, "masked layer self.%s was constructed with in_degrees the checker cannot name" % slot)
                        return None
                    if t != ("deg", lay["in"]):
                        self.fail("DEG-WIRE", e, "masked layer self.%s was built for inputs of degree vector %s but is applied to a value of type %s" % (slot, lay["in"], _show(t)))
                        return None
                    self.res.ok("%s.%s: self.%s applied to %s -> %s" % (self.cls.module.name, self.fi.qualname, slot, _show(t), "Out(F,m)" if lay["is_output"] else "Deg(%s)" % lay["out"]))
                    return ("out",) if lay["is_output"] else ("deg", lay["out"])
                base_slot = slot.split("[")[0]
                ext = self.w.ext.get(slot, self.w.ext.get(base_slot + "[*]", self.w.ext.get(base_slot)))
                if ext is not None:
                    t = self.type_expr(args[0], env) if args else None
                    short = ext.split(".")[-1]
                    if short in ("BatchNorm1d", "Dropout", "Identity", "ReLU", "ELU", "Tanh", "Sigmoid", "LeakyReLU"):
                        return t
                    if t == BOT:
                        return BOT  # an unmasked layer applied to a context-only value
                    self.fail("DEG-ELEM", e, "unmasked module %s applied to an input-dependent value: it mixes units of different degrees" % ext)
                    return None
                if slot in self.w.callables or slot in ("activation",):
                    return self.type_expr(args[0], env) if args else BOT  # A-NET: elementwise
                helper = self.cls.lookup_method(slot) if "[" not in slot and "." not in slot else None
                if helper is not None and slot.startswith("_") and not slot.startswith("__") and getattr(self, "_depth", 0) < 4:
                    # a private helper of the class: type its body with the argument types
                    params = [a for a, _ in helper.params()]
                    henv = {}
                    saved = dict(getattr(self, "consts", {}))
                    self.consts = dict(saved)
                    for pn, a in zip(params, e.args):
                        henv[pn] = self.type_expr(a, env)
                        if const_number(a) is not None:
                            self.consts[pn] = const_number(a)
                    for k in e.keywords:
                        if k.arg in params:
                            henv[k.arg] = self.type_expr(k.value, env)
                    rets = []
                    self._depth = getattr(self, "_depth", 0) + 1
                    try:
                        self.block(helper.node.body, henv, rets)
                    finally:
                        self._depth -= 1
                        self.consts = saved
                    types = [t for _, t in rets]
                    if types and all(t == types[0] for t in types):
                        return types[0]
                    self.fail("DEG-WIRE", e, "helper self.%s returns values of different degree types %s" % (slot, [_show(t) for t in types]))
                    return None
                # chained block call through the loop is handled by the statement walker
                self.fail("DEG-ELEM", e, "call of self.%s on the conditioner path is not a masked layer, an elementwise activation, dropout or batch norm" % slot)
                return None
            # other calls: only degree-preserving elementwise torch functions are allowed
            f = norm_text(e.func)
            last = f.split(".")[-1]
            ts = [self.type_expr(a, env) for a in args]
            if all(t == BOT for t in ts):
                return BOT
            if last in ("relu", "tanh", "sigmoid", "elu", "leaky_relu", "softplus", "dropout", "gelu", "clone", "contiguous", "float", "double"):
                return ts[0]
            self.fail("DEG-ELEM", e, "operation %s applied to an input-dependent value between masked layers is not degree-preserving" % f)
            return None
        if isinstance(e, ast.IfExp):
            a, b = self.type_expr(e.body, env), self.type_expr(e.orelse, env)
            if a == b:
                return a
            self.fail("DEG-WIRE", e, "branches have different degree types %s / %s" % (_show(a), _show(b)))
            return None
        return None

    def join_sum(self, a, b, node):
        if a is None or b is None:
            return None
        if a == BOT:
            return b
        if b == BOT:
            return a
        if a == b:
            return a
        if a[0] == "deg" and b[0] == "deg":
            return ("max", a[1], b[1])
        self.fail("DEG-ELEM", node, "sum of values of types %s and %s" % (_show(a), _show(b)))
        return None

    def run(self):
        params = [a for a, _ in self.fi.params()]
        env = {params[0]: self.input_type}
        for pn in params[1:]:
            env[pn] = BOT
        rets = []
        self.block(self.fi.node.body, env, rets)
        return rets

    def block(self, stmts, env, rets):
        for st in stmts:
            if isinstance(st, ast.Expr) and isinstance(st.value, ast.Constant):
                continue
            if isinstance(st, ast.Assign) and len(st.targets) == 1 and isinstance(st.targets[0], ast.Name):
                env[st.targets[0].id] = self.type_expr(st.value, env)
            elif isinstance(st, ast.AugAssign) and isinstance(st.target, ast.Name) and isinstance(st.op, (ast.Add, ast.Sub)):
                env[st.target.id] = self.join_sum(env.get(st.target.id), self.type_expr(st.value, env), st)
            elif isinstance(st, ast.If):
                e1, e2 = dict(env), dict(env)
                self.block(st.body, e1, rets)
                self.block(st.orelse, e2, rets)
                for k in set(e1) | set(e2):
                    if e1.get(k) == e2.get(k):
                        env[k] = e1.get(k)
                    elif k in e1 and k in e2:
                        self.fail("DEG-WIRE", st, "variable %s has degree type %s on one branch and %s on the other" % (k, _show(e1.get(k)), _show(e2.get(k))))
                        env[k] = None
            elif isinstance(st, ast.For):
                self.loop(st, env)
            elif isinstance(st, ast.Return):
                rets.append((st, self.type_expr(st.value, env)))
            elif isinstance(st, (ast.Pass, ast.Assert)):
                continue
            else:
                self.fail("DEG-ELEM", st, "statement form not supported on the conditioner path")

    def loop(self, st, env):
        """for block in self.blocks: temps = block(temps, context) -- induction over the list"""
        ch = self.w.chain
        it = attr_chain(st.iter)
        if ch is None or it != "self." + ch.get("slot", "?") or not isinstance(st.target, ast.Name):
            self.fail("DEG-WIRE", st, "loop over %s does not iterate the block list in construction order" % norm_text(st.iter))
            return
        body = [s for s in st.body if not isinstance(s, ast.Pass)]
        if len(body) != 1 or not isinstance(body[0], ast.Assign) or not isinstance(body[0].targets[0], ast.Name) or not isinstance(body[0].value, ast.Call) or not (isinstance(body[0].value.func, ast.Name) and body[0].value.func.id == st.target.id):
            self.fail("DEG-WIRE", st, "loop body is not `x = block(x, ...)`")
            return
        var = body[0].targets[0].id
        call = body[0].value
        arg0 = call.args[0] if call.args else None
        if not (isinstance(arg0, ast.Name) and arg0.id == var):
            self.fail("DEG-WIRE", st, "each block must be applied to the previous block's output")
            return
        if not ch.get("step_ok") or ch.get("start") is None:
            self.fail("DEG-WIRE", ch.get("node", st), "constructor does not thread each block's degrees into the next block's in_degrees")
            return
        if env.get(var) != ("deg", ch["start"]):
            self.fail("DEG-WIRE", st, "the first block was built for degree vector %s but receives a value of type %s" % (ch["start"], _show(env.get(var))))
            return
        # every block class maps Deg(in_degrees) to Deg(self.degrees): checked per class
        for bc in ch.get("ctor_classes", ()):
            bw = self.block_wirings.get(bc.name)
            if bw is None or not bw.get("ok"):
                self.fail("DEG-WIRE", st, "block class %s does not type-check as Deg(in_degrees) -> Deg(self.degrees)" % bc.name)
                return
        if not ch.get("ctor_classes"):
            self.fail("DEG-WIRE", st, "cannot resolve the block constructor")
            return
        self.res.ok("%s.%s: induction over self.%s: Deg(%s) -> Deg(chain end)" % (self.cls.module.name, self.fi.qualname, ch["slot"], ch["start"]))
        env[var] = ("deg", ("chain-exit", ch["listvar"]))


def _show(t):
    if t is None:
        return "<untyped>"
    if t == BOT:
        return "Deg(bottom)"
    if t[0] == "deg":
        return "Deg(%s)" % (t[1],)
    if t[0] == "max":
        return "Deg(max(%s, %s))" % (t[1], t[2])
    return str(t)


def check_copy(p, modname, res):
    mod = p.modules.get(modname)
    if mod is None:
        raise AnalysisIncomplete("module %s missing" % modname)
    check_mask_rules(p, mod, res)
    check_apply(p, mod, res)
    verdicts = {}
    block_wirings = {}
    for bname in ("MaskedFeedforwardBlock", "MaskedResidualBlock"):
        cls = mod.classes.get(bname)
        if cls is None:
            raise AnalysisIncomplete("%s.%s missing" % (modname, bname))
        w = extract_wiring(p, cls)
        before = len(res.findings)
        if w.declared is None:
            res.fail(Finding("DEG-WIRE", mod, cls.name + ".__init__", cls.methods["__init__"].node, "block does not declare self.degrees from its last masked layer", construct="self.degrees of " + cls.name))
        ty = Typer(p, cls, w, res, ("deg", "INB"))
        rets = ty.run()
        for st, t in rets:
            if t is None:
                if ty.errors == 0:
                    res.fail(Finding("DEG-WIRE", mod, ty.fi.qualname, st, "cannot type the returned value"))
            elif t == ("deg", w.declared):
                res.ok("%s.%s.forward : Deg(in_degrees) -> Deg(self.degrees)" % (modname, bname))
            elif t[0] == "max" and set(t[1:]) == {"INB", w.declared}:
                if w.guard:
                    res.ok("%s.%s.forward : residual sum typed Deg(max(in, out)) = Deg(self.degrees) by the constructor guard (DEG-RES)" % (modname, bname))
                else:
                    res.fail(Finding("DEG-RES", mod, cls.name + ".__init__", cls.methods["__init__"].node, "residual block returns inputs + temps but the constructor does not raise unless all(self.degrees >= in_degrees): a unit could inherit a higher degree than it declares", construct="residual degree guard of " + cls.name))
            else:
                res.fail(Finding("DEG-WIRE", mod, ty.fi.qualname, st, "block returns a value of type %s but declares Deg(%s)" % (_show(t), w.declared)))
        if not rets:
            res.undecide("%s.%s.forward" % (modname, bname), "no return")
        block_wirings[bname] = {"ok": len(res.findings) == before, "w": w}
    made = mod.classes.get("MADE")
    if made is None:
        raise AnalysisIncomplete("%s.MADE missing" % modname)
    w = extract_wiring(p, made)
    for need in ("initial_layer", "final_layer"):
        if need not in w.slots:
            raise AnalysisIncomplete("%s.MADE.%s is not a MaskedLinear" % (modname, need))
    fl = w.slots["final_layer"]
    il = w.slots["initial_layer"]
    if il["in"] != "IN":
        res.fail(Finding("DEG-WIRE", mod, "MADE.__init__", il["node"], "initial layer is not built on the input degrees 1..F"))
    else:
        res.ok("%s.MADE: initial_layer built on IN" % modname)
    if fl["is_output"] is not True:
        res.fail(Finding("DEG-WIRE", mod, "MADE.__init__", fl["node"], "final layer is not constructed with is_output=True (strict mask)"))
    else:
        res.ok("%s.MADE: final_layer is an output layer" % modname)
    if il["is_output"] is not False:
        res.fail(Finding("DEG-WIRE", mod, "MADE.__init__", il["node"], "initial layer must be a hidden layer (is_output=False)"))
    # F consistency: final layer's autoregressive_features is the F of _get_input_degrees
    f_in = None
    a = _kw(il["node"], "in_degrees", 0)
    if isinstance(a, ast.Call) and a.args:
        f_in = norm_text(a.args[0])
    f_fin = norm_text(_kw(fl["node"], "autoregressive_features", 2) or ast.Constant(value=None))
    of = _kw(fl["node"], "out_features", 1)
    of_ok = isinstance(of, ast.BinOp) and isinstance(of.op, ast.Mult) and f_in in (norm_text(of.left), norm_text(of.right))
    if f_in is None or f_fin != f_in or not of_ok:
        res.fail(Finding("DEG-WIRE", mod, "MADE.__init__", fl["node"], "final layer must have autoregressive_features = F and out_features = F * multiplier for the same F as the input degrees"))
    else:
        res.ok("%s.MADE: final_layer has F = %s and out_features = F * multiplier" % (modname, f_in))
    ty = Typer(p, made, w, res, ("deg", "IN"), block_wirings)
    rets = ty.run()
    # final layer's in must be the chain exit
    for st, t in rets:
        if t == ("out",):
            res.ok("%s.MADE.forward : Deg(IN) -> Out(F, m)   (strictly autoregressive for all sizes and weights)" % modname)
        elif ty.errors == 0:
            res.fail(Finding("DEG-WIRE", mod, ty.fi.qualname, st, "MADE.forward returns a value of type %s, not the output of the strict final layer" % _show(t)))
    if not rets:
        res.undecide("%s.MADE.forward" % modname, "no return")
    verdicts["ok"] = True
    return verdicts


def degree_rule(ctx):
    p = ctx.p
    res = RuleResult("DEG", "degree typing of both MADE copies: masks, application, wiring, residual guard")
    for m in COPIES:
        check_copy(p, m, res)
    check_own(p, res)
    if len(res.instances) < 30:
        raise AnalysisIncomplete("C06: %d obligations enumerated (< 30 confirmed by hand)" % len(res.instances))
    return res


# ---------------------------------------------------------------------------------------
# DEG-TILE
# ---------------------------------------------------------------------------------------


def tile_rule(ctx):
    """DEG-TILE / UT-TILE on the shape-level evaluator (nfstatic/shapeeval.py): tile(x, n) evaluated
    on arguments of rank 1..3 with distinct axes; every element must be followed by its n - 1 copies,
    i.e. the result is one axis laid out (all original axes ..., copy index)."""
    from ..axes import Mismatch, Unknown, show
    from ..shapeeval import ShapeEval, Sz, RaisesExc

    p = ctx.p
    res = RuleResult("DEG-TILE", "torchutils.tile lays copies out element-major, copy-minor (output unit k has degree k // m + 1)")
    fn = p.find_function("nflows.utils.torchutils", "tile")
    params = [a for a, _ in fn.params()]
    x, n = params[0], params[1]
    n_ok = 0
    for r in (1, 2, 3):
        lay = tuple(((("a%d" % i, "A%d" % i, False),)) for i in range(r))
        tag = "tile(x of rank %d, n)" % r
        ev = ShapeEval({x: lay}, {n: Sz(["n"])}, p, fn.module)
        try:
            out = ev.run(fn)
        except Unknown as u:
            res.undecide("torchutils.tile", "%s: %s" % (tag, u))
            continue
        except Mismatch as m:
            res.fail(Finding("DEG-TILE", fn.module, fn.qualname, fn.node, "%s: %s" % (tag, m.msg), construct="layout of tile"))
            break
        except RaisesExc as ex:
            res.fail(Finding("DEG-TILE", fn.module, fn.qualname, fn.node, "%s raises %s for a valid argument" % (tag, ex.exc), construct="layout of tile"))
            break
        got = tuple(tuple(a[0] for a in g) for g in out) if not (isinstance(out, tuple) and out and out[0] == "py") else None
        want = (tuple("a%d" % i for i in range(r)) + ("rep[n]",),)
        if got == want:
            n_ok += 1
        else:
            tiled = got is not None and len(got) == 1 and got[0][:1] == ("rep[n]",)
            res.fail(Finding("DEG-TILE", fn.module, fn.qualname, fn.node, "%s produces the layout %s, not element-major / copy-minor %s%s: output unit k would not belong to feature k // n" % (tag, show(out) if got is not None else out, "[(" + "*".join(want[0]) + ")]", " (it tiles the whole vector: x0, x1, .., x0, x1, ..)" if tiled else ""), construct="layout of tile"))
            break
    if n_ok == 3:
        res.ok("tile: [L] -> [L (x) n] (element-major, copy-minor) for ranks 1-3")
    return res


def _layout(e, env, n):
    """Symbolic layout (list of axes, each a list of factors) of a chain of reshapes."""
    if isinstance(e, ast.Name):
        return env.get(e.id)
    if isinstance(e, ast.Subscript):
        base = _layout(e.value, env, n)
        sl = e.slice
        elts = sl.elts if isinstance(sl, ast.Tuple) else [sl]
        if base is not None and len(base) == 1 and len(elts) == 2 and isinstance(elts[1], ast.Constant) and elts[1].value is None:
            return [base[0], []]
        return None
    if not (isinstance(e, ast.Call) and isinstance(e.func, ast.Attribute)):
        return None
    base = _layout(e.func.value, env, n)
    if base is None:
        return None
    m = e.func.attr
    args = e.args
    flat = [f for ax in base for f in ax]
    if m in ("reshape", "view") :
        vals = [norm_text(a) for a in args]
        if vals == ["-1"]:
            return [flat]
        if len(vals) == 2 and vals[0] == n and vals[1] == "-1":
            return [["n"], [f for f in flat[1:]]] if flat and flat[0] == "n" else None
        if len(vals) == 2 and vals[1] == n and vals[0] == "-1":
            return [[f for f in flat[:-1]], ["n"]] if flat and flat[-1] == "n" else None
        return None
    if m == "flatten" and not args:
        return [flat]
    if m == "repeat":
        vals = [norm_text(a) for a in args]
        if len(base) == 1 and vals == [n]:
            return [["n"] + base[0]]
        if len(base) == 2 and vals == ["1", n] and base[1] == []:
            return [base[0], ["n"]]
        return None
    if m == "repeat_interleave":
        vals = [norm_text(a) for a in args] + [norm_text(k.value) for k in e.keywords if k.arg == "repeats"]
        if len(base) == 1 and vals[:1] == [n]:
            return [base[0] + ["n"]]
        return None
    if m == "expand":
        vals = [norm_text(a) for a in args]
        if len(base) == 2 and base[1] == [] and len(vals) == 2 and vals[1] == n:
            return [base[0], ["n"]]
        return None
    if m == "unsqueeze":
        v = const_number(args[0]) if args else None
        if len(base) == 1 and v in (-1, 1):
            return [base[0], []]
        return None
    if m in ("transpose",):
        vals = sorted(norm_text(a) for a in args)
        if len(base) == 2 and vals in (["0", "1"], ["-1", "0"], ["-2", "-1"], ["-1", "-2"]):
            return [base[1], base[0]]
        return None
    if m in ("t",) and not args and len(base) == 2:
        return [base[1], base[0]]
    if m == "contiguous":
        return base
    return None


# ---------------------------------------------------------------------------------------
# DEG-USE: consumers reshape the MADE output feature-major
# ---------------------------------------------------------------------------------------


def _feature_like(e):
    t = norm_text(e)
    return t in ("self.features", "features", "inputs.shape[1]", "d", "D", "self.autoregressive_net.features") or t.endswith(".shape[1]")


def use_rule(ctx):
    p = ctx.p
    res = RuleResult("DEG-USE", "every consumer reshapes the conditioner output feature-major ([..., features, multiplier])")
    consumers = []
    ar = p.find_class("AutoregressiveTransform", "nflows.transforms.autoregressive")
    for c in p.subclasses_of(ar):
        for m in c.methods.values():
            if "autoregressive_params" in [a for a, _ in m.params()]:
                consumers.append((m, "autoregressive_params"))
    mog = p.find_class("MixtureOfGaussiansMADE", "nflows.nn.nde.made")
    for name in ("log_prob", "sample"):
        if name in mog.methods:
            consumers.append((mog.methods[name], "outputs"))
    n_reshapes = 0
    for fi, var in consumers:
        for n in ast.walk(fi.node):
            if not (isinstance(n, ast.Call) and isinstance(n.func, ast.Attribute) and n.func.attr in ("view", "reshape") and isinstance(n.func.value, ast.Name) and n.func.value.id == var):
                continue
            args = n.args
            if len(args) == 1 and isinstance(args[0], (ast.Tuple, ast.List)):
                args = args[0].elts
            n_reshapes += 1
            if len(args) >= 3 and isinstance(args[0], ast.Starred):
                # (*inputs.shape, M, 3): features axis comes from the inputs' own shape, multipliers trail
                if norm_text(args[0].value).endswith(".shape") and not any(_feature_like(a) for a in args[1:]):
                    res.ok("%s: %s" % (fi.qualname, norm_text(n)[:70]))
                else:
                    res.fail(Finding("DEG-USE", fi.module, fi.qualname, n, "conditioner output is reshaped with the feature axis after a multiplier axis"))
                continue
            if len(args) < 3:
                res.fail(Finding("DEG-USE", fi.module, fi.qualname, n, "conditioner output must be reshaped to [batch, features, multiplier]; found %d axes" % len(args)))
                continue
            feat_pos = [i for i, a in enumerate(args) if _feature_like(a)]
            if feat_pos == [1] or (feat_pos == [0, 1] and _feature_like(args[1])):
                res.ok("%s: %s" % (fi.qualname, norm_text(n)[:70]))
            elif feat_pos and feat_pos[-1] == len(args) - 1:
                res.fail(Finding("DEG-USE", fi.module, fi.qualname, n, "conditioner output is reshaped multiplier-major ([..., multiplier, features]); MADE orders its outputs feature-major, so parameters of different features would be mixed"))
            elif not feat_pos:
                res.undecide("%s `%s`" % (fi.qualname, norm_text(n)[:60]), "cannot identify the features axis")
            else:
                res.fail(Finding("DEG-USE", fi.module, fi.qualname, n, "features axis at position %s; expected position 1 ([batch, features, multiplier])" % feat_pos))
    if n_reshapes < 5:
        raise AnalysisIncomplete("DEG-USE: %d consumer reshapes found (< 5; the count on the pinned tree is larger, the floor leaves room for merged call sites confirmed by hand)" % n_reshapes)
    return res


def inv_ar_rule(ctx):
    """INV-AR: the inverse runs (at least) one pass per feature, feeding the running estimate to
    the conditioner and the given inputs to the element-wise inverse; decided by partial
    evaluation (nfstatic/peval.py) of `inverse` for inputs with 1, 2, 3 and 4 features, the
    conditioner and the element-wise hooks being uninterpreted functions, against the recursion
        est_0 = zeros_like(x);  est_k = einv(x, net(est_{k-1}, ctx))[0];  log-det = einv(x, net(est_{n-1}, ctx))[1]
    with n >= D."""
    from ..peval import PEval, Obj, Sym, SymFn, Undecided as PUndecided, show

    p = ctx.p
    res = RuleResult("INV-AR", "autoregressive inverse: >= D passes, conditioner sees the running estimate, transformer the given inputs")
    ar = p.find_class("AutoregressiveTransform", "nflows.transforms.autoregressive")
    inv = ar.methods.get("inverse")
    fwd = ar.methods.get("forward")
    if inv is None or fwd is None:
        raise AnalysisIncomplete("AutoregressiveTransform.inverse / forward missing")

    def mkobj():
        # the class's own helper methods (a pass of the iteration extracted into a method) are evaluated from source
        helpers = {nm: m.node for nm, m in ar.methods.items() if nm not in ("_elementwise_inverse", "_elementwise_forward", "__init__")}
        return Obj({"autoregressive_net": SymFn("net", 1), "_elementwise_inverse": SymFn("einv", 2), "_elementwise_forward": SymFn("efwd", 2)}, helpers)

    x, cx = ("x",), ("ctx",)

    def spec_inverse(n):
        est = ("zeros_like", x)
        call = None
        for _ in range(n):
            call = ("call", "einv", x, ("call", "net", est, cx))
            est = ("item", call, 0)
        return est, ("item", call, 1) if call is not None else None

    for d in (range(1, 13) if getattr(ctx, "tier", "quick") == "thorough" else (1, 2, 3, 4)):
        pe = PEval(mkobj(), shapes={x: (d,)})
        try:
            r = pe.call_method(inv.node, [Sym(x), Sym(cx)])
            if not (isinstance(r, tuple) and len(r) == 2 and all(isinstance(v, Sym) for v in r)):
                raise PUndecided("inverse does not return a pair of tensors")
        except PUndecided as ex:
            res.undecide("AutoregressiveTransform.inverse with %d feature(s)" % d, str(ex))
            continue
        got = (r[0].term, r[1].term)
        verdict = None
        for n in range(0, 3 * d + 3):
            if got == spec_inverse(n) or (n == 0 and got[0] == ("zeros_like", x)):
                verdict = n
                break
        if verdict is not None and verdict >= d:
            res.ok("inverse with %d feature(s): %d passes, estimate -> conditioner, inputs -> element-wise inverse" % (d, verdict))
        elif verdict is not None:
            res.fail(Finding("INV-AR", inv.module, inv.qualname, inv.node, "the inverse runs %d pass(es) for inputs with %d features: later features are left at their initial estimate" % (verdict, d), construct="passes of inverse, %d feature(s)" % d))
        else:
            want = spec_inverse(d)
            # find what is wired differently
            why = "outputs `%s`, log-det `%s`" % (show(got[0])[:120], show(got[1])[:120])
            txt = show(got[0]) + show(got[1])
            if "net(x" in txt.replace("call(net, ", "net(").replace("('x',)", "x") or ("call", "net", x, cx) in _subterms(got[0]):
                why = "the conditioner is fed the given inputs instead of the running estimate"
            elif any(t[:2] == ("call", "einv") and t[2] != x for t in _subterms(got[0])):
                why = "the element-wise inverse is applied to `%s` instead of the given inputs" % show(next(t[2] for t in _subterms(got[0]) if t[:2] == ("call", "einv") and t[2] != x))[:60]
            elif got[0] == want[0]:
                why = "the returned log-det `%s` is not the one of the last pass" % show(got[1])[:100]
            res.fail(Finding("INV-AR", inv.module, inv.qualname, inv.node, "the inverse is not the fixed-point iteration est_k = einv(inputs, net(est_{k-1}, context)): %s" % why, construct="wiring of inverse, %d feature(s)" % d))
    # forward: conditioner(inputs), elementwise forward(inputs, params)
    pe = PEval(mkobj(), shapes={x: (3,)})
    try:
        r = pe.call_method(fwd.node, [Sym(x), Sym(cx)])
        call = ("call", "efwd", x, ("call", "net", x, cx))
        if isinstance(r, tuple) and len(r) == 2 and all(isinstance(v, Sym) for v in r) and (r[0].term, r[1].term) == (("item", call, 0), ("item", call, 1)):
            res.ok("forward: conditioner and transformer both see the inputs")
        else:
            res.fail(Finding("INV-AR", fwd.module, fwd.qualname, fwd.node, "forward must feed the inputs to both the conditioner and the elementwise transform", construct="forward wiring"))
    except PUndecided as ex:
        res.undecide("AutoregressiveTransform.forward", str(ex))
    return res


def _subterms(t):
    out = []
    stack = [t]
    while stack:
        v = stack.pop()
        if isinstance(v, tuple):
            out.append(v)
            stack.extend(v)
    return out


register(
    "C06",
    [degree_rule, tile_rule, use_rule, inv_ar_rule],
    "Degree typing (a small type system, DESIGN 2.C06): the judgement x : Deg(d) = 'unit k depends only on inputs j <= d[k]'. "
    "Obligations read off each of the two MADE copies independently and discharged syntactically on every run: DEG-HID/DEG-OUT "
    "(comparison direction, strictness and orientation of the two mask formulas; out degrees = tile(IN, m)), DEG-IN, DEG-APPLY "
    "(weight*mask on every return of MaskedLinear.forward, no other use of weight, [out,in] orientation, buffers from the "
    "returned pair), DEG-OWN (who-may-write mask/degrees over the whole repository), DEG-WIRE (every forward type-checked "
    "against the constructor's in_degrees wiring; the block loop by induction over the same list), DEG-ELEM (only "
    "degree-preserving operations between masked layers), DEG-RES (residual sum typed through the constructor's raise unless "
    "all(degrees >= in_degrees)), DEG-TILE (symbolic layout of torchutils.tile), DEG-USE (consumers reshape feature-major), "
    "INV-AR (one inverse pass per feature with the right operands). With all obligations discharged, induction over layers "
    "gives Out(F, m) for every feature count, width, block count/type, mask draw, context, multiplier, batch-norm/dropout and "
    "every weight value; the argument never looks at a size.",
    [A_NET, T_OPS, "the judgement's soundness rests on the semantics of F.linear, comparison broadcasting and elementwise activations"],
    level="proof",
    trusted_base=["nfstatic/rules/c06.py (the obligation checker)", "T-OPS entries for F.linear / broadcasting comparison / repeat / reshape / transpose", "A-NET: activation callables are elementwise", "nn.BatchNorm1d and nn.Dropout act per feature"],
)
