"""CFG-STORE / CFG-FWD: the configuration a constructor is given is the configuration the object works with.

The piecewise coupling / autoregressive transforms and the Piecewise*CDF transforms take `tails` and
`tail_bound` (and more) in their constructors, store them, hand them on to the spline functions at every call
and to the element-wise CDF transform they optionally build for the identity features.  Which domain a layer
accepts (C17) and on which box it acts (C09) is decided by those values -- so they must be the ones the caller
gave, not a default that happened to be left in place by a constructor chain that drops an argument.
Decided by abstract interpretation of every transform constructor with each parameter labelled by its name.
"""

import ast

from ..entries import transform_classes
from ..interp import Interp, OBJ, AV, T, NUM, TOP, E, all_ann
from ..model import AnalysisIncomplete, norm_text
from ..report import Finding, RuleResult
from ..taint import TaintDomain

DOMAIN_KEYS = ("tails", "tail_bound")


class CfgDomain(TaintDomain):
    name = "cfg"

    def __init__(self):
        self.top_func = None
        self.stores = {}  # attr -> (labels, node)
        self.built = []  # (constructed class, {param: labels or None when defaulted}, node, enclosing function)

    def src_arg(self, func, pname):
        if func is self.top_func:
            return {("ARG", pname)}
        return E

    def on_attr_store(self, interp, obj, attr, value, node):
        for cls, path in obj.data:
            if path and path[0] == "<new>":
                continue
            # what a call of an uninterpreted factory / a torch container returns is not tracked: no verdict
            known = value is not None and value.kind in ("num", "const", "tensor", "str", "tuple", "list", "shape")
            self.stores[attr] = (set(all_ann(self, value)), node, known)

    def on_construct(self, interp, cls, args, kwargs, node):
        init = cls.lookup_method("__init__")
        if init is None:
            return
        names = [a for a, _ in init.params()]
        given = {}
        for i, a in enumerate(args):
            if i < len(names):
                given[names[i]] = set(all_ann(self, a)) if isinstance(a, AV) else set()
        for k, v in kwargs.items():
            given[k] = set(all_ann(self, v)) if isinstance(v, AV) else set()
        self.built.append((cls, given, names, node, interp.frame.func))


def _ctor_args(init):
    args = []
    for i, (pname, default) in enumerate(init.params()):
        if isinstance(default, ast.Constant) and isinstance(default.value, bool):
            args.append(None)  # both settings
        elif isinstance(default, ast.Constant) and default.value is None:
            args.append("opt")
        else:
            args.append("val")
    return args


def cfg_rule(ctx):
    p = ctx.p
    res_s = RuleResult("CFG-STORE", "a constructor argument that the object keeps (self.<name> / self._<name>) is kept as given: the stored value derives from that argument on every constructor path")
    res_f = RuleResult("CFG-FWD", "a transform that builds another transform of the library hands on its own `tails` / `tail_bound`: the inner transform accepts the domain the outer one was configured with")
    n_cls = n_store = n_built = 0
    for cls in transform_classes(p):
        init = cls.lookup_method("__init__")
        if init is None:
            continue
        pnames = [a for a, _ in init.params()]
        if not pnames:
            continue
        dom = CfgDomain()
        dom.top_func = init
        it = Interp(p, dom)
        args = []
        for pname, default in init.params():
            lab = frozenset({("ARG", pname)})
            if isinstance(default, ast.Constant) and isinstance(default.value, bool):
                args.append(AV("num", None, lab))
            elif pname in ("transform_net_create_fn", "unconditional_transform", "activation", "context_encoder", "embedding_net", "transform", "distribution", "autoregressive_net", "transforms"):
                args.append(TOP(lab))
            elif pname in ("permutation", "mask", "shift", "scale"):
                args.append(T(lab))
            else:
                args.append(AV("num", None, lab))
        try:
            it.run_function(init, OBJ(cls), args)
        except AnalysisIncomplete:
            raise
        except Exception as ex:  # the constructor uses something the interpreter does not model
            res_s.undecide("%s.__init__" % cls.name, "%s: %s" % (type(ex).__name__, str(ex)[:80]))
            continue
        n_cls += 1
        # CFG-STORE
        for pname in pnames:
            for attr in (pname, "_" + pname):
                if attr not in dom.stores:
                    continue
                labels, node, known = dom.stores[attr]
                if not known and ("ARG", pname) not in labels:
                    continue
                n_store += 1
                if ("ARG", pname) in labels:
                    res_s.ok("%s: self.%s derives from the argument %s" % (cls.name, attr, pname))
                else:
                    res_s.fail(Finding("CFG-STORE", init.module, "%s.__init__" % cls.name, init.node, "`%s(.., %s=..)` stores self.%s, but the stored value does not derive from that argument (%s): a constructor in the chain leaves its own default in place, so the object works with another %s than the caller configured" % (cls.name, pname, attr, "it derives from " + ", ".join(sorted(l[1] for l in labels if isinstance(l, tuple) and l[0] == "ARG")) if any(isinstance(l, tuple) for l in labels) else "a constant", pname), construct="stored configuration %s.%s" % (cls.name, attr)))
        # CFG-FWD
        for built_cls, given, names, node, func in dom.built:
            for key in DOMAIN_KEYS:
                if key in pnames and key in names:
                    n_built += 1
                    labs = given.get(key)
                    if labs is not None and ("ARG", key) in labs:
                        res_f.ok("%s builds %s with its own %s" % (cls.name, built_cls.name, key))
                    else:
                        how = "is left at its default" if labs is None else "is given a value that does not derive from the outer argument"
                        res_f.fail(Finding("CFG-FWD", func.module, func.qualname, node, "%s is configured with `%s` and builds a %s whose `%s` %s: the inner transform then accepts / acts on another domain than the layer around it (with tails='linear' a bounded inner spline rejects inputs the layer is documented to accept)" % (cls.name, key, built_cls.name, key, how), construct="%s handed to %s by %s" % (key, built_cls.name, cls.name)))
    if n_cls < 20 or n_store < 10:
        raise AnalysisIncomplete("CFG: %d constructors interpreted, %d stored arguments (< 20 / 10)" % (n_cls, n_store))
    if n_built < 4:
        raise AnalysisIncomplete("CFG-FWD: %d inner constructions with tails / tail_bound seen (< 4: the four piecewise coupling classes build their CDF transform)" % n_built)
    return [res_s, res_f]
