"""C13 (OWN-ARG / OWN-STATE / OWN-ATTR) and C20 UT-PURE: ownership / effect analysis."""

from ..entries import enumerate_entries, entry_args
from ..interp import Interp, OBJ
from ..model import AnalysisIncomplete
from ..own import OwnDomain
from ..report import RuleResult, dedupe
from . import register, A_NET, A_UMNN, T_OPS


def analyse(p, kinds):
    dom = OwnDomain()
    it = Interp(p, dom)
    ents = [e for e in enumerate_entries(p) if e.kind in kinds]
    for e in ents:
        self_av = OBJ(e.cls) if e.cls is not None and not e.func.is_static else None
        it.run_function(e.func, self_av, entry_args(dom, e))
    return dom, it, ents


def findings_for(p, kinds):
    dom, it, ents = analyse(p, kinds)
    return dedupe(dom.findings)


def _results(ctx, kinds, rules, min_sites, min_entries):
    dom, it, ents = ctx.shared(("own", kinds), lambda: analyse(ctx.p, kinds))
    if len(ents) < min_entries:
        raise AnalysisIncomplete("ownership analysis: only %d entry points enumerated (< %d confirmed by hand)" % (len(ents), min_entries))
    if len(dom.write_sites) < min_sites:
        raise AnalysisIncomplete("ownership analysis: only %d write sites classified (< %d confirmed by hand)" % (len(dom.write_sites), min_sites))
    out = []
    fs = dedupe(dom.findings)
    descr = {
        "OWN-ARG": "no in-place write reaches storage that may alias a caller-supplied tensor",
        "OWN-TOP": "no in-place write reaches storage of unknown ownership",
        "OWN-STATE": "parameters/buffers are written only by the effect-table entries under their required path condition",
        "OWN-ATTR": "no evaluation path rebinds an attribute of the model other than the cache memo",
        "UT-PURE": "exported helpers never mutate their arguments",
    }
    for rule in rules:
        r = RuleResult(rule, descr[rule])
        if rule in ("OWN-ARG", "UT-PURE"):
            for site, cls in sorted(dom.write_sites.items()):
                r.ok("%s:%d `%s` -> %s" % (site[0], site[1], site[2][:80], "/".join(sorted(cls))), nontrivial=True)
            for f in fs:
                if f.rule in ("OWN-ARG",):
                    if rule == "UT-PURE":
                        f.rule = "UT-PURE"
                    r.findings.append(f)
            r.notes.append("%d entry points, %d functions analysed, %d calls (%d memoised)" % (len(ents), len(it.stats["functions"]), it.stats["calls"], it.stats["memo_hits"]))
            r.notes.append("supported facts used: %s" % sorted(dom.facts_used))
            r.notes.append("unknown torch ops (treated as may-alias): %s" % sorted(it.stats["unknown_ops"]))
        elif rule == "OWN-TOP":
            for f in fs:
                if f.rule == "OWN-TOP":
                    r.findings.append(f)
            r.ok("%d write sites have a known owner set" % len(dom.write_sites), nontrivial=False)
        elif rule == "OWN-STATE":
            seen = set()
            for cls, attr, site, why in dom.state_writes:
                if (cls, attr, site) in seen or cls == "LinearCache":
                    continue
                seen.add((cls, attr, site))
                r.ok("%s.%s written at %s:%d under its required condition (%s)" % (cls, attr, site[0], site[1], why))
            for f in fs:
                if f.rule == "OWN-STATE":
                    r.findings.append(f)
        elif rule == "OWN-ATTR":
            seen = set()
            for cls, attr, site, why in dom.state_writes:
                if cls != "LinearCache" or (attr, site) in seen:
                    continue
                seen.add((attr, site))
                r.ok("cache.%s rebound at %s:%d (%s)" % (attr, site[0], site[1], why))
            for f in fs:
                if f.rule == "OWN-ATTR":
                    r.findings.append(f)
        out.append(r)
    return out


EVAL_KINDS = ("transform", "distribution", "module", "spline")


def c13(ctx):
    return _results(ctx, EVAL_KINDS, ["OWN-ARG", "OWN-TOP", "OWN-STATE", "OWN-ATTR"], min_sites=80, min_entries=200)


def memo_findings(ctx, rule, message):
    """OWN-ATTR findings that keep a tensor (or a container of them) from one evaluation call to the next, under
    another property's rule id: the kept tensor does not follow .double() / .to() (C19) and carries the autograd
    graph -- or the no_grad-ness -- of the call that made it (C16)."""
    from ..report import Finding

    dom, it, ents = ctx.shared(("own", EVAL_KINDS), lambda: analyse(ctx.p, EVAL_KINDS))
    r = RuleResult(rule, message)
    seen = set()
    for f in dedupe(dom.findings):
        if f.rule != "OWN-ATTR" or getattr(f, "value_kind", None) not in ("tensor", "top", "container", "tuple", "list", "dict"):
            continue
        key = (f.file, f.qualname, f.construct)
        if key in seen:
            continue
        seen.add(key)
        g = Finding(rule, f.file, f.qualname, f.node, "%s: %s" % (f.message, message), witness=f.witness, construct=f.construct)
        g.file = f.file
        g.line = f.line
        r.findings.append(g)
    r.ok("%d evaluation entry points: no tensor is kept in a plain attribute from one call to the next (the Linear cache is C10's)" % len(ents), nontrivial=False)
    return r


def arg_findings(ctx, rule, message, where):
    """OWN-ARG findings (an in-place write that may reach a caller-supplied tensor) in the files selected by
    `where`, under another property's rule id."""
    from ..report import Finding

    dom, it, ents = ctx.shared(("own", EVAL_KINDS), lambda: analyse(ctx.p, EVAL_KINDS))
    r = RuleResult(rule, message)
    seen = set()
    for f in dedupe(dom.findings):
        if f.rule != "OWN-ARG" or not where(f.file):
            continue
        key = (f.file, f.qualname, f.construct)
        if key in seen:
            continue
        seen.add(key)
        g = Finding(rule, f.file, f.qualname, f.node, "%s: %s" % (f.message, message), witness=f.witness, construct=f.construct)
        g.file = f.file
        g.line = f.line
        r.findings.append(g)
    r.ok("%d evaluation entry points: no in-place write reaches a caller-supplied tensor in the selected files" % len(ents), nontrivial=False)
    return r


def own_rng_rule(ctx):
    """OWN-RNG (= BM-RNG of C12, shared): in evaluation mode repeating a call gives bit-identical results, so no
    fresh random draw may reach a result of forward / inverse / log_prob (a functional dropout whose `training`
    is left at its default True draws a new mask on every call -- and advances the global generator)."""
    from .c12 import rng_rule

    r = rng_rule(ctx)
    r.rule = "OWN-RNG"
    for f in r.findings:
        f.rule = "OWN-RNG"
        f.message += "; repeating the call gives different results and every evaluation call consumes the global random generator"
    return r


def c20_pure(ctx):
    return _results(ctx, ("util",), ["UT-PURE"], min_sites=2, min_entries=16)


register(
    "C13",
    [c13, own_rng_rule],
    "Ownership/effect abstract interpretation (nfstatic/own.py over nfstatic/interp.py) of every evaluation entry point "
    "(forward/inverse of every Transform subclass per concrete receiver class, the Linear accessors, log_prob/sample/"
    "sample_and_log_prob/mean/transform_to_noise of every Distribution subclass, forward/log_prob/sample of the remaining "
    "nn.Modules, the eight exported spline functions). Each tensor value carries the set of non-fresh owners its storage may "
    "alias (ARG(p), STATE(attr), TOP); every write form (augmented assignment on tensors, subscript stores, `_` methods, "
    "init.*_, .data stores, out=) is classified, interprocedurally and context-sensitively. Rule: a write through a value "
    "whose owner set is non-empty is a violation unless it is an effect-table state write under its required path condition. "
    "Decides the structural half of C13 (no mutation of arguments or model state); bit-identical repeat results follow from "
    "purity plus determinism of torch kernels, which is assumed.",
    [A_NET, A_UMNN, T_OPS, "torch.distributions objects return newly computed tensors"],
)
