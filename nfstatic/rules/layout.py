"""LEAD-LAYOUT (C04 / C05 / C18): which context row does each generated sample belong to?

Samplers work on tensors whose leading axes are (context rows C, samples N), merged into one
axis of size C*N and split back.  The merged axis has an *order* -- row-major (C outer, N inner)
is what `split_leading_dim(x, [C, N])` undoes -- and per-row parameters replicated with
`repeat_rows` follow it.  A tensor built in the other order (noise drawn as [N, C, ...], a tiled
context) has the same shape, so nothing fails; the samples of row r are silently attributed to
other rows.

The rule evaluates, on the path-wise expansion of each sampler, an abstract *leading layout*:

    ANY                         nothing known (scalars, unknown calls)            -- unifies with all
    ROWS                        one leading axis indexed by the context rows
    NS                          one leading axis indexed by the samples (no context)
    PAIR(a, b)                  two leading axes
    MERGED(a, b)                one leading axis of size a*b, a outer / b inner
    IID / IIDPAIR(a, b)         fresh noise: its order carries no information until it meets data

with a, b in {"C", "N", "?"}.  Element-wise operations unify layouts (broadcasting aligns
trailing axes, so ROWS meets the *second* axis of a PAIR); merge / split / reshape / repeat_rows /
repeat / sample-calls transform them.  A definite order conflict is reported; whatever the
table does not know evaluates to ANY and is never reported.
"""

import ast

from ..astutil import attr_chain, const_number
from ..model import AnalysisIncomplete, norm_text
from ..report import Finding, RuleResult
from ..symexp import paths_of, is_component, uwalk, brief

ANY = ("any",)
ROWS = ("rows",)
NS = ("ns",)
IID = ("iid",)


class _Conflict(Exception):
    def __init__(self, node, msg):
        Exception.__init__(self, msg)
        self.node = node
        self.msg = msg


ELEMENTWISE = {
    "exp", "log", "sigmoid", "tanh", "softplus", "abs", "sqrt", "float", "double", "long", "to", "clone", "contiguous",
    "detach", "neg", "relu", "clamp", "type", "bool", "int", "square", "pow", "sign", "floor", "ceil", "round", "softmax",
    "log_softmax", "where", "add", "sub", "mul", "div", "lt", "gt", "le", "ge", "eq", "as_tensor",
}  # fmt: skip


class Layouts:
    def __init__(self, ctx_names):
        self.ctx_names = set(ctx_names)
        self.ctx_absent = False
        self.cls = None  # the class whose sampler is evaluated (for its own tuple-returning helpers)
        self.depth = 0
        self.callee_layouts = {}  # `self.<attr>.sample` -> (layout without a context, layout with one)
        self.memo = {}
        self.conflicts = []

    # -- size tags -------------------------------------------------------------------------
    def tag(self, e):
        if e is None:
            return "?"
        v = const_number(e)
        if v is not None:
            return "?" if v == -1 else "k"
        t = norm_text(e)
        has_n = "num_samples" in t
        is_rows = False
        x = None
        if isinstance(e, ast.Subscript) and isinstance(e.value, ast.Attribute) and e.value.attr == "shape" and const_number(e.slice) == 0:
            x = e.value.value
        elif isinstance(e, ast.Call) and isinstance(e.func, ast.Attribute) and e.func.attr == "size" and len(e.args) == 1 and const_number(e.args[0]) == 0:
            x = e.func.value
        elif isinstance(e, ast.Call) and norm_text(e.func) == "len" and len(e.args) == 1:
            x = e.args[0]
        if x is not None:
            is_rows = self.lead(x) == ROWS
        if isinstance(e, ast.BinOp) and isinstance(e.op, ast.Mult):
            a, b = self.tag(e.left), self.tag(e.right)
            if {a, b} == {"C", "N"}:
                return "CN"
            return "?"
        if is_rows and not has_n:
            return "C"
        if has_n and x is None and not any(isinstance(n, ast.Attribute) and n.attr == "shape" for n in ast.walk(e)):
            return "N"
        return "?"

    # -- layouts ---------------------------------------------------------------------------
    def lead(self, e):
        k = id(e)
        if k in self.memo and self.memo[k][0] is e:
            return self.memo[k][1]
        r = self._lead(e)
        self.memo[k] = (e, r)
        return r

    def conflict(self, node, msg):
        self.conflicts.append((node, msg))

    def combine(self, a, b, node):
        if a == ANY:
            return b
        if b == ANY:
            return a
        if a == b:
            return a
        ka, kb = a[0], b[0]
        if ka == "iid":
            return b
        if kb == "iid":
            return a
        for x, y in ((a, b), (b, a)):
            if x[0] in ("pair", "iidpair") and y[0] == "pair" and y[2] == "1":
                if x[1] == y[1] or x[1] == "?":
                    return ("pair", x[1], x[2])
                if x[2] == "C" and y[1] == "C":
                    self.conflict(node, "per-row parameters shaped [rows, 1, ...] are broadcast against a tensor shaped [num_samples, rows, ...]: the row axis meets the sample axis")
                return ("pair", x[1], x[2])
            if x[0] in ("merged", "pair") and y[0] == x[0] and len(x) == 3:
                if {x[1], x[2]} == {y[1], y[2]} == {"C", "N"} and (x[1], x[2]) != (y[1], y[2]):
                    self.conflict(node, "two tensors with the leading axes (%s, %s) and (%s, %s) are combined element-wise: row r of one meets the samples of other rows in the other" % (x[1], x[2], y[1], y[2]))
                    return x
            if x[0] == "iidpair" and y[0] == "pair":
                return y
            if x[0] == "iidpair" and y[0] == "iidpair":
                return x
            if x[0] in ("pair", "iidpair") and y == ROWS:
                # broadcasting aligns trailing axes: the [C, ...] operand meets the second leading axis
                if x[2] == "C":
                    return ("pair", x[1], x[2])
                if x[1] == "C" and x[2] == "N":
                    self.conflict(node, "per-row parameters shaped [rows, ...] are broadcast against a tensor shaped [rows, num_samples, ...]: broadcasting aligns the row axis with the sample axis")
                    return ("pair", x[1], x[2])
                return ("pair", x[1], x[2])
            if x[0] == "merged" and y[0] in ("iid",):
                return x
        return ANY

    def _args(self, c):
        f = c.func
        is_mod = isinstance(f, ast.Attribute) and (norm_text(f.value) in ("torch", "F", "torchutils", "np", "torch.nn.functional", "nflows.utils.torchutils"))
        if isinstance(f, ast.Attribute) and not is_mod:
            return f.attr, [f.value] + list(c.args), True
        if isinstance(f, ast.Attribute):
            return f.attr, list(c.args), False
        if isinstance(f, ast.Name):
            return f.id, list(c.args), False
        return "", list(c.args), False

    def _kw(self, c, name, pos=None, ops=None):
        for k in c.keywords:
            if k.arg == name:
                return k.value
        if pos is not None and ops is not None and len(ops) > pos:
            return ops[pos]
        return None

    def _lead(self, e):
        if isinstance(e, ast.Name):
            return ROWS if e.id in self.ctx_names else ANY
        if isinstance(e, ast.Constant):
            return ANY
        if isinstance(e, ast.Attribute):
            if e.attr in ("T", "mT"):
                return ANY
            return ANY
        if isinstance(e, ast.UnaryOp):
            return self.lead(e.operand)
        if isinstance(e, (ast.BinOp, ast.Compare)):
            l = e.left
            r = e.right if isinstance(e, ast.BinOp) else e.comparators[0]
            if isinstance(e, ast.BinOp) and isinstance(e.op, ast.MatMult):
                return self.lead(l)
            return self.combine(self.lead(l), self.lead(r), e)
        if isinstance(e, ast.Subscript):
            sl = e.slice
            first = sl.elts[0] if isinstance(sl, ast.Tuple) and sl.elts else sl
            if isinstance(first, ast.Constant) and first.value is Ellipsis:
                return self.lead(e.value)
            if isinstance(first, ast.Slice) and first.lower is None and first.upper is None and first.step is None:
                base = self.lead(e.value)
                second = sl.elts[1] if isinstance(sl, ast.Tuple) and len(sl.elts) > 1 else None
                if isinstance(second, ast.Constant) and second.value is None and base == ROWS:
                    return ("pair", "C", "1")  # x[:, None]: a singleton sample axis
                return base
            return ANY
        if isinstance(e, ast.Tuple):
            return ANY
        if not isinstance(e, ast.Call):
            return ANY
        if isinstance(e.func, ast.Name) and e.func.id == "__store__" and len(e.args) == 3:
            # x[:, j] = v keeps the leading axis of x and fills it row by row from v
            idx = e.args[1]
            first = idx.elts[0] if isinstance(idx, ast.Tuple) and idx.elts else idx
            base = self.lead(e.args[0])
            if isinstance(first, ast.Slice) and first.lower is None and first.upper is None and first.step is None and isinstance(idx, ast.Tuple) and len(idx.elts) > 1:
                v = self.lead(e.args[2])
                if v[0] in ("merged", "rows", "ns", "iid"):
                    return self.combine(base, v, e)
            return base
        if is_component(e):
            inner = e.args[0]
            k = const_number(e.args[1]) if len(e.args) > 1 else None
            hl = self._helper_component(inner, k) if isinstance(inner, ast.Call) and k is not None else None
            if hl is not None:
                return hl
            r = self._call_result(inner) if isinstance(inner, ast.Call) else ANY
            return r
        return self._call_result(e)

    def _helper_component(self, call, k):
        """Layout of component k of `self._helper(..)` when the helper is a method of the class
        under evaluation that returns a tuple: evaluated on the helper's own paths, its parameters
        that receive a per-row argument standing for the context rows"""
        cls = self.cls
        if cls is None or not (isinstance(call.func, ast.Attribute) and isinstance(call.func.value, ast.Name) and call.func.value.id == "self"):
            return None
        fi = cls.lookup_method(call.func.attr)
        if fi is None or self.depth > 2:
            return None
        params = [a for a, _ in fi.params() if a != "self"]
        rows = set()
        for pn, a in list(zip(params, call.args)) + [(kw.arg, kw.value) for kw in call.keywords if kw.arg]:
            if self.lead(a) == ROWS:
                rows.add(pn)
        got = set()
        for path in paths_of(fi.node):
            if path.kind != "return":
                continue
            if not (isinstance(path.ret, ast.Tuple) and k < len(path.ret.elts)):
                return None
            sub = Layouts(rows)
            sub.cls, sub.depth, sub.ctx_absent = cls, self.depth + 1, self.ctx_absent
            got.add(sub.lead(path.ret.elts[k]))
            self.conflicts.extend(sub.conflicts)
        r = next(iter(got)) if len(got) == 1 else None
        return None if r == ANY else r

    def _call_result(self, c):
        last, ops, is_method = self._args(c)
        chain = attr_chain(c.func) or ""
        # samplers of sub-objects: the Distribution contract (SAMPLE-SHAPE)
        if chain in self.callee_layouts:
            # a sampler of a sub-module that is not a Distribution (no [rows, n, ...] contract):
            # the layout its own code returns, with / without a context
            cx = self._kw(c, "context", 1 if not is_method else 2, ops)
            absent = cx is None or (isinstance(cx, ast.Constant) and cx.value is None) or self.ctx_absent
            return self.callee_layouts[chain][0 if absent else 1]
        if chain.endswith(".sample") or chain.endswith("._sample") or chain.endswith(".sample_and_log_prob"):
            cx = self._kw(c, "context", 1 if not is_method else 2, ops)
            if cx is None or (isinstance(cx, ast.Constant) and cx.value is None) or self.ctx_absent:
                n = ops[1] if is_method and len(ops) > 1 else (ops[0] if ops else None)
                return IID if chain.endswith("sample") and n is not None and self.tag(n) == "CN" else NS
            return ("pair", "C", "N")
        if chain.endswith(".log_prob") or chain.endswith("._log_prob") or chain in ("self._transform", "self._transform.forward", "self._transform.inverse") or chain.endswith(".inverse") or chain.endswith(".forward"):
            x = ops[1] if is_method and len(ops) > 1 else (ops[0] if ops else None)
            cx = self._kw(c, "context", 2 if is_method else 1, ops)
            lx = self.lead(x) if x is not None else ANY
            if cx is not None and not (isinstance(cx, ast.Constant) and cx.value is None):
                return self.combine(lx, self.lead(cx), c)
            return lx
        if last in ("randn", "rand", "randint", "empty", "zeros", "ones") and not is_method:
            sizes = []
            star_lead = None
            arglist = list(c.args)
            if arglist and isinstance(arglist[0], (ast.Tuple, ast.List)):
                arglist = list(arglist[0].elts)
            for a in arglist:
                if isinstance(a, ast.Starred):
                    # *x.shape / *x.size(): the leading size is that of x's leading axis
                    v = a.value
                    base = v.value if isinstance(v, ast.Attribute) and v.attr == "shape" else (v.func.value if isinstance(v, ast.Call) and isinstance(v.func, ast.Attribute) and v.func.attr == "size" and not v.args else None)
                    if base is not None and len(sizes) < 2 and self.lead(base) == ROWS:
                        star_lead = "C"
                    break
                sizes.append(a)
            tags = [self.tag(s) for s in sizes[:2]]
            if star_lead is not None and len(tags) < 2:
                tags.append(star_lead)
            if tags and tags[0] == "CN":
                return IID
            if len(tags) >= 2 and set(tags) == {"C", "N"}:
                return ("iidpair", tags[0], tags[1])
            if tags and tags[0] == "N":
                return IID
            if tags and tags[0] == "C":
                return ("iidrows",)
            return ANY
        if last == "repeat_rows":
            x = ops[0] if ops else None
            reps = self._kw(c, "num_reps", 1, ops)
            lx = self.lead(x) if x is not None else ANY
            t = self.tag(reps)
            if lx == ROWS:
                return ("merged", "C", t if t in ("N",) else "?")
            return ANY
        if last == "repeat_interleave":
            x = ops[0] if ops else None
            reps = self._kw(c, "repeats", 1, ops)
            d = self._kw(c, "dim", 2, ops)
            lx = self.lead(x) if x is not None else ANY
            if lx == ROWS and d is not None and const_number(d) == 0:
                return ("merged", "C", self.tag(reps) if self.tag(reps) == "N" else "?")
            return ANY
        if last in ("transpose", "swapaxes") and len(ops) == 3 and sorted(const_number(a) if const_number(a) is not None else 9 for a in ops[1:]) == [0, 1]:
            lx = self.lead(ops[0])
            if lx[0] in ("pair", "iidpair"):
                return (lx[0], lx[2], lx[1])
            return ANY
        if last == "permute" and len(ops) >= 3 and [const_number(a) for a in ops[1:3]] == [1, 0]:
            lx = self.lead(ops[0])
            if lx[0] in ("pair", "iidpair"):
                return (lx[0], lx[2], lx[1])
            return ANY
        if last == "unsqueeze" and is_method and len(ops) == 2 and const_number(ops[1]) == 1:
            if self.lead(ops[0]) == ROWS:
                return ("pair", "C", "1")
            return ANY
        if last in ("repeat", "tile") and is_method:
            x = ops[0]
            lx = self.lead(x)
            reps = ops[1] if len(ops) > 1 else None
            if isinstance(reps, (ast.Tuple, ast.List)) and reps.elts:
                reps = reps.elts[0]
            if lx == ROWS and reps is not None and self.tag(reps) == "N":
                return ("merged", "N", "C")  # the whole block is tiled: sample index outer
            return ANY
        if last == "cat" and c.args and isinstance(c.args[0], ast.BinOp) and isinstance(c.args[0].op, ast.Mult):
            lst, n = c.args[0].left, c.args[0].right
            if isinstance(n, (ast.List, ast.Tuple)):
                lst, n = n, lst
            if isinstance(lst, (ast.List, ast.Tuple)) and len(lst.elts) == 1 and self.lead(lst.elts[0]) == ROWS and self.tag(n) == "N":
                return ("merged", "N", "C")
            return ANY
        if last == "merge_leading_dims":
            lx = self.lead(ops[0]) if ops else ANY
            if lx[0] in ("pair",):
                return ("merged", lx[1], lx[2])
            if lx[0] == "iidpair":
                return IID
            return ANY
        if last == "split_leading_dim":
            x = ops[0] if ops else None
            shp = self._kw(c, "shape", 1, ops)
            lx = self.lead(x) if x is not None else ANY
            if isinstance(shp, (ast.List, ast.Tuple)) and len(shp.elts) == 2:
                return self._split(lx, self.tag(shp.elts[0]), self.tag(shp.elts[1]), c)
            return ANY
        if is_method and ((last in ("reshape", "view") and len(ops) == 2 and const_number(ops[1]) == -1) or (last in ("flatten", "squeeze") and len(ops) == 1) or (last == "squeeze" and len(ops) == 2 and const_number(ops[1]) not in (None, 0))):
            # flattening keeps the leading axis outermost: its order survives
            lx = self.lead(ops[0])
            return lx if lx[0] in ("merged", "rows", "ns", "iid") else ANY
        if last == "gather" and is_method and len(ops) >= 3 and (const_number(ops[1]) or 0) >= 1:
            # picks along a later axis: the leading axis is that of the source (and of the index)
            return self.combine(self.lead(ops[0]), self.lead(ops[2]), c)
        if last in ("reshape", "view") and is_method and len(ops) >= 2 and isinstance(ops[1], ast.Starred):
            v = ops[1].value
            if isinstance(v, ast.Attribute) and v.attr == "shape":
                # x.reshape(*y.shape, k, ..): the leading axis of y (one axis) is kept in front
                lx, ly = self.lead(ops[0]), self.lead(v.value)
                if lx[0] in ("merged", "rows", "ns", "iid") and ly[0] in ("any", lx[0]):
                    return lx
            return ANY
        if last in ("reshape", "view"):
            x = ops[0] if ops else None
            sizes = ops[1:]
            if len(sizes) == 1 and isinstance(sizes[0], (ast.Tuple, ast.List)):
                sizes = sizes[0].elts
            lx = self.lead(x) if x is not None else ANY
            sizes = [s for s in sizes if not isinstance(s, ast.Starred)]
            if lx[0] in ("merged", "iid") and len(sizes) >= 2:
                t0, t1 = self.tag(sizes[0]), self.tag(sizes[1])
                if {t0, t1} & {"C", "N"}:
                    return self._split(lx, t0, t1, c)
            if lx[0] == "pair" and len(sizes) >= 2 and {lx[1], lx[2]} == {"C", "N"}:
                t0, t1 = self.tag(sizes[0]), self.tag(sizes[1])
                if {t0, t1} == {"C", "N"}:
                    if (t0, t1) != (lx[1], lx[2]):
                        self.conflict(c, "a tensor with the leading axes (%s, %s) is reshaped to (%s, %s, ...): a reshape re-reads the same memory order, it does not swap the axes (a transpose is needed), so the samples of one context row are spread over all rows" % (lx[1], lx[2], t0, t1))
                    return ("pair", t0, t1)
            if lx[0] in ("pair", "iidpair") and sizes and self.tag(sizes[0]) in ("CN", "?"):
                return ("merged", lx[1], lx[2]) if lx[0] == "pair" else IID
            return ANY
        if last == "sum_except_batch":
            # reduces the trailing axes only: the leading (batch) axes keep their layout
            x = ops[0] if ops else None
            nbd = self._kw(c, "num_batch_dims", 1, ops)
            k = 1 if nbd is None else const_number(nbd)
            lx = self.lead(x) if x is not None else ANY
            if lx[0] in ("pair", "iidpair"):
                return lx if k == 2 else ANY
            return lx if k == 1 else ANY
        if last in ELEMENTWISE or (last in ("_share_across_batch",)):
            out = ANY
            for a in ops:
                out = self.combine(out, self.lead(a), c)
            return out
        # functions of the context row-by-row: encoders, embedding nets, own helpers
        if chain.startswith("self.") and ops[1 if is_method else 0 :]:
            args = ops[1:] if is_method else ops
            ls = [self.lead(a) for a in args]
            if ROWS in ls and all(l in (ROWS, ANY) for l in ls):
                return ROWS
        return ANY

    def _split(self, lx, t0, t1, node):
        if lx[0] == "merged":
            a, b = lx[1], lx[2]
            if {a, b} == {"C", "N"} and {t0, t1} <= {"C", "N", "?"} and (t0, t1) != ("?", "?"):
                want = (t0 if t0 != "?" else ("C" if t1 == "N" else "N"), t1 if t1 != "?" else ("C" if t0 == "N" else "N"))
                if want != (a, b):
                    self.conflict(node, "a leading axis built in the order (%s outer, %s inner) is split as [%s, %s]: the samples of one context row are spread over all rows" % (a, b, want[0], want[1]))
                return ("pair", want[0], want[1])
            return ("pair", a, b)
        if lx[0] == "iid" or lx == ANY:
            return ("pair", t0, t1) if lx[0] == "iid" else ("pair", t0, t1)
        return ANY


TARGETS = [
    ("Flow", "nflows.flows.base", "_sample"),
    ("Flow", "nflows.flows.base", "sample_and_log_prob"),
    ("Distribution", "nflows.distributions.base", "sample_and_log_prob"),
    ("StandardNormal", "nflows.distributions.normal", "_sample"),
    ("ConditionalDiagonalNormal", "nflows.distributions.normal", "_sample"),
    ("DiagonalNormal", "nflows.distributions.normal", "_sample"),
    ("ConditionalIndependentBernoulli", "nflows.distributions.discrete", "_sample"),
    ("MixtureOfGaussiansMADE", "nflows.nn.nde.made", "sample"),
]


NON_DISTRIBUTION_SAMPLERS = [("MixtureOfGaussiansMADE", "nflows.nn.nde.made", "sample")]


def _all_targets(p, targets):
    """The anchors plus every sampling method a class of the distributions / flows packages
    defines itself (an override added later is a sampler like the others)"""
    out = list(targets)
    have = set(out)
    for mname in sorted(p.modules):
        if not (mname.startswith("nflows.distributions") or mname.startswith("nflows.flows")):
            continue
        m = p.modules[mname]
        for cname in sorted(m.classes):
            cls = m.classes[cname]
            for meth in ("_sample", "sample_and_log_prob"):
                fi = cls.methods.get(meth) if hasattr(cls, "methods") else None
                if fi is None or (cname, mname, meth) in have:
                    continue
                if any(isinstance(st, ast.Raise) for st in fi.node.body):
                    continue  # abstract
                out.append((cname, mname, meth))
                have.add((cname, mname, meth))
    return out


def _returned_layouts(p, cname, mod, mname):
    """(layout without a context, layout with one) of what `cname.mname` returns, when every
    returning path of a kind agrees; ANY otherwise"""
    try:
        cls = p.find_class(cname, mod)
    except Exception:
        return None
    fi = cls.lookup_method(mname) if cls is not None else None
    if fi is None:
        return None
    got = {True: set(), False: set()}
    for path in paths_of(fi.node):
        if path.kind != "return":
            continue
        absent = _ctx_absent(path)
        L = Layouts(set() if absent else {"context"})
        L.ctx_absent = absent
        r = path.ret.elts[0] if isinstance(path.ret, ast.Tuple) and path.ret.elts else path.ret
        got[absent].add(L.lead(r))
    pick = lambda s: next(iter(s)) if len(s) == 1 else ANY
    return (pick(got[True]), pick(got[False]))


def _callee_layouts(p, cls):
    """`self.<attr>.sample` -> returned layouts, for the attributes the constructor of `cls` binds
    to a non-Distribution sampler class"""
    out = {}
    init = cls.lookup_method("__init__") if cls is not None else None
    if init is None:
        return out
    for st in ast.walk(init.node):
        if isinstance(st, ast.Assign) and len(st.targets) == 1 and isinstance(st.value, ast.Call):
            t = st.targets[0]
            if isinstance(t, ast.Attribute) and isinstance(t.value, ast.Name) and t.value.id == "self":
                callee = norm_text(st.value.func).split(".")[-1]
                for cname, mod, mname in NON_DISTRIBUTION_SAMPLERS:
                    if callee == cname:
                        lay = _returned_layouts(p, cname, mod, mname)
                        if lay is not None:
                            out["self.%s.%s" % (t.attr, mname)] = lay
    return out


def _ctx_absent(path):
    for et, raw, pol in path.conds:
        if isinstance(et, ast.Compare) and len(et.ops) == 1 and isinstance(et.comparators[0], ast.Constant) and et.comparators[0].value is None and "context" in norm_text(et.left):
            is_none = isinstance(et.ops[0], ast.Is) == bool(pol) if isinstance(et.ops[0], (ast.Is, ast.IsNot)) else None
            if is_none:
                return True
    return False


def findings_layout(p, targets=TARGETS, res=None):
    out = []
    n = 0
    if targets is TARGETS:
        targets = _all_targets(p, targets)
    for cname, mod, mname in targets:
        try:
            cls = p.find_class(cname, mod)
        except Exception:
            cls = None
        fi = cls.lookup_method(mname) if cls is not None else None
        if fi is None:
            continue
        n += 1
        ctx_names = {a for a, _ in fi.params() if a == "context"}
        callee_lay = _callee_layouts(p, cls)
        seen = set()
        for path in paths_of(fi.node):
            if path.kind != "return":
                continue
            # on a path taken when the context is None there are no context rows at all
            ctx_absent = False
            for et, raw, pol in path.conds:
                if isinstance(et, ast.Compare) and len(et.ops) == 1 and isinstance(et.comparators[0], ast.Constant) and et.comparators[0].value is None and "context" in norm_text(et.left):
                    is_none = isinstance(et.ops[0], ast.Is) == bool(pol) if isinstance(et.ops[0], (ast.Is, ast.IsNot)) else None
                    if is_none:
                        ctx_absent = True
            L = Layouts(set() if ctx_absent else ctx_names)
            L.ctx_absent = ctx_absent
            L.callee_layouts = callee_lay
            L.cls = cls
            rets = path.ret.elts if isinstance(path.ret, ast.Tuple) else [path.ret]
            final = [L.lead(r) for r in rets]
            # the sampler's own result: [rows, num_samples, ...]
            ctx_given = any(norm_text(raw) in ("context is not None", "embedded_context is not None") and pol or norm_text(raw) in ("context is None", "embedded_context is None") and not pol for _, raw, pol in path.conds)
            for lay in final[:1]:
                if lay[0] == "pair" and {lay[1], lay[2]} == {"C", "N"} and (lay[1], lay[2]) != ("C", "N"):
                    L.conflict(path.ret_node, "the sampler returns its samples shaped [num_samples, rows, ...]; the interface is [rows, num_samples, ...]")
            for node, msg in L.conflicts:
                key = (fi.qualname, msg)
                if key in seen:
                    continue
                seen.add(key)
                out.append(Finding("LEAD-LAYOUT", fi.module, fi.qualname, path.ret_node, msg, construct=msg[:70]))
            if res is not None and not L.conflicts:
                res.ok("%s: %s" % (fi.qualname, " / ".join("%s(%s)" % (l[0], ",".join(l[1:])) for l in final)), nontrivial=any(l != ANY for l in final))
    return out, n


def layout_rule(ctx):
    res = RuleResult("LEAD-LAYOUT", "merged [rows x samples] axes are built, combined and split in one and the same order (rows outer, samples inner); per-row parameters meet the row axis")
    fs, n = findings_layout(ctx.p, TARGETS, res)
    if n < 7:
        raise AnalysisIncomplete("LEAD-LAYOUT: %d of the sampler anchors found (< 7)" % n)
    for f in fs:
        res.fail(f)
    return res
