"""COV-JUNCTION (C03): pieces of a piecewise-defined transformer meet at their thresholds.

A transformer written as `outputs[mask_k] = f_k(inputs[mask_k])` with masks that compare the inputs with
thresholds built from constructor arguments is a bijection of the line onto its range only if consecutive
pieces agree at the threshold between them: each f_k is monotone on its own interval, so a gap between
f_mid(T) and f_right(T) is an interval of the target that no input reaches (mass is lost: the density
integrates to less than one), and an overlap is counted twice (more than one).  Decided symbolically: the
constructor's formulas for the stored constants are substituted, both pieces are evaluated at the threshold in
the rational-function algebra with exp / log laws (nfstatic/ratalg.py), and the difference must be the zero
polynomial.  A non-zero difference over atoms known to be independent is the violation.
"""

import ast
import copy

from ..entries import transform_classes
from ..model import AnalysisIncomplete, norm_text
from ..ratalg import Algebra, NotRational
from ..report import Finding, RuleResult


def _ctor_env(cls):
    """self.<attr> -> defining expression (single plain assignment in the constructor), locals -> definitions"""
    env, symbols = {}, set()
    init = cls.lookup_method("__init__")
    if init is None:
        return env, symbols
    symbols = {a for a, _ in init.params()}
    counts = {}
    for st in ast.walk(init.node):
        if isinstance(st, ast.Assign) and len(st.targets) == 1:
            t = st.targets[0]
            if isinstance(t, ast.Attribute) and isinstance(t.value, ast.Name) and t.value.id == "self":
                k = "self." + t.attr
            elif isinstance(t, ast.Name):
                k = t.id
            else:
                continue
            counts[k] = counts.get(k, 0) + 1
            env[k] = st.value
    for k, c in counts.items():
        if c > 1:
            env.pop(k, None)
    for k in list(env):
        if k in symbols:
            del env[k]  # a rebound parameter: not a symbol any more, not a definition we follow
            symbols.discard(k)
    return env, symbols


def _threshold(test, x):
    """('upper' | 'lower', threshold expression) for a comparison of the inputs with a threshold"""
    if not (isinstance(test, ast.Compare) and len(test.ops) == 1):
        return None
    a, op, b = test.left, test.ops[0], test.comparators[0]
    if norm_text(b) == x and norm_text(a) != x:
        flip = {ast.Gt: ast.Lt, ast.GtE: ast.LtE, ast.Lt: ast.Gt, ast.LtE: ast.GtE}
        if type(op) not in flip:
            return None
        a, b, op = b, a, flip[type(op)]()
    if norm_text(a) != x or any(isinstance(n, ast.Name) and n.id == x for n in ast.walk(b)):
        return None
    if isinstance(op, (ast.Gt, ast.GtE)):
        return ("upper", b)
    if isinstance(op, (ast.Lt, ast.LtE)):
        return ("lower", b)
    return None


class _At(ast.NodeTransformer):
    """the piece's formula at the threshold: inputs[mask] / inputs -> T"""

    def __init__(self, x, t):
        self.x, self.t = x, t

    def visit_Subscript(self, n):
        if isinstance(n.value, ast.Name) and n.value.id == self.x:
            return copy.deepcopy(self.t)
        return self.generic_visit(n)

    def visit_Name(self, n):
        if n.id == self.x:
            return copy.deepcopy(self.t)
        return n


def _stores(e):
    """[(mask expression, value expression)] of a nested __store__(base, mask, value) chain, innermost first"""
    out = []
    while isinstance(e, ast.Call) and isinstance(e.func, ast.Name) and e.func.id == "__store__" and len(e.args) == 3:
        out.append((e.args[1], e.args[2]))
        e = e.args[0]
    return list(reversed(out)), e


def _wheres(e):
    """[(condition, value)] and the final alternative of a nested torch.where(c1, v1, torch.where(c2, v2, rest))"""
    out = []
    while isinstance(e, ast.Call) and norm_text(e.func) in ("torch.where",) and len(e.args) == 3 and not e.keywords:
        out.append((e.args[0], e.args[1]))
        e = e.args[2]
    return out, e


def _mask_kind(m, x):
    """('upper'|'lower', threshold) for a threshold comparison of the inputs; ('rest', [thresholds..]) for the
    complement of a union of such comparisons (~(a | b), ~a & ~b); None otherwise"""
    th = _threshold(m, x)
    if th is not None:
        return th

    def atoms_of_union(e):
        if isinstance(e, ast.BinOp) and isinstance(e.op, ast.BitOr):
            l, r = atoms_of_union(e.left), atoms_of_union(e.right)
            return None if l is None or r is None else l + r
        t = _threshold(e, x)
        return [t] if t is not None else None

    def atoms_of_negated_meet(e):
        if isinstance(e, ast.BinOp) and isinstance(e.op, ast.BitAnd):
            l, r = atoms_of_negated_meet(e.left), atoms_of_negated_meet(e.right)
            return None if l is None or r is None else l + r
        if isinstance(e, ast.UnaryOp) and isinstance(e.op, ast.Invert):
            return atoms_of_union(e.operand)
        if isinstance(e, ast.Call) and isinstance(e.func, ast.Attribute) and e.func.attr == "logical_not" and len(e.args) == 1:
            return atoms_of_union(e.args[0])
        return None

    at = atoms_of_negated_meet(m)
    if at:
        return ("rest", at)
    return None


def junction_rule(ctx):
    from ..symexp import paths_of

    p = ctx.p
    res = RuleResult("COV-JUNCTION", "the pieces of a transformer defined by threshold masks on its inputs take the same value at the threshold between them (no gap, no overlap of their images), with the constructor's formulas for the constants substituted")
    n_cls = 0
    for cls in transform_classes(p):
        fi = cls.methods.get("forward")
        if fi is None:
            continue
        params = [a for a, _ in fi.params()]
        if not params:
            continue
        x = params[0]
        # cheap pre-filter: a masked store into something
        if not any(isinstance(n, ast.Subscript) and isinstance(n.ctx, ast.Store) for n in ast.walk(fi.node)):
            continue
        try:
            paths = [pp for pp in paths_of(fi.node) if pp.kind == "return" and isinstance(pp.ret, ast.Tuple) and len(pp.ret.elts) == 2]
        except AnalysisIncomplete:
            continue
        for pp in paths:
            stores, base = _stores(pp.ret.elts[0])
            if len(stores) < 2:
                # the same function written with torch.where: the last alternative is the rest
                wh, rest_v = _wheres(pp.ret.elts[0])
                if not wh or any(_mask_kind(c, x) is None or _mask_kind(c, x)[0] == "rest" for c, _ in wh):
                    continue
                stores = wh + [(ast.parse("~(%s)" % " | ".join("(%s)" % norm_text(c) for c, _ in wh), mode="eval").body, rest_v)]
            kinds = [(_mask_kind(m, x), m, v) for m, v in stores]
            if any(k is None for k, _, _ in kinds):
                if any(k is not None and k[0] in ("upper", "lower") for k, _, _ in kinds):
                    res.undecide("%s.forward" % cls.name, "some pieces are selected by threshold masks, others by `%s`" % next(norm_text(m)[:50] for k, m, _ in kinds if k is None))
                continue
            rest = [(k, m, v) for k, m, v in kinds if k[0] == "rest"]
            sides = [(k, m, v) for k, m, v in kinds if k[0] in ("upper", "lower")]
            if len(rest) != 1 or not sides:
                continue
            n_cls += 1
            mid_mask, mid_val = rest[0][1], rest[0][2]
            env, symbols = _ctor_env(cls)
            for (side, thr), m, v in sides:
                label = "%s.forward: the %s piece and the middle piece at %s = %s" % (cls.name, side, x, norm_text(thr))
                alg = Algebra(env, symbols)
                try:
                    a = alg.tr(_At(x, thr).visit(copy.deepcopy(v)))
                    b = alg.tr(_At(x, thr).visit(copy.deepcopy(mid_val)))
                except NotRational as ex:
                    res.undecide(label, "not a closed formula of the constructor arguments (%s)" % ex)
                    continue
                d = a - b
                if d.is_zero():
                    res.ok("%s: both equal %s" % (label, b.show()[:60]))
                    continue
                if not alg.independent(d):
                    res.undecide(label, "the two values differ formally by %s, over atoms that may be related" % d.show()[:80])
                    continue
                res.fail(Finding("COV-JUNCTION", fi.module, fi.qualname, pp.ret_node, "%s: the %s piece gives %s and the middle piece gives %s; they differ by %s, which is not identically zero -- the image of the %s piece leaves a gap to, or overlaps, the image of the middle piece, so part of the target is never reached (probability mass is lost) or is reached twice; the constants the constructor computes do not make the pieces meet" % (label, side, a.show()[:70], b.show()[:50], d.show()[:70], side), construct="junction of %s.forward at %s" % (cls.name, norm_text(thr))))
    if n_cls < getattr(ctx, "junction_floor", 1):
        raise AnalysisIncomplete("COV-JUNCTION: no transformer with threshold-mask pieces found (LogTanh is one on the pinned tree)")
    return res


def _install():
    from . import PROPERTIES

    PROPERTIES["C03"]["rules"].append(junction_rule)


_install()
