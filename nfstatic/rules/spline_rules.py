"""Spline family template (C09, C17, part of C02): one set of slots filled for linear,
quadratic, cubic and rational-quadratic splines and their four unconstrained wrappers, so the
siblings are cross-checked against one template.  Everything works on the symbolic expansion
of the function bodies (local names eliminated), under inverse=False and inverse=True.
"""

import ast

from ..astutil import attr_chain, canon_atom, cond_atoms, const_number, negate_atom, product_factors, signed_terms
from ..model import AnalysisIncomplete, FuncInfo, norm_text
from ..report import Finding, RuleResult
from ..sign import sign_of, POS
from ..symexp import paths_of, is_store, is_component, is_synth, strip_stores, uwalk, shash, brief, unames
from . import register, A_CFG, T_OPS, A_NET

FAMILIES = [
    ("nflows.transforms.splines.linear", "linear_spline", "unconstrained_linear_spline"),
    ("nflows.transforms.splines.quadratic", "quadratic_spline", "unconstrained_quadratic_spline"),
    ("nflows.transforms.splines.cubic", "cubic_spline", "unconstrained_cubic_spline"),
    ("nflows.transforms.splines.rational_quadratic", "rational_quadratic_spline", "unconstrained_rational_quadratic_spline"),
]
HEIGHT_PARAMS = {"unnormalized_heights", "unnormalized_pdf"}
WIDTH_PARAMS = {"unnormalized_widths"}


def spline_funcs(p):
    out = []
    for modname, inner, outer in FAMILIES:
        mod = p.modules.get(modname)
        if mod is None or inner not in mod.functions or outer not in mod.functions:
            raise AnalysisIncomplete("spline family %s incomplete" % modname)
        out.append((mod.functions[inner], mod.functions[outer]))
    return out


def names_in(e):
    return unames(e)


def func_last(c):
    """Last component of a callee name without printing the (possibly huge) receiver."""
    f = c.func
    if isinstance(f, ast.Attribute):
        return f.attr
    if isinstance(f, ast.Name):
        return f.id
    return ""


def is_torch_fn(c, name):
    """torch.<name>(...) / F.<name>(...) / torchutils.<name>(...) (receiver is a plain module name)"""
    f = c.func
    return isinstance(f, ast.Attribute) and f.attr == name and isinstance(f.value, (ast.Name, ast.Attribute)) and attr_chain(f.value) is not None


def _last_index(idx, which):
    """Is idx `(..., which)` ?"""
    if isinstance(idx, ast.Tuple) and len(idx.elts) == 2:
        a, b = idx.elts
        return isinstance(a, ast.Constant) and a.value is Ellipsis and const_number(b) == which
    return False


def _pad_info(e):
    """(inner, pad_left, pad_right, value) for F.pad(inner, pad=(l, r), value=v)"""
    if isinstance(e, ast.Call) and func_last(e) == "pad" and e.args:
        pad = next((k.value for k in e.keywords if k.arg == "pad"), e.args[1] if len(e.args) > 1 else None)
        val = next((k.value for k in e.keywords if k.arg == "value"), ast.Constant(value=0.0))
        if isinstance(pad, (ast.Tuple, ast.List)) and len(pad.elts) == 2:
            return e.args[0], const_number(pad.elts[0]), const_number(pad.elts[1]), val
    return None


def knot_pins(e):
    """(low, high, scaled_box) pins of a knot vector expression.

    low / high are the expressions stored at the first / last position (exactly), or None.
    scaled_box is (lo_sym, hi_sym) when the vector is an affine image `(hi - lo) * unit + lo`.
    """
    low = high = None
    core, stores = strip_stores(e)
    for idx, val in stores:
        if _last_index(idx, -1):
            high = val
        elif _last_index(idx, 0):
            low = val
    box = None
    # affine scaling of a unit vector
    if isinstance(core, ast.BinOp) and isinstance(core.op, ast.Add):
        for a, b in ((core.left, core.right), (core.right, core.left)):
            if isinstance(a, ast.BinOp) and isinstance(a.op, ast.Mult):
                for s, u in ((a.left, a.right), (a.right, a.left)):
                    if isinstance(s, ast.BinOp) and isinstance(s.op, ast.Sub) and norm_text(s.right) == norm_text(b):
                        box = (norm_text(b), norm_text(s.left))
                        # pins of the inner unit vector do not survive scaling bit-exactly
                        return low, high, box
    pi = _pad_info(core)
    if pi is not None:
        inner, pl, pr, val = pi
        ilow, ihigh, ibox = knot_pins(inner)
        if pl == 1 and (pr in (0, None)):
            if low is None:
                low = val
            if high is None:
                high = ihigh
        elif pl in (0, None) and pr == 1:
            if high is None:
                high = val
            if low is None:
                low = ilow
        return low, high, box
    return low, high, box


def _searches(expr):
    out = []
    seen = set()
    for c in uwalk(expr):
        if isinstance(c, ast.Call) and func_last(c) == "searchsorted" and len(c.args) >= 2:
            k = shash(c)
            if k not in seen:
                seen.add(k)
                out.append(c)
    return out


def _ret_paths(fi, inverse):
    return [pp for pp in paths_of(fi.node, assume={"inverse": inverse}) if pp.kind == "return"]


def _guards(path):
    from ..symexp import size_upto

    g = set()
    for et, raw, pol in path.conds:
        g |= cond_atoms(raw, pol)
        if size_upto(et, 120) <= 120:
            g |= cond_atoms(et, pol)
    return g


# ---------------------------------------------------------------------------------------
# SPL-PIN + EPS-UNITS + SPL-SEARCH / INV-SIDE
# ---------------------------------------------------------------------------------------


def _search_eps_convention(p):
    """How the repository's `searchsorted` applies its `eps` to the last knot: 'absolute'
    (`knots[..., -1] += eps`), 'relative' (the added amount also involves the knots themselves,
    e.g. `eps * (knots[..., -1] - knots[..., 0])`) or None when no such store is found."""
    m = p.modules.get("nflows.utils.torchutils")
    fi = m.functions.get("searchsorted") if m is not None else None
    node = getattr(fi, "node", None)
    if node is None or "eps" not in [a.arg for a in node.args.args]:
        return None, None
    arg0 = node.args.args[0].arg

    def last_knot(t):
        if not isinstance(t, ast.Subscript):
            return False
        sl = t.slice
        last = sl.elts[-1] if isinstance(sl, ast.Tuple) and sl.elts else sl
        return const_number(last) == -1

    # names that carry the knots (the argument and its copies) and names derived from them
    knotty = {arg0}
    changed = True
    assigns = [st for st in ast.walk(node) if isinstance(st, ast.Assign) and len(st.targets) == 1 and isinstance(st.targets[0], ast.Name)]
    while changed:
        changed = False
        for st in assigns:
            if st.targets[0].id not in knotty and {n.id for n in ast.walk(st.value) if isinstance(n, ast.Name)} & knotty:
                knotty.add(st.targets[0].id)
                changed = True
    for st in ast.walk(node):
        added = None
        if isinstance(st, ast.AugAssign) and isinstance(st.op, ast.Add) and last_knot(st.target):
            added = st.value
        elif isinstance(st, ast.Assign) and len(st.targets) == 1 and last_knot(st.targets[0]) and isinstance(st.value, ast.BinOp) and isinstance(st.value.op, ast.Add):
            l, r = st.value.left, st.value.right
            if last_knot(l):
                added = r
            elif last_knot(r):
                added = l
        if added is None:
            continue
        nm = {n.id for n in ast.walk(added) if isinstance(n, ast.Name)}
        if "eps" not in nm:
            continue
        if isinstance(added, ast.BinOp) and isinstance(added.op, ast.Mult) and (nm & knotty):
            return "relative", fi
        if nm == {"eps"}:
            return "absolute", fi
    return None, fi


def pin_rule(ctx):
    p = ctx.p
    eps_conv, search_fi = _search_eps_convention(p)
    res_pin = RuleResult("SPL-PIN", "every searched knot vector has both end-points stored exactly (0/1 for unit knots, the box arguments for scaled ones) before it is searched")
    res_eps = RuleResult("EPS-UNITS", "the right-edge epsilon of the bin search is in the units of the knots: unit knots, or an epsilon scaled by the box")
    res_side = RuleResult("INV-SIDE", "forward searches the x-knots and maps into the y-box; inverse searches the y-knots and maps into the x-box")
    n_vec = 0
    for inner, outer in spline_funcs(p):
        box_params = {"x": ("left", "right"), "y": ("bottom", "top")}
        for inverse in (False, True):
            paths = _ret_paths(inner, inverse)
            if not paths:
                raise AnalysisIncomplete("%s has no returning path for inverse=%s" % (inner.name, inverse))
            done = set()
            for path in paths:
                if not (isinstance(path.ret, ast.Tuple) and len(path.ret.elts) == 2):
                    res_side.undecide("%s(inverse=%s)" % (inner.name, inverse), "does not return a pair")
                    continue
                for sc in _searches(path.ret):
                    knots, x = sc.args[0], sc.args[1]
                    key = shash(knots)
                    if key in done:
                        continue
                    done.add(key)
                    n_vec += 1
                    low, high, box = knot_pins(knots)
                    tag = "%s(inverse=%s) knots `%s...`" % (inner.name, inverse, brief(knots)[:40])
                    # which side
                    deps = names_in(knots)
                    is_y = bool(deps & HEIGHT_PARAMS)
                    side = "y" if is_y else "x"
                    if inverse and not is_y:
                        res_side.fail(Finding("INV-SIDE", inner.module, inner.qualname, inner.node, "the inverse direction searches the x-knots (built from the widths only); it must search the y-knots (cumulative heights)", construct="searched knots, inverse=True"))
                    elif not inverse and is_y:
                        res_side.fail(Finding("INV-SIDE", inner.module, inner.qualname, inner.node, "the forward direction searches the y-knots; it must search the x-knots (cumulative widths)", construct="searched knots, inverse=False"))
                    else:
                        res_side.ok("%s: searches the %s-knots" % (tag, side))
                    lo_sym, hi_sym = box_params[side]
                    if box is not None:
                        # scaled knots: pins must be the box arguments of that side
                        if box != (lo_sym, hi_sym):
                            res_side.fail(Finding("INV-SIDE", inner.module, inner.qualname, inner.node, "the %s-knots are scaled by the box (%s, %s) instead of (%s, %s)" % (side, box[0], box[1], lo_sym, hi_sym), construct="box of the %s-knots" % side))
                        lo_ok = low is not None and norm_text(low) == lo_sym
                        hi_ok = high is not None and norm_text(high) == hi_sym
                        units = "SCALED"
                    else:
                        lo_ok = low is not None and const_number(low) == 0
                        hi_ok = high is not None and const_number(high) == 1
                        units = "UNIT"
                    if lo_ok and hi_ok:
                        res_pin.ok("%s: pinned to (%s, %s)" % (tag, norm_text(low), norm_text(high)))
                    else:
                        miss = [w for w, okp in (("lower", lo_ok), ("upper", hi_ok)) if not okp]
                        res_pin.fail(Finding("SPL-PIN", inner.module, inner.qualname, inner.node, "the %s end-point of the searched %s-knot vector is not stored exactly (%s knots; found low=%s high=%s): the spline stops short of / overshoots its box by rounding" % (" and ".join(miss), side, units.lower(), norm_text(low) if low is not None else None, norm_text(high) if high is not None else None), construct="%s-knot pins, inverse=%s" % (side, inverse)))
                    # epsilon units
                    eps = next((k.value for k in sc.keywords if k.arg == "eps"), sc.args[2] if len(sc.args) > 2 else None)
                    if units == "UNIT":
                        if eps is None or const_number(eps) is not None:
                            res_eps.ok("%s: unit knots, absolute eps" % tag)
                        else:
                            res_eps.fail(Finding("EPS-UNITS", inner.module, inner.qualname, inner.node, "unit knots are searched with a scaled epsilon `%s`" % norm_text(eps), construct="eps of the %s-knot search, inverse=%s" % (side, inverse)))
                    else:
                        etxt = norm_text(eps).replace(" ", "") if eps is not None else ""
                        want = "(%s-%s)" % (hi_sym, lo_sym)
                        if eps_conv == "relative" and eps is not None and const_number(eps) is None:
                            res_eps.fail(
                                Finding(
                                    "EPS-UNITS",
                                    inner.module,
                                    inner.qualname,
                                    inner.node,
                                    "the %s-knots are searched with eps=`%s`, already scaled by the box, and %s scales its eps by the extent of the knots once more: the nudge is eps * extent**2, absorbed by rounding for a small box, so an input equal to the upper end falls outside the last bin and the bin lookup runs off the end" % (side, norm_text(eps), search_fi.qualname),
                                    construct="eps of the %s-knot search, inverse=%s (scaled twice)" % (side, inverse),
                                )
                            )
                        elif eps_conv == "relative":
                            res_eps.ok("%s: scaled knots, eps relative to the extent of the knots in %s" % (tag, search_fi.qualname))
                        elif eps is not None and want in etxt:
                            res_eps.ok("%s: scaled knots, eps scaled by %s" % (tag, want))
                        else:
                            res_eps.fail(
                                Finding(
                                    "EPS-UNITS",
                                    inner.module,
                                    inner.qualname,
                                    inner.node,
                                    "the %s-knots are scaled by the box (%s, %s) but searched with %s: for a large box the absolute epsilon is absorbed by rounding, an input equal to the upper end falls outside the last bin and the bin lookup runs off the end" % (side, lo_sym, hi_sym, "the default absolute eps=1e-6" if eps is None else "eps=`%s`" % norm_text(eps)),
                                    construct="eps of the %s-knot search, inverse=%s" % (side, inverse),
                                )
                            )
                    # normalisation of the searched input
                    xn = names_in(x)
                    other_lo, other_hi = box_params["y" if side == "x" else "x"]
                    if box is None:
                        if {lo_sym, hi_sym} <= xn and not ({other_lo, other_hi} & xn):
                            res_side.ok("%s: input normalised by (%s, %s)" % (tag, lo_sym, hi_sym))
                        else:
                            res_side.fail(Finding("INV-SIDE", inner.module, inner.qualname, inner.node, "the input searched in the %s-knots must be normalised by the box (%s, %s); found `%s`" % (side, lo_sym, hi_sym, brief(x)[:60]), construct="normalisation of the searched input, inverse=%s" % inverse))
                    else:
                        if {"left", "right", "bottom", "top"} & xn:
                            res_side.fail(Finding("INV-SIDE", inner.module, inner.qualname, inner.node, "scaled knots must be searched with the raw input", construct="normalisation of the searched input, inverse=%s" % inverse))
                # de-normalisation of the result: into the other box
                r0 = path.ret.elts[0]
                out_lo, out_hi = box_params["x" if inverse else "y"]
                okd = False
                if isinstance(r0, ast.BinOp) and isinstance(r0.op, ast.Add):
                    aff = False
                    for a, b in ((r0.left, r0.right), (r0.right, r0.left)):
                        if isinstance(a, ast.BinOp) and isinstance(a.op, ast.Mult) and norm_text(b) == out_lo if isinstance(b, ast.Name) else False:
                            for sfac in (a.left, a.right):
                                if isinstance(sfac, ast.BinOp) and isinstance(sfac.op, ast.Sub) and isinstance(sfac.left, ast.Name) and isinstance(sfac.right, ast.Name) and (sfac.left.id, sfac.right.id) == (out_hi, out_lo):
                                    aff = True
                    if aff:
                        okd = True
                    else:
                        # rq form: <gather from the knots of the output side> + ...
                        for side_e in (r0.left, r0.right):
                            if isinstance(side_e, (ast.Subscript, ast.Call)):
                                recv = side_e
                                while isinstance(recv, ast.Subscript):
                                    recv = recv.value
                                if isinstance(recv, ast.Call) and isinstance(recv.func, ast.Attribute) and recv.func.attr == "gather":
                                    lo2, hi2, box2 = knot_pins(recv.func.value)
                                    if box2 == (out_lo, out_hi):
                                        okd = True
                if okd:
                    res_side.ok("%s(inverse=%s): result mapped into the (%s, %s) box" % (inner.name, inverse, out_lo, out_hi))
                else:
                    res_side.fail(Finding("INV-SIDE", inner.module, inner.qualname, path.ret_node, "the result of the %s direction must be mapped into the (%s, %s) box" % ("inverse" if inverse else "forward", out_lo, out_hi), construct="de-normalisation, inverse=%s" % inverse))
    if n_vec < 5:
        raise AnalysisIncomplete("SPL-PIN: %d searched knot vectors (< 5; the count on the pinned tree is larger, the floor leaves room for merged call sites confirmed by hand)" % n_vec)
    return {"pin": res_pin, "eps": res_eps, "side": res_side}


def c09_pin(ctx):
    r = ctx.shared("spline-pin", lambda: pin_rule(ctx))
    return [r["pin"], r["side"]]


def c17_eps(ctx):
    r = ctx.shared("spline-pin", lambda: pin_rule(ctx))
    return [r["eps"]]


# ---------------------------------------------------------------------------------------
# SPL-FLOOR
# ---------------------------------------------------------------------------------------


def _floor_form(w):
    """(a, b, u) if w is `a + (1 - b * K) * softmax(u, ...)` (names a, b; parameter name u)."""
    if not (isinstance(w, ast.BinOp) and isinstance(w.op, ast.Add)):
        return None
    for a, rest in ((w.left, w.right), (w.right, w.left)):
        if not isinstance(a, ast.Name) or not (isinstance(rest, ast.BinOp) and isinstance(rest.op, ast.Mult)):
            continue
        for fac, sm in ((rest.left, rest.right), (rest.right, rest.left)):
            if isinstance(sm, ast.Call) and func_last(sm) == "softmax" and sm.args and isinstance(sm.args[0], ast.Name):
                if isinstance(fac, ast.BinOp) and isinstance(fac.op, ast.Sub) and const_number(fac.left) == 1 and isinstance(fac.right, ast.BinOp) and isinstance(fac.right.op, ast.Mult):
                    names = [x.id for x in (fac.right.left, fac.right.right) if isinstance(x, ast.Name)]
                    if names:
                        return a.id, names[0], sm.args[0].id
    return None


def floor_rule(ctx):
    p = ctx.p
    res = RuleResult("SPL-FLOOR", "bin widths / heights / knot derivatives are positive for every parameter value (floors under their ValueError guards)")
    for inner, outer in spline_funcs(p):
        guards_seen = set()
        for inverse in (False, True):
            for path in _ret_paths(inner, inverse):
                g = _guards(path)
                done = set()
                memo = {}
                for c in uwalk(path.ret):
                    if isinstance(c, ast.Call) and is_torch_fn(c, "cumsum") and c.args:
                        w = c.args[0]
                        k = shash(w)
                        if k in done:
                            continue
                        done.add(k)
                        deps = names_in(w)
                        if not (deps & (HEIGHT_PARAMS | WIDTH_PARAMS)):
                            continue
                        s = sign_of(w, g, memo)
                        what = "heights" if deps & HEIGHT_PARAMS else "widths"
                        ff = _floor_form(w)
                        if ff is not None:
                            a, b, u = ff
                            want = "min_bin_height" if u in HEIGHT_PARAMS else "min_bin_width"
                            if a != b:
                                res.fail(Finding("SPL-FLOOR", inner.module, inner.qualname, inner.node, "the floored softmax `%s + (1 - %s * K) * softmax(%s)` uses two different minima: the bin %s then do not sum to one, so the pinned last knot is inconsistent with the bin sizes the slopes are computed from" % (a, b, u, what), construct="floor formula of the bin %s, inverse=%s" % (what, inverse)))
                            elif a in ("min_bin_width", "min_bin_height") and a != want:
                                res.fail(Finding("SPL-FLOOR", inner.module, inner.qualname, inner.node, "the bin %s are floored with %s (their guard and documentation use %s)" % (what, a, want), construct="floor parameter of the bin %s, inverse=%s" % (what, inverse)))
                            else:
                                res.ok("%s(inverse=%s): bin %s = m + (1 - m*K) * softmax with one m (sums to one)" % (inner.name, inverse, what))
                        if s == POS:
                            res.ok("%s(inverse=%s): bin %s `%s...` positive" % (inner.name, inverse, what, brief(w)[:40]))
                        else:
                            res.fail(Finding("SPL-FLOOR", inner.module, inner.qualname, inner.node, "the bin %s `%s` are not provably positive for every parameter value (sign %s): a zero-width/height bin makes the spline non-invertible" % (what, brief(w)[:80], s), construct="bin %s, inverse=%s" % (what, inverse)))
                    if isinstance(c, ast.Call) and isinstance(c.func, ast.Attribute) and c.func.attr == "gather":
                        recv = c.func.value
                        deps = names_in(recv)
                        if "unnormalized_derivatives" in deps and not (deps & (HEIGHT_PARAMS | WIDTH_PARAMS)):
                            core = recv
                            while isinstance(core, ast.Subscript):
                                core = core.value
                            k = shash(core)
                            if k in done:
                                continue
                            done.add(k)
                            s = sign_of(core, g, memo)
                            if s == POS:
                                res.ok("%s(inverse=%s): knot derivatives positive" % (inner.name, inverse))
                            else:
                                res.fail(Finding("SPL-FLOOR", inner.module, inner.qualname, inner.node, "knot derivatives `%s` are not provably positive (sign %s)" % (brief(core)[:80], s), construct="knot derivatives, inverse=%s" % inverse))
        # the ValueError guards of the floors: `if m * K > 1: raise ValueError`
        params = {a for a, _ in inner.params()}
        for m in ("min_bin_width", "min_bin_height"):
            if m not in params:
                continue
            found = False
            # a raising path (ValueError) whose path condition says  m * K > 1  -- in any
            # spelling of the test (operands swapped, `not ... <= 1`, 1 < m * K, local aliases)
            from ..astutil import cond_atoms as _cond_atoms

            for rp in paths_of(inner.node):
                if rp.kind != "raise" or rp.raise_exc is None or "ValueError" not in norm_text(rp.raise_exc) or not rp.conds:
                    continue
                et, raw, pol = rp.conds[-1]
                for atom in _cond_atoms(raw, pol):
                    try:
                        c = ast.parse(atom, mode="eval").body
                    except SyntaxError:
                        continue
                    if not (isinstance(c, ast.Compare) and len(c.ops) == 1):
                        continue
                    l, r, op = c.left, c.comparators[0], type(c.ops[0])
                    for prod, one, ok_ops in ((l, r, (ast.Gt,)), (r, l, (ast.Lt,))):
                        if const_number(one) == 1 and op in ok_ops and isinstance(prod, ast.BinOp) and isinstance(prod.op, ast.Mult) and m in {n.id for n in ast.walk(prod) if isinstance(n, ast.Name)}:
                            found = True
            if found:
                res.ok("%s: ValueError when %s * num_bins > 1" % (inner.name, m))
            else:
                res.fail(Finding("SPL-FLOOR", inner.module, inner.qualname, inner.node, "no `raise ValueError` when %s * num_bins > 1: the floor formula can then produce negative sizes" % m, construct="guard of %s" % m))
    return res


# ---------------------------------------------------------------------------------------
# SPL-CLAMP
# ---------------------------------------------------------------------------------------


def clamp_rule(ctx):
    p = ctx.p
    res = RuleResult("SPL-CLAMP", "interpolants that can overshoot by rounding (linear, quadratic) are clamped to the unit interval before de-normalisation")
    for inner, outer in spline_funcs(p)[:2]:
        for inverse in (False, True):
            for path in _ret_paths(inner, inverse):
                r0 = path.ret.elts[0] if isinstance(path.ret, ast.Tuple) else None
                okc = False
                if isinstance(r0, ast.BinOp) and isinstance(r0.op, ast.Add) and isinstance(r0.left, ast.BinOp) and isinstance(r0.left.op, ast.Mult):
                    for f in (r0.left.left, r0.left.right):
                        if isinstance(f, ast.Call) and func_last(f) == "clamp":
                            a = f.args[1:] if is_torch_fn(f, "clamp") and attr_chain(f.func.value) == "torch" else f.args
                            lo = a[0] if a else next((k.value for k in f.keywords if k.arg == "min"), None)
                            hi = a[1] if len(a) > 1 else next((k.value for k in f.keywords if k.arg == "max"), None)
                            if lo is not None and hi is not None and const_number(lo) == 0 and const_number(hi) == 1:
                                okc = True
                if okc:
                    res.ok("%s(inverse=%s): clamp(., 0, 1) before de-normalisation" % (inner.name, inverse))
                else:
                    res.fail(Finding("SPL-CLAMP", inner.module, inner.qualname, path.ret_node, "the normalised result is not clamped to [0, 1] before it is mapped to the box: rounding can leave the output interval", construct="clamp, inverse=%s" % inverse))
    # linear forward: floor(x*K) with the >= K -> K-1 repair
    lin = spline_funcs(p)[0][0]
    okr = False
    for path in _ret_paths(lin, False):
        for eff in path.effects:
            if eff[0] == "store":
                idx, val = eff[3], eff[4]
                it = brief(idx).replace(" ", "")
                vt = brief(val).replace(" ", "")
                if ">=" in it and vt.endswith("-1") and vt[:-2] in it:
                    okr = True
        # the same repair spelled as an upper clamp of the index: clamp(idx, max=K - 1),
        # idx.clamp(max=K - 1), clamp_max, torch.minimum / torch.min with K - 1
        for c in uwalk(path.ret):
            if not (isinstance(c, ast.Call) and func_last(c) in ("clamp", "clamp_max", "minimum", "min")):
                continue
            is_mod = isinstance(c.func, ast.Attribute) and isinstance(c.func.value, ast.Name) and c.func.value.id == "torch"
            recv = c.args[0] if is_mod and c.args else (c.func.value if isinstance(c.func, ast.Attribute) else None)
            rest = c.args[1:] if is_mod else c.args
            if func_last(c) == "clamp":
                hi = next((k.value for k in c.keywords if k.arg == "max"), rest[1] if len(rest) > 1 else None)
            else:
                hi = next((k.value for k in c.keywords if k.arg in ("max", "other")), rest[0] if rest else None)
            if recv is None or hi is None:
                continue
            has_floor = any(isinstance(x, ast.Call) and func_last(x) == "floor" for x in uwalk(recv))
            ht = brief(hi).replace(" ", "")
            if has_floor and ht.endswith("-1") and ht[:-2] and ht[:-2] in brief(recv).replace(" ", ""):
                okr = True  # floor(x * K) capped at K - 1
    if okr:
        res.ok("linear_spline forward: bin index >= K is repaired to K - 1 (input exactly at the upper end)")
    else:
        uses_floor = any(isinstance(c, ast.Call) and isinstance(c.func, ast.Attribute) and c.func.attr == "floor" for pp in _ret_paths(lin, False) for c in uwalk(pp.ret))
        if uses_floor:
            res.fail(Finding("SPL-CLAMP", lin.module, lin.qualname, lin.node, "linear_spline forward computes the bin as floor(x * K) but does not map K to K - 1: an input exactly at the upper end indexes out of range", construct="bin index repair"))
    return res


# ---------------------------------------------------------------------------------------
# SPL-TAIL (+ DOM-TAIL, SPL-SQUARE)
# ---------------------------------------------------------------------------------------


def _cmp_parts(e):
    """(operand text, op symbol, bound text) of a comparison against +/- tail_bound."""
    if isinstance(e, ast.Compare) and len(e.ops) == 1:
        return canon_atom(e, True)
    return None


def _edge_values(e, depth=0):
    """(value at position 0, value at position -1) of the last axis of an expanded tensor expression,
    as expressions, or "?" where the expression does not say: F.pad(x, (1, 1), value=v), stores at
    (..., 0) / (..., -1) / (..., [0, -1]), torch.cat([c, x, c], -1); a gather on the leading axes and
    element-wise wrappers keep the edges."""
    if depth > 40:
        return "?", "?"
    if isinstance(e, ast.Subscript):
        idx = e.slice.elts if isinstance(e.slice, ast.Tuple) else [e.slice]
        lastpos = idx[-1] if len(idx) > 1 else None
        # x[mask, :] / x[mask] / x[mask, ...]: the last axis is untouched
        if lastpos is None or (isinstance(lastpos, ast.Slice) and lastpos.lower is None and lastpos.upper is None and lastpos.step is None) or (isinstance(lastpos, ast.Constant) and lastpos.value is Ellipsis):
            return _edge_values(e.value, depth + 1)
        return "?", "?"
    if isinstance(e, ast.Call):
        f = e.func
        last = f.attr if isinstance(f, ast.Attribute) else (f.id if isinstance(f, ast.Name) else "")
        if last == "__store__" and len(e.args) == 3:
            first, lst = _edge_values(e.args[0], depth + 1)
            idx, val = e.args[1], e.args[2]
            elts = idx.elts if isinstance(idx, ast.Tuple) else [idx]
            pos = elts[-1]
            lead_ok = all((isinstance(x, ast.Constant) and x.value is Ellipsis) or (isinstance(x, ast.Slice) and x.lower is None and x.upper is None and x.step is None) for x in elts[:-1]) and len(elts) > 1
            if lead_ok:
                k = const_number(pos)
                if k is not None:
                    if k == 0:
                        first = val
                    elif k == -1:
                        lst = val
                    return first, lst
                if isinstance(pos, (ast.List, ast.Tuple)) and all(const_number(x) is not None for x in pos.elts):
                    ks = [const_number(x) for x in pos.elts]
                    if 0 in ks:
                        first = val
                    if -1 in ks:
                        lst = val
                    return first, lst
                return "?", "?"
            # a store through a row mask / a whole-tensor store: not about the last axis' edges
            if elts and not isinstance(pos, (ast.Constant, ast.List, ast.Tuple)):
                return first, lst
            return "?", "?"
        if last == "pad" and e.args:
            padv = next((k.value for k in e.keywords if k.arg == "pad"), e.args[1] if len(e.args) > 1 else None)
            val = next((k.value for k in e.keywords if k.arg == "value"), e.args[3] if len(e.args) > 3 else ast.Constant(value=0))
            mode = next((k.value for k in e.keywords if k.arg == "mode"), None)
            if mode is not None and not (isinstance(mode, ast.Constant) and mode.value == "constant"):
                return "?", "?"
            if isinstance(padv, (ast.Tuple, ast.List)) and len(padv.elts) >= 2 and all(const_number(x) is not None for x in padv.elts[:2]):
                l, r = int(const_number(padv.elts[0])), int(const_number(padv.elts[1]))
                first, lst = _edge_values(e.args[0], depth + 1)
                return (val if l >= 1 else first), (val if r >= 1 else lst)
            return "?", "?"
        if last in ("cat", "concat") and e.args and isinstance(e.args[0], (ast.List, ast.Tuple)) and e.args[0].elts:
            dim = next((k.value for k in e.keywords if k.arg in ("dim", "axis")), e.args[1] if len(e.args) > 1 else None)
            if dim is not None and const_number(dim) == -1:
                a, b = e.args[0].elts[0], e.args[0].elts[-1]
                return _edge_values(a, depth + 1)[0], _edge_values(b, depth + 1)[1]
            return "?", "?"
        if last in ("clone", "contiguous", "float", "double", "to", "detach") and isinstance(f, ast.Attribute) and not e.args:
            return _edge_values(f.value, depth + 1)
        if last in ("expand", "expand_as", "repeat", "new_full", "full", "full_like") :
            # a column of one value
            if last in ("new_full", "full", "full_like") and len(e.args) >= 2:
                return e.args[-1], e.args[-1]
            if isinstance(f, ast.Attribute):
                return _edge_values(f.value, depth + 1)
    return "?", "?"


def _boundary_const_ok(e):
    """is the expression the constant c with min_derivative + softplus(c) = 1, i.e. log(exp(1 - m) - 1)?
    Decided numerically (the checker's own float evaluator) at several values of min_derivative."""
    import math

    if not isinstance(e, ast.AST):
        return False

    def ev(n, m):
        v = const_number(n)
        if v is not None:
            return float(v)
        if isinstance(n, ast.Name):
            if n.id == "min_derivative":
                return m
            raise ValueError(n.id)
        if isinstance(n, ast.UnaryOp) and isinstance(n.op, ast.USub):
            return -ev(n.operand, m)
        if isinstance(n, ast.BinOp):
            a, b = ev(n.left, m), ev(n.right, m)
            if isinstance(n.op, ast.Add):
                return a + b
            if isinstance(n.op, ast.Sub):
                return a - b
            if isinstance(n.op, ast.Mult):
                return a * b
            if isinstance(n.op, ast.Div):
                return a / b
            if isinstance(n.op, ast.Pow):
                return a ** b
            raise ValueError("op")
        if isinstance(n, ast.Call):
            f = n.func
            name = f.attr if isinstance(f, ast.Attribute) else (f.id if isinstance(f, ast.Name) else "")
            table = {"log": math.log, "exp": math.exp, "expm1": math.expm1, "log1p": math.log1p, "float": float, "sqrt": math.sqrt}
            if name in table and len(n.args) == 1 and (not isinstance(f, ast.Attribute) or (isinstance(f.value, ast.Name) and f.value.id in ("np", "math", "numpy", "torch"))):
                return table[name](ev(n.args[0], m))
            if name in ("tensor", "as_tensor", "full", "new_full", "new_tensor") and n.args:
                return ev(n.args[-1] if name in ("full", "new_full") else n.args[0], m)
            raise ValueError(name)
        raise ValueError(type(n).__name__)

    try:
        for m in (1e-3, 0.02, 0.3, 0.9):
            got = ev(e, m)
            want = math.log(math.exp(1 - m) - 1)
            if abs(got - want) > 1e-9 * max(1.0, abs(want)):
                return False
        return True
    except (ValueError, ZeroDivisionError, OverflowError):
        return None


def tail_rule(ctx):
    p = ctx.p
    res = RuleResult("SPL-TAIL", "unconstrained wrappers: closed inside mask on one bound, complementary outside mask, identity with zero log-det outside, square box in the same bound, constant boundary derivative from the forwarded min_derivative")
    import copy as _copy

    from ..inline import write_out_helpers
    from ..model import FuncInfo as _FI

    for inner, outer in spline_funcs(p):
        fn = outer.node
        # private module-level helpers (a mask helper returning both masks) are written out first
        def _resolve(call, _mod=outer.module):
            if isinstance(call.func, ast.Name) and call.func.id.startswith("_"):
                r = p.resolve_expr(_mod, call.func)
                if isinstance(r, _FI) and r.cls is None:
                    return (r.node, False)
            return None

        if any(isinstance(c, ast.Call) and _resolve(c) is not None for st in fn.body if isinstance(st, (ast.Assign, ast.Expr)) for c in [st.value] if isinstance(c, ast.Call)):
            try:
                fn2 = _copy.deepcopy(fn)
                fn2.body = write_out_helpers(fn2.body, _resolve)
                for parent in ast.walk(fn2):
                    for child in ast.iter_child_nodes(parent):
                        child._parent = parent
                fn = fn2
            except Exception:
                fn = outer.node
        params = [a for a, _ in outer.params()]
        x = params[0]
        assigns = {}
        for n in ast.walk(fn):
            if isinstance(n, ast.Assign) and len(n.targets) == 1 and isinstance(n.targets[0], ast.Name):
                assigns.setdefault(n.targets[0].id, []).append(n)
        # a plain copy of another local (the written-out helper's result) stands for that local's definition
        for nm in list(assigns):
            v = assigns[nm][0].value
            if len(assigns[nm]) == 1 and isinstance(v, ast.Name) and v.id in assigns and len(assigns[v.id]) == 1:
                assigns[nm] = assigns[v.id]
        # inside mask: (x >= -B) & (x <= B)
        inside = None
        B = None
        for nm, ns in assigns.items():
            v = ns[0].value
            if isinstance(v, ast.BinOp) and isinstance(v.op, ast.BitAnd):
                a1, a2 = _cmp_parts(v.left), _cmp_parts(v.right)
                if a1 and a2:
                    inside = (nm, ns[0], {a1, a2})
            # |x| <= B  is  (x >= -B) & (x <= B)
            if isinstance(v, ast.Compare) and len(v.ops) == 1 and isinstance(v.ops[0], (ast.LtE, ast.Lt)):
                l = v.left
                absarg = None
                if isinstance(l, ast.Call) and isinstance(l.func, ast.Attribute) and l.func.attr == "abs" and not l.args:
                    absarg = l.func.value
                elif isinstance(l, ast.Call) and norm_text(l.func) in ("torch.abs", "abs") and len(l.args) == 1:
                    absarg = l.args[0]
                if absarg is not None:
                    b = v.comparators[0]
                    opn = type(v.ops[0])
                    lo = ast.Compare(left=absarg, ops=[ast.GtE() if opn is ast.LtE else ast.Gt()], comparators=[ast.UnaryOp(op=ast.USub(), operand=b)])
                    hi = ast.Compare(left=absarg, ops=[opn()], comparators=[b])
                    a1, a2 = _cmp_parts(ast.fix_missing_locations(lo)), _cmp_parts(ast.fix_missing_locations(hi))
                    if a1 and a2:
                        inside = (nm, ns[0], {a1, a2})
        if inside is None:
            res.undecide(outer.name, "inside mask is not a conjunction of two comparisons")
            continue
        nm, node, atoms = inside
        # find B: atoms must be {x >= -B, x <= B}
        bound = None
        for a in atoms:
            parts = a.split(" ")
            for tok in parts:
                pass
        cands = [q for q in params if q in ("tail_bound",)] or [q for q in params if "bound" in q]
        okm = False
        for b in cands:
            want = {canon_atom(ast.parse("%s >= -%s" % (x, b)).body[0].value, True), canon_atom(ast.parse("%s <= %s" % (x, b)).body[0].value, True)}
            if atoms == want:
                okm = True
                B = b
        if okm:
            res.ok("%s: inside mask = (%s >= -%s) & (%s <= %s) (closed on both sides)" % (outer.name, x, B, x, B))
        else:
            res.fail(Finding("SPL-TAIL", outer.module, outer.qualname, node, "the inside-interval mask must be the closed interval (inputs >= -tail_bound) & (inputs <= tail_bound) on one and the same bound; found %s -- a value exactly on the bound would be routed to the tails (or two different bounds make the map discontinuous)" % sorted(atoms)))
            B = cands[0] if cands else "tail_bound"
        # outside mask: complement
        outside = None
        for onm, ns in assigns.items():
            v = ns[0].value
            if isinstance(v, ast.UnaryOp) and isinstance(v.op, ast.Invert) and isinstance(v.operand, ast.Name) and (v.operand.id == nm or (assigns.get(v.operand.id) is not None and assigns.get(v.operand.id) is assigns.get(nm))):
                outside = (onm, "~inside")
            elif isinstance(v, ast.BinOp) and isinstance(v.op, ast.BitOr):
                a1, a2 = _cmp_parts(v.left), _cmp_parts(v.right)
                if a1 and a2 and {negate_atom(a1), negate_atom(a2)} == atoms:
                    outside = (onm, "complementary comparisons")
                elif a1 and a2 and onm != nm:
                    res.fail(Finding("SPL-TAIL", outer.module, outer.qualname, ns[0], "the outside mask %s is not the complement of the inside mask %s: some inputs are handled by both or by neither branch" % (sorted({a1, a2}), sorted(atoms))))
                    outside = (onm, "bad")
        if outside is None:
            res.fail(Finding("SPL-TAIL", outer.module, outer.qualname, node, "no outside mask that is provably the complement of the inside mask", construct="outside mask of " + outer.name))
            continue
        om = outside[0]
        if outside[1] != "bad":
            res.ok("%s: outside mask is the complement (%s)" % (outer.name, outside[1]))
        # outside entries: outputs = inputs, logabsdet = 0 -- read off the returned expressions
        # region by region (masked stores, torch.where, zeros initialisation in any mix)
        id_ok = ld_ok = False
        verdicts = []
        for pp in paths_of(fn):
            if pp.kind != "return" or not (isinstance(pp.ret, ast.Tuple) and len(pp.ret.elts) == 2):
                continue
            ov = _region_value(pp.ret.elts[0], "out", x, nm, om, assigns)
            lv = _region_value(pp.ret.elts[1], "out", x, nm, om, assigns)
            verdicts.append((ov == "x", lv == "0"))
        if verdicts:
            id_ok = all(v[0] for v in verdicts)
            ld_ok = all(v[1] for v in verdicts)
        if id_ok and ld_ok:
            res.ok("%s: outside the bound outputs = inputs and logabsdet = 0" % outer.name)
        else:
            res.fail(Finding("SPL-TAIL", outer.module, outer.qualname, fn, "outside the tail bound the transform must be the identity with zero log-abs-det (identity %s, zero log-det %s)" % (id_ok, ld_ok), construct="identity tails of " + outer.name))
        # rq: boundary derivative constant from the same min_derivative -- read off the expanded argument
        # that reaches the inner spline: the value stored at the first and the last position of the last
        # axis (through F.pad / stores / cat), compared numerically as a closed formula of min_derivative
        if "min_derivative" in params:
            okc = False
            why = "the inner spline call with its unnormalized_derivatives argument was not found"
            for pp in paths_of(fn):
                if pp.kind != "return":
                    continue
                roots = [pp.ret] + [x_ for eff in pp.effects for x_ in eff[2:] if isinstance(x_, ast.AST)]
                for root in roots:
                    for c in uwalk(root):
                        if isinstance(c, ast.Call) and norm_text(c.func).split(".")[-1] == inner.name:
                            arg = next((k.value for k in c.keywords if k.arg == "unnormalized_derivatives"), None)
                            if arg is None:
                                names = [a for a, _ in inner.params()]
                                if "unnormalized_derivatives" in names and names.index("unnormalized_derivatives") < len(c.args):
                                    arg = c.args[names.index("unnormalized_derivatives")]
                            if arg is None:
                                continue
                            first, last = _edge_values(arg)
                            v1, v2 = _boundary_const_ok(first), _boundary_const_ok(last)
                            if v1 is True and v2 is True:
                                okc = True
                            else:
                                okc = False
                                why = "first entry `%s`, last entry `%s`" % (norm_text(first)[:50] if isinstance(first, ast.AST) else first, norm_text(last)[:50] if isinstance(last, ast.AST) else last)
            if okc:
                res.ok("%s: boundary derivatives set so that min_derivative + softplus(c) = 1 at both ends" % outer.name)
            else:
                res.fail(Finding("SPL-TAIL", outer.module, outer.qualname, fn, "the boundary derivatives must be pinned at both ends with c = log(exp(1 - min_derivative) - 1), built from the same min_derivative that is forwarded (%s)" % why, construct="boundary derivatives of " + outer.name))
        # inner call: square box in B
        calls = [c for c in ast.walk(fn) if isinstance(c, ast.Call) and isinstance(c.func, ast.Name) and c.func.id == inner.name]
        if not calls:
            res.undecide(outer.name, "no call of %s" % inner.name)
            continue
        for c in calls:
            _check_inner_call(res, inner, outer, c, B, params, fn)
    return res


def _region_value(e, region, x, inside_name, outside_name, assigns, depth=0):
    """value of a tensor expression on the rows of one region ("in" / "out") of the tail
    partition: "x" (the inputs themselves), "0", ("call", text) or None (unknown).  Masked stores,
    torch.where and zero initialisations are resolved; the masks are recognised by the local
    names the wrapper binds them to (their definitions are checked separately) or by expressions
    equal to those definitions."""
    if depth > 40 or e is None:
        return None

    def mask_region(m):
        t = norm_text(m)
        defs_in = {norm_text(a.value) for a in assigns.get(inside_name, [])}
        defs_out = {norm_text(a.value) for a in assigns.get(outside_name, [])}
        if t == inside_name or t in defs_in or t == "~%s" % outside_name or t in {"~(%s)" % d for d in defs_out} or t in {"~%s" % d for d in defs_out}:
            return "in"
        if t == outside_name or t in defs_out or t == "~%s" % inside_name or t in {"~(%s)" % d for d in defs_in} or t in {"~%s" % d for d in defs_in}:
            return "out"
        return None

    v = const_number(e)
    if v is not None:
        return "0" if v == 0 else ("const", v)
    if isinstance(e, ast.Name):
        return "x" if e.id == x else None
    if isinstance(e, ast.Call):
        if is_store(e):
            old, idx, val = e.args
            r = mask_region(idx)
            if r is None:
                return None
            if r == region:
                return _region_value(val, region, x, inside_name, outside_name, assigns, depth + 1)
            return _region_value(old, region, x, inside_name, outside_name, assigns, depth + 1)
        if is_component(e):
            return ("call", norm_text(e)[:200])
        last = func_last(e)
        if last in ("zeros_like", "new_zeros", "zeros"):
            return "0"
        if last == "where" and len(e.args) == 3:
            r = mask_region(e.args[0])
            if r is None:
                return None
            return _region_value(e.args[1] if r == region else e.args[2], region, x, inside_name, outside_name, assigns, depth + 1)
        if last in ("clone", "contiguous", "float", "double") and isinstance(e.func, ast.Attribute) and not e.args:
            return _region_value(e.func.value, region, x, inside_name, outside_name, assigns, depth + 1)
        if last in ("empty_like",):
            return None
        return None
    if isinstance(e, ast.Subscript):
        r = mask_region(e.slice)
        if r is not None and r == region:
            return _region_value(e.value, region, x, inside_name, outside_name, assigns, depth + 1)
        return None
    return None


def _check_inner_call(res, inner, outer, c, B, params, fn):
    if True:
        kw = {k.arg: norm_text(k.value).replace(" ", "") for k in c.keywords if k.arg}
        box = (kw.get("left"), kw.get("right"), kw.get("bottom"), kw.get("top"))
        if box == ("-" + B, B, "-" + B, B):
            res.ok("%s: inner spline on the square box (-%s, %s)^2" % (outer.name, B, B))
        else:
            res.fail(Finding("SPL-TAIL", outer.module, outer.qualname, c, "the inner spline must map [-%s, %s] onto itself (left = bottom = -%s, right = top = %s) or the transform is discontinuous at the bound; found left=%s right=%s bottom=%s top=%s" % (B, B, B, B, box[0], box[1], box[2], box[3])))
        if "inverse" in kw and kw["inverse"] != "inverse" or "inverse" not in kw:
            res.fail(Finding("SPL-TAIL", outer.module, outer.qualname, c, "the direction flag must be forwarded to the inner spline"))
        # forwarded hyper-parameters
        inner_params = {a for a, _ in inner.params()}
        for hp in ("min_bin_width", "min_bin_height", "min_derivative"):
            if hp in inner_params and hp in params:
                if kw.get(hp) == hp:
                    res.ok("%s forwards %s" % (outer.name, hp))
                else:
                    res.fail(Finding("SPL-TAIL", outer.module, outer.qualname, c, "%s is not forwarded to the inner spline (the tails assume it)" % hp))
    return res


def cubic_mono_rule(ctx):
    """SPL-CUBMONO.  The Hermite cubic on a bin is increasing when both knot derivatives lie between 0 and three
    times the bin's slope (Fritsch-Carlson).  The interior derivatives of `cubic_spline` come from the min-mod
    formula; the two *end* derivatives are free, and are kept in range by construction:
    sigmoid(u) * 3 * slope_of_the_edge_bin.  Decided on every definition of the two end pieces of the
    `torch.cat([left, interior, right], -1)` that forms the knot derivatives: in monomial normal form each is
    c * sigmoid(.) * slopes[first / last bin] with 0 < c <= 3.  A constant end derivative (one, "to meet an
    identity tail smoothly") overshoots in a flat edge bin: the spline turns back and its log-det is NaN there."""
    from ..prodnf import NotMonomial, monomial

    p = ctx.p
    res = RuleResult("SPL-CUBMONO", "the two end derivatives of the cubic spline are sigmoid(.) * c * slope of the edge bin with 0 < c <= 3 on every path (monotone Hermite pieces)")
    fi = next((f for f in (x[0] for x in spline_funcs(p)) if f.name == "cubic_spline"), None)
    if fi is None:
        raise AnalysisIncomplete("cubic_spline not found")
    fn = fi.node
    assigns = {}
    for n in ast.walk(fn):
        if isinstance(n, ast.Assign) and len(n.targets) == 1 and isinstance(n.targets[0], ast.Name):
            assigns.setdefault(n.targets[0].id, []).append(n.value)
    cats = [v for vs in assigns.values() for v in vs if isinstance(v, ast.Call) and norm_text(v.func) in ("torch.cat", "torch.concat") and v.args and isinstance(v.args[0], (ast.List, ast.Tuple)) and len(v.args[0].elts) == 3 and any(isinstance(x, ast.Name) and "deriv" in x.id for x in v.args[0].elts)]
    if not cats:
        res.undecide("cubic_spline", "the knot derivatives are not assembled as cat([left, interior, right], -1)")
        return res
    n = 0
    for cat in cats:
        for which, el in (("first", cat.args[0].elts[0]), ("last", cat.args[0].elts[2])):
            defs = assigns.get(el.id, []) if isinstance(el, ast.Name) else [el]
            if not defs:
                res.undecide("cubic_spline", "no definition of the %s end derivative `%s`" % (which, norm_text(el)))
                continue
            for d in defs:
                n += 1
                verdict = None
                try:
                    c, m = monomial(d)
                    texts = []
                    for a, k in m.items():
                        texts.append((a[1] if isinstance(a, tuple) and a[0] == "leaf" else str(a), k))
                    sig = [t for t, k in texts if "sigmoid(" in t and k == 1]
                    edge = ("slopes[..., 0]", "slopes[..., :1]", "slopes[..., 0:1]") if which == "first" else ("slopes[..., -1]", "slopes[..., -1:]")
                    slo = [t for t, k in texts if k == 1 and any(t.replace(" ", "").startswith(e.replace(" ", "")) or ("(%s)" % e).replace(" ", "") in t.replace(" ", "") for e in edge)]
                    others = [t for t, k in texts if t not in sig and t not in slo]
                    if len(sig) == 1 and len(slo) == 1 and not others and 0 < c <= 3:
                        verdict = "ok"
                except NotMonomial:
                    pass
                if verdict == "ok":
                    res.ok("cubic_spline: the %s end derivative is %s * sigmoid(.) * slope of the %s bin" % (which, c, which))
                else:
                    res.fail(Finding("SPL-CUBMONO", fi.module, fi.qualname, d, "the %s end derivative of the cubic spline is `%s`, not sigmoid(.) * c * (slope of the %s bin) with c <= 3: nothing ties it to that bin's slope, so in a flat edge bin (slope below a third of it) the Hermite cubic overshoots and comes back -- the transformer is not increasing there and its log-abs-det is NaN" % (which, norm_text(d)[:70], which), construct="%s end derivative of cubic_spline" % which))
    if n < 2:
        raise AnalysisIncomplete("SPL-CUBMONO: %d end-derivative definitions (< 2)" % n)
    return res


def square_rule(ctx):
    """SPL-SQUARE: linear / quadratic / cubic test the domain against (left, right) in both
    directions and omit the box-scale term: correct exactly when the box is square."""
    p = ctx.p
    res = RuleResult("SPL-SQUARE", "every repository call site of linear/quadratic/cubic_spline passes the default box or left == bottom and right == top")
    names = {f[0].name for f in spline_funcs(p)[:3]}
    n = 0
    from ..helperval import returned_expr

    def dicts_of(e, fi, depth=0):
        """the dict displays a `**e` may splat (None: cannot tell)"""
        if depth > 4:
            return None
        if isinstance(e, ast.Dict):
            return [e] if all(isinstance(k, ast.Constant) for k in e.keys) else None
        if isinstance(e, ast.Call) and isinstance(e.func, ast.Name) and e.func.id == "dict" and not e.args and all(k.arg for k in e.keywords):
            return [ast.Dict(keys=[ast.Constant(value=k.arg) for k in e.keywords], values=[k.value for k in e.keywords])]
        if isinstance(e, ast.Name):
            vals = [a.value for a in ast.walk(fi.node) if isinstance(a, ast.Assign) and any(isinstance(t, ast.Name) and t.id == e.id for t in a.targets)]
            if not vals:
                return None
            out = []
            for v in vals:
                d = dicts_of(v, fi, depth + 1)
                if d is None:
                    return None
                out.extend(d)
            return out
        if isinstance(e, ast.Attribute) and isinstance(e.value, ast.Name) and e.value.id == "self" and fi.cls is not None:
            ai = p.attrs(fi.cls).get(e.attr)
            if ai is None or ai.value is None or ai.func is None:
                return None
            return dicts_of(ai.value, ai.func, depth + 1)
        if isinstance(e, ast.Call) and isinstance(e.func, (ast.Name, ast.Attribute)):
            r2 = p.resolve_expr(fi.module, e.func)
            if isinstance(r2, FuncInfo):
                rv = returned_expr(r2.node)
                if rv is not None:
                    return dicts_of(rv, r2, depth + 1)
        return None

    def callees(c, fi):
        """the spline functions a call may reach: the resolved callee, or what a local alias was bound to"""
        r = p.resolve_expr(fi.module, c.func) if isinstance(c.func, (ast.Name, ast.Attribute)) else None
        if isinstance(r, FuncInfo):
            return [r]
        if isinstance(c.func, ast.Name):
            out = []
            for a in ast.walk(fi.node):
                if isinstance(a, ast.Assign) and any(isinstance(t, ast.Name) and t.id == c.func.id for t in a.targets) and isinstance(a.value, (ast.Name, ast.Attribute)):
                    r2 = p.resolve_expr(fi.module, a.value)
                    if isinstance(r2, FuncInfo):
                        out.append(r2)
            return out
        return []

    for fi in p.all_functions():
        for c in ast.walk(fi.node):
            if not isinstance(c, ast.Call):
                continue
            rs = [r for r in callees(c, fi) if r.name in names]
            if not rs:
                continue
            r = rs[0]
            n += 1
            defaults = {a: (norm_text(d).replace(" ", "") if d is not None else None) for a, d in r.params()}
            kw = {k.arg: norm_text(k.value).replace(" ", "") for k in c.keywords if k.arg}
            variants = [dict(kw)]
            undecided = False
            for k in c.keywords:
                if k.arg is None:
                    ds = dicts_of(k.value, fi)
                    if ds is None:
                        undecided = True
                        break
                    variants = [dict(v, **{kk.value: norm_text(vv).replace(" ", "") for kk, vv in zip(d.keys, d.values)}) for v in variants for d in (ds or [ast.Dict(keys=[], values=[])])]
            if undecided:
                res.undecide("%s: %s(**..)" % (fi.qualname, r.name), "cannot tell which box the splatted mapping carries")
                continue
            bad = None
            for v in variants:
                given = [v.get(b) for b in ("left", "right", "bottom", "top")]
                if all(g is None for g in given):
                    continue
                box = [v.get(b, defaults.get(b)) for b in ("left", "right", "bottom", "top")]
                if not (box[0] == box[2] and box[1] == box[3] and box[0] is not None and box[1] is not None):
                    bad = box
                    break
            if bad is None:
                res.ok("%s: %s(...) with the default or a square box" % (fi.qualname, r.name))
            else:
                box = bad
                res.fail(Finding("SPL-SQUARE", fi.module, fi.qualname, c, "%s is called with a non-square box (left=%s right=%s bottom=%s top=%s): it omits the box-scale term of the log-derivative and tests the inverse domain against (left, right)" % (r.name, box[0], box[1], box[2], box[3])))
    if n < 4:
        raise AnalysisIncomplete("SPL-SQUARE: %d call sites (< 4; the count on the pinned tree is larger, the floor leaves room for merged call sites confirmed by hand)" % n)
    return res


# ---------------------------------------------------------------------------------------
# DOM-GUARD
# ---------------------------------------------------------------------------------------


def _expand_guard_helper(p, module, test):
    """A guard that is a call of a small helper (`torchutils.outside_interval(inputs, lo, hi)`): the helper's
    returned test with its parameters replaced, and what its locals stand for --
    `lo_, hi_ = torch.aminmax(x)` / `... = torch.stack(torch.aminmax(x)).tolist()` bind the two extremes
    (as Python floats after .tolist() / .item())."""
    from ..inline import expand_call
    from ..model import FuncInfo

    if not isinstance(test, ast.Call):
        return test, {}
    r = p.resolve_expr(module, test.func) if isinstance(test.func, (ast.Name, ast.Attribute)) else None
    if not isinstance(r, FuncInfo) or r.cls is not None:
        return test, {}
    ex = expand_call(test, r.node, False)
    if ex is None:
        return test, {}
    pre, result = ex
    env = {}
    for st in pre:
        if not (isinstance(st, ast.Assign) and len(st.targets) == 1):
            return test, {}
        t, v = st.targets[0], st.value
        host = False
        while isinstance(v, ast.Call) and isinstance(v.func, ast.Attribute) and v.func.attr in ("tolist", "item", "cpu", "numpy", "double", "float") and not v.args:
            host = host or v.func.attr in ("tolist", "item", "numpy")
            v = v.func.value
        if isinstance(v, ast.Call) and norm_text(v.func) == "torch.stack" and v.args and isinstance(v.args[0], ast.Call):
            v = v.args[0]
        if isinstance(v, ast.Call) and norm_text(v.func) in ("torch.aminmax",) and len(v.args) == 1 and isinstance(t, (ast.Tuple, ast.List)) and len(t.elts) == 2 and all(isinstance(x, ast.Name) for x in t.elts):
            arg = norm_text(v.args[0])
            env[t.elts[0].id] = ("MIN", arg, "host") if host else ("MIN", arg)
            env[t.elts[1].id] = ("MAX", arg, "host") if host else ("MAX", arg)
            continue
        if isinstance(t, ast.Name) and isinstance(v, ast.Call) and norm_text(v.func) in ("torch.min", "torch.max", "torch.amin", "torch.amax") and len(v.args) == 1:
            kind = "MIN" if "min" in norm_text(v.func) else "MAX"
            env[t.id] = (kind, norm_text(v.args[0]), "host") if host else (kind, norm_text(v.args[0]))
            continue
        return test, {}
    return result, env


def _canon_minmax(test, env=None):
    """Set of canonical atoms of a domain test: 'MIN(x) < b' / 'MAX(x) > b'."""
    env = env or {}
    out = set()
    parts = test.values if isinstance(test, ast.BoolOp) and isinstance(test.op, ast.Or) else [test]

    def as_extreme_tests(t):
        """any(x <= c) is min(x) <= c, any(x >= c) is max(x) >= c, not all(x > c) is min(x) <= c, and
        any(A | B) is any(A) or any(B): the element-wise spellings of a test on the extremes"""
        neg = False
        while isinstance(t, ast.UnaryOp) and isinstance(t.op, ast.Not):
            neg = not neg
            t = t.operand
        if isinstance(t, ast.Call):
            f = t.func
            name = f.attr if isinstance(f, ast.Attribute) else (f.id if isinstance(f, ast.Name) else "")
            is_mod = isinstance(f, ast.Attribute) and isinstance(f.value, ast.Name) and f.value.id == "torch"
            inner = (t.args[0] if t.args else None) if (is_mod or isinstance(f, ast.Name)) else (f.value if isinstance(f, ast.Attribute) and not t.args else None)
            if name in ("any", "all") and inner is not None and (name == "all") == neg:
                # any(C)  or  not all(C) = any(not C)
                flip = {ast.Lt: ast.GtE, ast.LtE: ast.Gt, ast.Gt: ast.LtE, ast.GtE: ast.Lt}
                comps = inner.values if False else None
                stack, leaves = [inner], []
                while stack:
                    q = stack.pop()
                    if isinstance(q, ast.BinOp) and isinstance(q.op, ast.BitOr if name == "any" else ast.BitAnd):
                        stack.extend([q.right, q.left])
                    else:
                        leaves.append(q)
                outs = []
                for q in leaves:
                    if not (isinstance(q, ast.Compare) and len(q.ops) == 1 and type(q.ops[0]) in flip):
                        return None
                    op = type(q.ops[0])
                    if name == "all":
                        op = flip[op]
                    l, r = q.left, q.comparators[0]
                    # which side is the tensor? the one that is not a number / plain bound
                    tens, bound, opx = (l, r, op) if const_number(l) is None and not isinstance(l, ast.UnaryOp) else (r, l, {ast.Lt: ast.Gt, ast.LtE: ast.GtE, ast.Gt: ast.Lt, ast.GtE: ast.LtE}[op])
                    ext = "min" if opx in (ast.Lt, ast.LtE) else "max"
                    call = ast.Call(func=ast.Attribute(value=ast.Name(id="torch", ctx=ast.Load()), attr=ext, ctx=ast.Load()), args=[tens], keywords=[])
                    outs.append(ast.Compare(left=call, ops=[opx()], comparators=[bound]))
                return outs
        return None if neg else [t]

    flat = []
    for t in parts:
        r_ = as_extreme_tests(t)
        if r_ is None:
            return None
        flat.extend(r_)
    for t in flat:
        if not (isinstance(t, ast.Compare) and len(t.ops) == 1):
            return None
        l, r = t.left, t.comparators[0]
        op = type(t.ops[0])
        sym = {ast.Lt: "<", ast.LtE: "<=", ast.Gt: ">", ast.GtE: ">="}.get(op)
        if sym is None:
            return None

        def red(e):
            if isinstance(e, ast.Name) and e.id in env:
                return env[e.id]
            # lo, hi = torch.aminmax(x) / torch.stack(torch.aminmax(x)).tolist(), read as components
            if isinstance(e, ast.Call) and isinstance(e.func, ast.Name) and e.func.id == "__component__" and len(e.args) == 2 and isinstance(e.args[1], ast.Constant) and e.args[1].value in (0, 1):
                v, host = e.args[0], False
                while isinstance(v, ast.Call) and isinstance(v.func, ast.Attribute) and v.func.attr in ("tolist", "item", "cpu", "numpy") and not v.args:
                    host = host or v.func.attr in ("tolist", "item", "numpy")
                    v = v.func.value
                if isinstance(v, ast.Call) and norm_text(v.func) == "torch.stack" and v.args and isinstance(v.args[0], ast.Call):
                    v = v.args[0]
                if isinstance(v, ast.Call) and norm_text(v.func) == "torch.aminmax" and len(v.args) == 1:
                    kind = "MIN" if e.args[1].value == 0 else "MAX"
                    return (kind, norm_text(v.args[0]), "host") if host else (kind, norm_text(v.args[0]))
            # `.item()` / float(.) turn the extreme into a Python float: the comparison is then
            # made in double precision against a bound that the tensor holds in its own dtype
            if isinstance(e, ast.Call) and isinstance(e.func, ast.Attribute) and e.func.attr == "item" and not e.args:
                inner = red(e.func.value)
                return (inner[0], inner[1], "host") if inner is not None else None
            if isinstance(e, ast.Call) and isinstance(e.func, ast.Name) and e.func.id == "float" and len(e.args) == 1:
                inner = red(e.args[0])
                return (inner[0], inner[1], "host") if inner is not None else None
            if isinstance(e, ast.Call):
                f = norm_text(e.func)
                if f in ("torch.min", "torch.max", "torch.amin", "torch.amax") and len(e.args) == 1:
                    return ("MIN" if "min" in f else "MAX", norm_text(e.args[0]))
                if isinstance(e.func, ast.Attribute) and e.func.attr in ("min", "max", "amin", "amax") and not e.args:
                    return ("MIN" if "min" in e.func.attr else "MAX", norm_text(e.func.value))
            return None

        a, b = red(l), red(r)
        host = "@host" if (a is not None and len(a) > 2) or (b is not None and len(b) > 2) else ""
        if a is not None and b is None:
            out.add("%s(%s)%s %s %s" % (a[0], a[1], host, sym, _num_text(r)))
        elif b is not None and a is None:
            flip = {"<": ">", "<=": ">=", ">": "<", ">=": "<="}[sym]
            out.add("%s(%s)%s %s %s" % (b[0], b[1], host, flip, _num_text(l)))
        else:
            return None
    return out


def _num_text(e):
    v = const_number(e)
    if v is not None:
        return "%g" % v
    return norm_text(e)


DOMAINS = [
    # (module, class, method, low bound, low is open?, high bound, high is open?)
    ("nflows.transforms.nonlinearities", "Exp", "inverse", "0", True, None, None),
    ("nflows.transforms.nonlinearities", "Tanh", "inverse", "-1", True, "1", True),
    ("nflows.transforms.nonlinearities", "Sigmoid", "inverse", "0", False, "1", False),
    ("nflows.transforms.nonlinearities", "CauchyCDF", "inverse", "0", False, "1", False),
]


def dom_guard_rule(ctx):
    p = ctx.p
    res = RuleResult("DOM-GUARD", "each domain-restricted entry raises InputOutsideDomain on the raw input with the right bound and strictness before any other use of the input")
    targets = []
    for modname, cname, meth, lo, lo_open, hi, hi_open in DOMAINS:
        cls = p.find_class(cname, modname)
        fi = cls.methods.get(meth)
        if fi is None:
            raise AnalysisIncomplete("%s.%s missing" % (cname, meth))
        targets.append((fi, lo, lo_open, hi, hi_open, "%s.%s" % (cname, meth)))
    for inner, outer in spline_funcs(p):
        targets.append((inner, "left", False, "right", False, inner.name))
    # overrides: a subclass that redefines a guarded method, and an InverseTransform wrapper of a guarded
    # class (Logit = InverseTransform(Sigmoid)) that defines the opposite direction itself instead of
    # inheriting the delegation, owe the same guard
    inv_base = p.find_class("InverseTransform", "nflows.transforms.base")
    for modname, cname, meth, lo, lo_open, hi, hi_open in DOMAINS:
        cls = p.find_class(cname, modname)
        for sub in cls.all_subclasses():
            if sub is not cls and meth in sub.methods:
                targets.append((sub.methods[meth], lo, lo_open, hi, hi_open, "%s.%s (overrides %s.%s)" % (sub.name, meth, cname, meth)))
        opposite = "forward" if meth == "inverse" else "inverse"
        for w in (inv_base.all_subclasses() if inv_base is not None else []):
            init = w.methods.get("__init__")
            if init is None or w is inv_base:
                continue
            wraps = any(isinstance(n, ast.Call) and isinstance(n.func, ast.Attribute) and n.func.attr == "__init__" and n.args and isinstance(n.args[0], ast.Call) and norm_text(n.args[0].func).split(".")[-1] == cname for n in ast.walk(init.node))
            if wraps and opposite in w.methods:
                targets.append((w.methods[opposite], lo, lo_open, hi, hi_open, "%s.%s (its own %s of the wrapped %s)" % (w.name, opposite, opposite, cname)))
    for fi, lo, lo_open, hi, hi_open, label in targets:
        x = fi.params()[0][0]
        want = set()
        if lo is not None:
            want.add("MIN(%s) %s %s" % (x, "<=" if lo_open else "<", lo))
        if hi is not None:
            want.add("MAX(%s) %s %s" % (x, ">=" if hi_open else ">", hi))
        # the guard is read off the raising paths of the expansion: whatever the spelling
        # (inline `if`, a shared private helper, two separate tests), a path that raises
        # InputOutsideDomain carries the rejecting condition; locals are expanded, so a test on a
        # rebound / transformed input shows as such
        allp = paths_of(fi.node)
        rpaths = [pp for pp in allp if pp.kind == "raise" and pp.raise_exc is not None and "InputOutsideDomain" in norm_text(pp.raise_exc)]
        if not rpaths:
            res.fail(Finding("DOM-GUARD", fi.module, fi.qualname, fi.node, "%s has no `raise InputOutsideDomain` guard: out-of-domain inputs return numbers" % label, construct="domain guard of " + label))
            continue
        got = set()
        bad = None
        seen_tests = set()
        for pp in rpaths:
            if not pp.conds:
                bad = "unconditional raise"
                continue
            et, raw, pol = pp.conds[-1]
            if id(raw) in seen_tests:
                continue
            seen_tests.add(id(raw))
            if not pol:
                bad = "the guard raises on the negation of `%s`" % norm_text(raw)[:60]
                continue
            et2, henv = _expand_guard_helper(p, fi.module, et)
            atoms = _canon_minmax(et2, henv)
            if atoms is None:
                bad = "guard condition `%s` is not a disjunction of min/max comparisons" % norm_text(et)[:80]
                continue
            got |= atoms
            # earlier conditions on this path must not depend on the input's values (the guard comes first)
        if bad is not None and not got:
            res.undecide(label, bad)
            continue
        guard_node = rpaths[0].ret_node
        if any("@host" in a for a in got) and {a.replace("@host", "") for a in got} == want:
            res.fail(Finding("DOM-GUARD", fi.module, fi.qualname, guard_node, "the domain guard of %s compares Python floats (.item()) with the bound: the extreme is widened to double while the knots / bounds live in the input's dtype, so an end-point that equals the bound in float32 can be rejected (or an outside value accepted)" % label))
            continue
        if got == want:
            res.ok("%s: raises when %s" % (label, " or ".join(sorted(got))))
        elif any(a.split(" ")[0] not in ("MIN(%s)" % x, "MAX(%s)" % x) for a in got):
            res.fail(Finding("DOM-GUARD", fi.module, fi.qualname, guard_node, "the input is used (or rebound) before the domain guard of %s: the test no longer sees the raw input (it tests %s)" % (label, " or ".join(sorted(got))[:90])))
        else:
            res.fail(Finding("DOM-GUARD", fi.module, fi.qualname, guard_node, "%s must reject exactly the inputs with %s (domain %s%s, %s%s); the guard tests %s" % (label, " or ".join(sorted(want)), "(" if lo_open else "[", lo, hi if hi is not None else "inf", ")" if (hi_open or hi is None) else "]", " or ".join(sorted(got)))))
    # Logit = InverseTransform(Sigmoid)
    logit = p.find_class("Logit", "nflows.transforms.nonlinearities")
    init = logit.methods.get("__init__")
    wrapped = None
    if init is not None:
        for c in ast.walk(init.node):
            if isinstance(c, ast.Call) and isinstance(c.func, ast.Attribute) and c.func.attr == "__init__" and isinstance(c.func.value, ast.Call) and isinstance(c.func.value.func, ast.Name) and c.func.value.func.id == "super":
                wrapped = c.args[0] if c.args else next((k.value for k in c.keywords if k.arg == "transform"), None)
        if isinstance(wrapped, ast.Name):
            defs = [a.value for a in ast.walk(init.node) if isinstance(a, ast.Assign) and any(isinstance(t, ast.Name) and t.id == wrapped.id for t in a.targets)]
            wrapped = defs[0] if len(defs) == 1 else None
    is_sigmoid = isinstance(wrapped, ast.Call) and isinstance(wrapped.func, ast.Name) and wrapped.func.id == "Sigmoid"
    if is_sigmoid and any(getattr(b, "name", None) == "InverseTransform" for b in logit.bases) and "forward" not in logit.methods and "inverse" not in logit.methods:
        res.ok("Logit.forward is Sigmoid.inverse (guarded above)")
    elif is_sigmoid and any(getattr(b, "name", None) == "InverseTransform" for b in logit.bases):
        res.undecide("Logit", "Logit overrides forward / inverse of InverseTransform(Sigmoid(..)): the guard it runs is not the one checked above")
    elif init is not None and wrapped is None and any(getattr(b, "name", None) == "InverseTransform" for b in logit.bases):
        res.undecide("Logit", "cannot read which transform Logit.__init__ hands to InverseTransform")
    else:
        res.fail(Finding("DOM-GUARD", logit.module, "Logit", logit.node, "Logit must be InverseTransform(Sigmoid(...)) to inherit the domain guard", construct="Logit"))
    # DOM-CLAMP: on every returning path of Sigmoid.inverse, each logarithm is taken of an
    # expression in which the raw input only occurs under clamp(., eps, 1 - eps)
    sig = p.find_class("Sigmoid", "nflows.transforms.nonlinearities").methods["inverse"]
    r2 = RuleResult("DOM-CLAMP", "Sigmoid.inverse clamps into [eps, 1 - eps] after the guard and before the logarithms")
    x = sig.params()[0][0]

    def is_eps_clamp(c):
        if not (isinstance(c, ast.Call) and func_last(c) == "clamp"):
            return False
        is_mod = isinstance(c.func, ast.Attribute) and isinstance(c.func.value, ast.Name) and c.func.value.id == "torch"
        rest = c.args[1:] if is_mod else c.args
        lo = next((k.value for k in c.keywords if k.arg == "min"), rest[0] if rest else None)
        hi = next((k.value for k in c.keywords if k.arg == "max"), rest[1] if len(rest) > 1 else None)
        if lo is None or hi is None:
            return False
        lt, ht = norm_text(lo).replace(" ", ""), norm_text(hi).replace(" ", "")
        return lt == "self.eps" and ht in ("1-self.eps", "1.0-self.eps")

    def raw_under_log(e, in_log, clamped, seen):
        """does the raw input reach a logarithm without passing the clamp?"""
        key = (id(e), in_log, clamped)
        if key in seen:
            return False
        seen.add(key)
        if isinstance(e, ast.Name):
            return e.id == x and in_log and not clamped
        if isinstance(e, ast.Call):
            if is_eps_clamp(e):
                clamped = True
            if func_last(e) in ("log", "log1p", "logit"):
                in_log = True
        return any(raw_under_log(c, in_log, clamped, seen) for c in ast.iter_child_nodes(e))

    n_ret = 0
    badp = None
    has_log = False
    for pp in paths_of(sig.node):
        if pp.kind != "return":
            continue
        n_ret += 1
        has_log = has_log or any(isinstance(c, ast.Call) and func_last(c) in ("log", "log1p", "logit") for c in uwalk(pp.ret))
        if raw_under_log(pp.ret, False, False, set()):
            badp = pp
    if n_ret and badp is None and has_log:
        r2.ok("Sigmoid.inverse: every logarithm sees the input through clamp(., eps, 1 - eps)")
    elif n_ret and not has_log:
        r2.undecide("Sigmoid.inverse", "no logarithm found on the returning paths")
    else:
        r2.fail(Finding("DOM-CLAMP", sig.module, sig.qualname, (badp.ret_node if badp is not None else sig.node), "Sigmoid.inverse must clamp its argument into [eps, 1 - eps] after the domain guard and before taking logarithms: the in-domain end-points 0 and 1 otherwise give infinities", construct="clamp in Sigmoid.inverse"))
    return [res, r2]


# ---------------------------------------------------------------------------------------
# SPL-ROOT (C09): the in-bin test of a computed root is tolerant at both knots
# ---------------------------------------------------------------------------------------


def root_rule(ctx):
    """The inverse cubic solves a cubic per input and keeps the root that falls into the input's bin.  An
    input lying exactly on a knot has its pre-image *at* a knot; the closed-form root comes out as that knot
    plus or minus a few ulp.  So every comparison that admits a trigonometric root into the bin must leave
    slack on the admitting side: written as E > 0, E contains a positive tolerance term (`root > left - eps`,
    `root < right + eps`).  Without it no root passes, the fall-back picks a root of another bin, and the
    inverse misses the end-points, jumps at interior knots and leaves the box."""
    p = ctx.p
    res = RuleResult("SPL-ROOT", "every comparison that admits a closed-form (trigonometric) root of the inverse cubic into its bin carries a positive tolerance on the admitting side")
    fi = next((inner for inner, outer in spline_funcs(p) if inner.name == "cubic_spline"), None)
    if fi is None:
        raise AnalysisIncomplete("cubic_spline not found")
    mod = p.modules.get(fi.module) if isinstance(fi.module, str) else fi.module
    consts = {}
    for st in getattr(getattr(mod, "tree", None), "body", []):
        if isinstance(st, ast.Assign) and len(st.targets) == 1 and isinstance(st.targets[0], ast.Name) and const_number(st.value) is not None:
            consts[st.targets[0].id] = const_number(st.value)
    defaults = {}
    for a, d in fi.params():
        if d is None:
            continue
        v = const_number(d)
        if v is None and isinstance(d, ast.Name):
            v = consts.get(d.id)
        defaults[a] = v
    n = 0
    seen = set()

    def is_trig(e):
        return any(isinstance(c, ast.Call) and func_last(c) in ("cos", "sin") for c in uwalk(e))

    def positive_tol(t):
        ps, fac = product_factors(t)
        pos = ps > 0
        ok = bool(fac)
        for f in fac:
            v = const_number(f)
            if v is not None:
                if v < 0:
                    pos = not pos
                elif v == 0:
                    ok = False
            elif isinstance(f, ast.Name) and defaults.get(f.id) is not None and defaults[f.id] > 0:
                pass
            else:
                ok = False
        return ok, pos

    for path in _ret_paths(fi, True):
        exprs = [path.ret] + [part for eff in path.effects for part in eff[2:] if isinstance(part, ast.AST)]
        for ex in exprs:
            for c in uwalk(ex):
                if not (isinstance(c, ast.Compare) and len(c.ops) == 1 and isinstance(c.ops[0], (ast.Lt, ast.LtE, ast.Gt, ast.GtE))):
                    continue
                a, b = c.left, c.comparators[0]
                if not (is_trig(a) or is_trig(b)) or (is_trig(a) and is_trig(b)):
                    continue
                k = shash(c)
                if k in seen:
                    continue
                seen.add(k)
                n += 1
                # normalise to E > 0
                if isinstance(c.ops[0], (ast.Lt, ast.LtE)):
                    a, b = b, a

                def _peel(e):
                    """shape-only wrappers around a side (the edges unsqueezed to meet all roots at once)"""
                    for _ in range(6):
                        if isinstance(e, ast.Call) and isinstance(e.func, ast.Attribute) and e.func.attr in ("unsqueeze", "view", "reshape", "expand", "expand_as", "contiguous", "float", "double", "to") and not (isinstance(e.func.value, ast.Name) and e.func.value.id in ("torch", "F")):
                            e = e.func.value
                        elif isinstance(e, ast.Call) and norm_text(e.func) == "torch.unsqueeze" and e.args:
                            e = e.args[0]
                        elif isinstance(e, ast.Subscript) and all((isinstance(x, ast.Constant) and x.value in (None, Ellipsis)) or (isinstance(x, ast.Slice) and x.lower is None and x.upper is None) for x in (e.slice.elts if isinstance(e.slice, ast.Tuple) else [e.slice])):
                            e = e.value
                        else:
                            break
                    return e

                if not is_trig(a):
                    a = _peel(a)
                if not is_trig(b):
                    b = _peel(b)
                terms = signed_terms(a) + [(-sg, t) for sg, t in signed_terms(b)]
                slack = []
                for sg, t in terms:
                    ok, pos = positive_tol(t)
                    if ok:
                        slack.append(sg if pos else -sg)
                side = "lower" if is_trig(a) else "upper"
                opname = {ast.Lt: "<", ast.LtE: "<=", ast.Gt: ">", ast.GtE: ">="}[type(c.ops[0])]

                def _side(e):
                    tol = [("+" if sg > 0 else "-") + norm_text(t) for sg, t in signed_terms(e) if positive_tol(t)[0]]
                    return ("root" if is_trig(e) else "knot") + ("".join(" " + t[0] + " " + t[1:] for t in tol))

                shown = "%s %s %s" % (_side(c.left), opname, _side(c.comparators[0]))
                if any(x > 0 for x in slack) and not any(x < 0 for x in slack):
                    res.ok("%s bound of a root: tolerance on the admitting side (`%s`)" % (side, shown))
                else:
                    res.fail(Finding("SPL-ROOT", fi.module, fi.qualname, c, "the %s bound `%s` admits a computed root without a positive tolerance: a root that should equal the knot but is off by rounding is rejected, another bin's root is returned (end-points missed, jumps at knots, values outside the box)" % (side, shown), construct="%s bound of the in-bin test of a root" % side))
    if n < 2:
        raise AnalysisIncomplete("SPL-ROOT: %d root-versus-knot comparisons found in the inverse cubic (< 2)" % n)
    return res


def cfg_c09(ctx):
    """CFG-STORE / CFG-FWD for C09: the box a piecewise layer acts on ([-tail_bound, tail_bound], identity
    outside) is the one its constructor was given -- see rules/cfg_rules.py."""
    from .cfg_rules import cfg_rule

    return cfg_rule(ctx)


def cfg_c17(ctx):
    """CFG-STORE / CFG-FWD for C17: with tails='linear' a layer accepts every finite input, also through the
    element-wise CDF transform it builds for its identity features -- see rules/cfg_rules.py."""
    from .cfg_rules import cfg_rule

    return cfg_rule(ctx)


register(
    "C09",
    [c09_pin, floor_rule, tail_rule, clamp_rule, c17_eps, root_rule, cfg_c09],
    "Family template over linear / quadratic / cubic / rational-quadratic splines and their unconstrained wrappers, decided on "
    "the symbolic expansion of each function under inverse=False and inverse=True. SPL-PIN: every searched knot vector has its "
    "first and last element stored exactly (0/1 for unit knots; the box arguments for scaled knots) through F.pad / explicit "
    "stores. INV-SIDE: forward searches x-knots with the input normalised by (left,right) and maps the result into (bottom,top); "
    "inverse the other way round. SPL-FLOOR: sign-lattice proof that bin widths/heights (the operands of the cumulative sums) "
    "and the RQ knot derivatives are positive for every parameter value, with the ValueError guards that make 1 - m*K >= 0. "
    "SPL-TAIL: closed inside mask on one bound, provably complementary outside mask, identity and zero log-det outside, inner "
    "spline on the square box in the same symbol, hyper-parameters and the boundary-derivative constant forwarded. SPL-CLAMP: "
    "clamp to [0,1] before de-normalisation (linear, quadratic) and the floor-index repair. EPS-UNITS (shared with C17): the "
    "right-edge epsilon of the bin search has the units of the knots it is added to, so the upper end-point falls into the last "
    "bin for every box. SPL-ROOT: every comparison that admits a closed-form root of the inverse cubic into its bin has a positive "
    "tolerance on the admitting side (a pre-image lying on a knot is computed as the knot +- rounding). CFG-STORE / CFG-FWD: every "
    "transform constructor is abstractly interpreted with each parameter labelled by its name; an argument the object keeps "
    "(self.tail_bound, self.tails, self.num_bins ...) is kept as given on every path of the constructor chain, and an inner transform "
    "built by the constructor receives the outer tails / tail_bound. Continuity and strict monotonicity "
    "across bins for all parameter values (inequalities between computed numbers) are out of reach and NOT claimed.",
    [A_CFG, T_OPS],
)

register(
    "C17",
    [dom_guard_rule, square_rule, tail_rule, c17_eps, cfg_c17],
    "DOM-GUARD: for Exp.inverse, Tanh.inverse, Sigmoid.inverse (= Logit.forward), CauchyCDF.inverse and the four spline "
    "functions a `raise InputOutsideDomain` guard is the first use of the raw input and its condition, normalised to "
    "MIN(x) op bound / MAX(x) op bound atoms, equals the slot table (open domains reject with <=/>=, closed with </>). "
    "DOM-CLAMP: Sigmoid.inverse clamps into [eps, 1-eps] between guard and logarithms. DOM-TAIL (SPL-TAIL): the tail junction "
    "is routed to the spline by a closed inside mask. SPL-SQUARE: every repository call site of the three splines that test "
    "the inverse domain against (left,right) passes a square box. EPS-UNITS: the absolute right-edge epsilon of the bin search "
    "is applied to unit knots only; scaled knots need an epsilon scaled by the same box. Finiteness of the results for every "
    "in-domain input is a value question and is NOT claimed.",
    [A_CFG, T_OPS, "searchsorted adds eps to the last knot only (C20 UT-SEARCH)"],
)


# C03's "onto the whole support" half for bounded transformers is exactly these rules
from . import flow_rules as _fr  # noqa: E402
from . import PROPERTIES as _P  # noqa: E402

_P["C03"]["rules"] = list(_P["C03"]["rules"]) + [c09_pin, floor_rule, tail_rule]
_P["C03"]["explanation"] = _P["C03"]["explanation"].replace(
    "The onto-half for bounded transformers (end-point pinning, identity tails) is decided by the C09 rules.",
    "The onto-half for bounded transformers is decided by the spline family rules run here as well: SPL-PIN (both end-points of every searched knot vector stored exactly), INV-SIDE, SPL-FLOOR (bin sizes positive and summing to one) and SPL-TAIL (closed mask, identity tails, square box).",
)

# C19's "stays finite / agrees with double" at the end-points of the bounded splines rests on the
# clamp that keeps a rounding overshoot inside the unit interval: SPL-CLAMP is run for C19 too
if "C19" in _P:
    _P["C19"]["rules"] = list(_P["C19"]["rules"]) + [clamp_rule]
    _P["C19"]["explanation"] = _P["C19"]["explanation"] + " SPL-CLAMP (shared with C09): interpolants that can overshoot the unit interval by float32 rounding are clamped before de-normalisation, so a following domain-checked transform accepts them in single precision as in double."
