"""C01 / C02 / C11: log-abs-det bookkeeping, direction pairing, linear-family accessors."""

import ast
import copy

from ..astutil import attr_chain, const_number, product_factors, signed_terms
from .lin_word import lin_word_rule
from ..entries import enumerate_entries, entry_args, transform_classes, _only_raises
from ..interp import Interp, OBJ, AV, T, TUP, E, all_ann
from ..model import AnalysisIncomplete, FuncInfo, norm_text, stmt_of
from ..report import Finding, RuleResult
from ..sign import sign_of, POS
from ..symexp import paths_of, is_component, is_synth, strip_stores, uwalk, shash, brief, size_upto
from ..taint import TaintDomain
from . import register, A_NET, A_UMNN, T_OPS, A_CFG

# ---------------------------------------------------------------------------------------
# LD-NODROP  (C01)
# ---------------------------------------------------------------------------------------

PAIR_METHODS = {"forward", "inverse", "_coupling_transform_forward", "_coupling_transform_inverse", "_coupling_transform", "_elementwise_forward", "_elementwise_inverse", "_elementwise", "_piecewise_cdf", "_spline", "_lu_forward_inverse", "forward_no_cache", "inverse_no_cache", "_cascade", "_apply_transforms", "_permute"}


class DropDomain(TaintDomain):
    """('LD', site): the log-det returned by the pair-returning call at `site`; 'Z': built from
    zeros only (an identically-zero log-det)."""

    like_keeps_labels = False

    def __init__(self, p):
        self.p = p
        self.made = {}  # id(frame) -> {label: (node, callee text)}
        self.dropped = []
        self.kept = []
        self.spline_names = set()
        sp = p.modules.get("nflows.transforms.splines")
        if sp is not None:
            self.spline_names = set(sp.imports)

    def xfer(self, interp, op, info, anns, recv, args, kwargs, node):
        out = set(anns)
        if info.get("cat") in ("like", "ctor") and op in ("new_zeros", "zeros", "zeros_like"):
            return {"Z"}
        if info.get("idx") or op == "compare":
            return {l for l in out if not (isinstance(l, tuple) and l[0] == "LD")}
        return out

    def src_net(self, interp, netav, method, args, kwargs, node):
        return set()

    def _is_pair_callee(self, callee):
        if callee.kind == "func":
            for fi, bound, env in callee.data:
                if fi.cls is not None and fi.name in PAIR_METHODS:
                    return "%s.%s" % (fi.cls.name, fi.name)
                if fi.cls is None and fi.name in self.spline_names:
                    return fi.name
        if callee.kind == "obj":
            for cls, path in callee.data:
                if cls.lookup_method("inverse") is not None and cls.lookup_method("forward") is not None and any(c.name == "Transform" for c in cls.repo_mro()):
                    return "%s.forward" % cls.name
        if callee.kind == "net" and callee.data[0] == "transform":
            return "<transform %s>" % callee.data[1]
        if callee.kind == "netm" and callee.data[0] == "transform" and callee.data[2] in ("inverse", "forward"):
            return "<transform %s>.%s" % (callee.data[1], callee.data[2])
        if callee.kind == "union":
            for alt in callee.data:
                r = self._is_pair_callee(alt)
                if r:
                    return r
        return None

    def post_call(self, interp, callee, args, kwargs, res, node):
        if res is None or res.kind != "tuple" or len(res.data) != 2:
            return None
        name = self._is_pair_callee(callee)
        if name is None:
            return None
        ld = res.data[1]
        ann = set(all_ann(self, ld))
        zero_only = ld.kind in ("tensor", "top") and ann and ann <= {"Z"}
        frame = interp.frame
        if zero_only:
            self.kept.append((frame.func, node, name, "identically zero log-det"))
            return None
        label = ("LD", frame.func.module.relpath, frame.func.qualname, getattr(node, "lineno", 0), getattr(node, "col_offset", 0))
        owner = frame
        while owner.func.outer is not None and owner.caller is not None:
            owner = owner.caller  # a nested generator / closure: its enclosing method accounts for the log-det
        if not hasattr(owner, "_ld_made"):
            owner._ld_made = {}
        owner._ld_made[label] = (node, name)
        # the outputs of the same call carry a twin label: a log-det may be dropped when the
        # outputs it belongs to do not reach the returned outputs either (they are only fed to
        # a conditioner network, whose results carry no labels, and recomputed by a later call
        # whose log-det is kept -- the passes of an autoregressive inverse)
        out0 = res.data[0]
        if out0.kind in ("tensor", "top"):
            out0 = AV(out0.kind, out0.data, frozenset(set(out0.ann or ()) | {("OUT",) + label[1:]}))
        return TUP([out0, AV("tensor", None, frozenset({label}))])

    def on_return(self, interp, frame, value, node):
        made = getattr(frame, "_ld_made", None)
        if not made:
            return
        fi = frame.func
        if value is None:
            return
        outs = set()
        if value.kind == "tuple" and len(value.data) == 2:
            got = set(all_ann(self, value.data[1]))
            outs = set(all_ann(self, value.data[0]))
            density = True
        elif fi.name in ("_log_prob", "log_prob"):
            got = set(all_ann(self, value))
            density = True
        else:
            density = False
            got = set()
        if not density:
            for label, (cnode, name) in made.items():
                self.kept.append((fi, cnode, name, "caller returns no density"))
            return
        for label, (cnode, name) in made.items():
            if label in got:
                self.kept.append((fi, cnode, name, "flows into the returned log-det"))
            elif value.kind == "tuple" and ("OUT",) + label[1:] not in outs and outs:
                self.kept.append((fi, cnode, name, "is dropped together with the outputs of that call (they only condition a later call)"))
            else:
                self.dropped.append((fi, cnode, name, node))


NO_DENSITY = {("HouseholderSequence", "matrix"), ("MonotonicNormalizer", "inverse_transform"), ("MonotonicNormalizer", "forward"), ("Flow", "_sample"), ("Flow", "transform_to_noise")}


def nodrop_rule(ctx):
    p = ctx.p
    res = RuleResult("LD-NODROP", "the log-det returned by every transform / spline / hook call flows into the caller's returned log-det, unless it is identically zero or the caller returns no density")
    dom = DropDomain(p)
    it = Interp(p, dom)
    n = 0
    for e in enumerate_entries(p):
        if e.kind not in ("transform", "distribution", "spline"):
            continue
        self_av = OBJ(e.cls) if e.cls is not None and not e.func.is_static else None
        it.run_function(e.func, self_av, entry_args(dom, e))
        n += 1
    # a dropped label on ONE path of a function is enough (the frame is per call: every return is checked)
    seen = set()
    for fi, cnode, name, rnode in dom.dropped:
        key = (fi.qualname, getattr(cnode, "lineno", 0), name)
        if key in seen:
            continue
        seen.add(key)
        # a later return of the same frame may carry it: only report when NO return of that call carried it
        res.fail(Finding("LD-NODROP", fi.module, fi.qualname, stmt_of(cnode) or cnode, "the log-abs-det returned by %s is discarded: it never reaches the log-det this function returns" % name))
    kept_seen = set()
    for fi, cnode, name, why in dom.kept:
        key = (fi.qualname, getattr(cnode, "lineno", 0), name, why)
        if key in kept_seen:
            continue
        kept_seen.add(key)
        res.ok("%s: log-det of %s %s" % (fi.qualname, name, why))
    # drop findings that are satisfied on another return of the same function (early returns)
    res.findings = [f for f in res.findings if not any(k[0] == f.qualname and k[1] == f.line and k[3].startswith("flows") for k in kept_seen)]
    if len(res.instances) < 40:
        raise AnalysisIncomplete("LD-NODROP: %d pair-returning call sites (< 40 confirmed by hand)" % len(res.instances))
    res.notes.append("%d entry points interpreted" % n)
    return res


# ---------------------------------------------------------------------------------------
# direction pairs and log-det terms  (C02 INV-SIGN, C01 LD-SHAPE)
# ---------------------------------------------------------------------------------------

PAIR_NAMES = [("forward", "inverse"), ("_coupling_transform_forward", "_coupling_transform_inverse"), ("_elementwise_forward", "_elementwise_inverse"), ("forward_no_cache", "inverse_no_cache")]
FLAG_FUNCS = {"_spline", "_elementwise", "_coupling_transform", "_piecewise_cdf", "_lu_forward_inverse"}
BROADCAST = {"new_ones", "ones_like", "ones", "expand", "expand_as"}
TRANSPARENT_RED = {"sum_except_batch", "sum"}


def _last(c):
    f = c.func
    return f.attr if isinstance(f, ast.Attribute) else (f.id if isinstance(f, ast.Name) else "")


def ld_terms(e, sign=1, out=None, depth=0):
    """Signed leaves of a log-det expression, looking through reductions, broadcasts to the
    batch, reshapes and __store__ chains (each stored value is a leaf of its own)."""
    if out is None:
        out = []
    if depth > 60:
        out.append((sign, e))
        return out
    for s, t in signed_terms(e, sign):
        ps, fac = product_factors(t)
        s2 = s * ps
        core = [f for f in fac if not (isinstance(f, ast.Call) and _last(f) in BROADCAST) and not (const_number(f) is not None and const_number(f) > 0 and len(fac) > 1 and False)]
        if any(isinstance(f, ast.Call) and _last(f) in ("new_zeros", "zeros", "zeros_like") for f in fac):
            continue  # identically zero
        if len(core) == 1:
            c = core[0]
            if isinstance(c, ast.Call):
                last = _last(c)
                if last in TRANSPARENT_RED or last in ("reshape", "view", "expand", "flatten", "float", "double", "to", "contiguous", "unflatten", "movedim", "moveaxis", "permute", "transpose", "view_as", "reshape_as", "unsqueeze", "squeeze", "clone"):
                    inner = c.args[0] if (c.args and not isinstance(c.func, ast.Attribute)) or (isinstance(c.func, ast.Attribute) and isinstance(c.func.value, ast.Name) and c.func.value.id in ("torch", "torchutils", "F")) else (c.func.value if isinstance(c.func, ast.Attribute) else None)
                    if inner is not None:
                        ld_terms(inner, s2, out, depth + 1)
                        continue
                if last == "__store__":
                    base, stores = strip_stores(c)
                    for idx, val in stores:
                        ld_terms(val, s2, out, depth + 1)
                    continue
                if last == "where":
                    # torch.where(region, a, b) / a.where(region, b): an element-wise case
                    # distinction, each branch a leaf of its own (as the masked stores above)
                    ops = list(c.args)
                    if isinstance(c.func, ast.Attribute) and not (isinstance(c.func.value, ast.Name) and c.func.value.id in ("torch", "np")):
                        ops = [ops[0], c.func.value] + ops[1:] if ops else ops
                    if len(ops) == 3:
                        ld_terms(ops[1], s2, out, depth + 1)
                        ld_terms(ops[2], s2, out, depth + 1)
                        continue
            if isinstance(c, (ast.BinOp, ast.UnaryOp)) and (isinstance(c, ast.UnaryOp) or isinstance(c.op, (ast.Add, ast.Sub))):
                ld_terms(c, s2, out, depth + 1)
                continue
            out.append((s2, c))
        else:
            # a genuine product: keep it as one leaf, with constant positive coefficients in front
            out.append((s2, ("prod", tuple(sorted((brief(f, 80) for f in core))))))
    return out


def leaf_key(l):
    if isinstance(l, tuple):
        return "*".join(l[1])
    return brief(l, 120)


def is_log_leaf(l):
    if isinstance(l, tuple):
        return any(k.startswith("torch.log(") or k.endswith(".log()") for k in l[1])
    if isinstance(l, ast.Call) and _last(l) in ("log", "log1p"):
        f = l.func
        if isinstance(f, ast.Attribute) and isinstance(f.value, ast.Name) and f.value.id in ("np", "math", "numpy"):
            return False  # a Python constant
        return True
    return False


def _ld_of_path(path):
    r = path.ret
    if isinstance(r, ast.Tuple) and len(r.elts) == 2:
        return r.elts[1]
    return None


def _cond_key(path, drop=("inverse",)):
    atoms = set()
    for et, raw, pol in path.conds:
        t = norm_text(raw)
        if t in drop or ("not " + t) in drop or "self.training" in t:
            continue
        par = getattr(raw, "_parent", None)
        if isinstance(par, ast.If) and par.test is raw and not pol and par.body and all(isinstance(b, ast.Raise) for b in par.body) and not par.orelse:
            continue  # an argument / domain guard: not a case distinction of the computation
        atoms.add((t, pol))
    return frozenset(atoms)


def direction_pairs(p):
    """[(label, F-paths, I-paths, funcinfo_f, funcinfo_i)] for every direction pair."""
    out = []
    seen = set()
    for cls in transform_classes(p) + [c for c in p.all_classes() if c.name == "MonotonicNormalizer"]:
        for fn, inn in PAIR_NAMES:
            f = cls.methods.get(fn)
            i = cls.methods.get(inn)
            if f is None or i is None or _only_raises(f) or _only_raises(i):
                continue
            if (id(f), id(i)) in seen:
                continue
            seen.add((id(f), id(i)))
            assume = {"self.training": False}
            from ..rankcase import has_rank_tests, rank_decider

            xf, xi = (f.params()[0][0] if f.params() else None), (i.params()[0][0] if i.params() else None)
            if xf and xi and (has_rank_tests(f.node, xf) or has_rank_tests(i.node, xi)):
                # the two directions may tell 2-D from 4-D inputs in different spellings: one pair per rank
                for r in (2, 3, 4):
                    out.append(("%s.%s/%s [rank %d]" % (cls.name, fn, inn, r), paths_of(f.node, dict(assume, __decide__=rank_decider(xf, r))), paths_of(i.node, dict(assume, __decide__=rank_decider(xi, r))), f, i))
                continue
            out.append(("%s.%s/%s" % (cls.name, fn, inn), paths_of(f.node, assume), paths_of(i.node, assume), f, i))
        for name in FLAG_FUNCS:
            f = cls.methods.get(name)
            if f is None or _only_raises(f) or "inverse" not in [a for a, _ in f.params()]:
                continue
            if id(f) in seen:
                continue
            seen.add(id(f))
            out.append(("%s.%s[inverse flag]" % (cls.name, name), paths_of(f.node, {"inverse": False}), paths_of(f.node, {"inverse": True}), f, f))
    sp = p.modules.get("nflows.transforms.splines")
    for name in sorted(sp.imports):
        f = p.resolve_name(sp, name)
        if isinstance(f, FuncInfo) and "inverse" in [a for a, _ in f.params()] and not name.startswith("unconstrained"):
            out.append(("%s[inverse flag]" % name, paths_of(f.node, {"inverse": False}), paths_of(f.node, {"inverse": True}), f, f))
    return out


def inv_sign_rule(ctx):
    p = ctx.p
    res = RuleResult("INV-SIGN", "the inverse returns the negated log-abs-det: same leaves with opposite signs, or (input-dependent forms) log-leaves positive in forward and negative in inverse")
    res_flag = RuleResult("INV-FLAG", "forward and inverse delegate to the shared implementation with the inverse flag False / True")
    for label, fpaths, ipaths, ff, fi in direction_pairs(p):
        fr = [pp for pp in fpaths if pp.kind == "return"]
        ir = [pp for pp in ipaths if pp.kind == "return"]
        if not fr or not ir:
            continue
        # delegation through a flag
        deleg = 0
        for paths, want in ((fr, False), (ir, True)):
            for pp in paths:
                r = pp.ret
                if isinstance(r, ast.Call) and isinstance(r.func, ast.Attribute) and attr_chain(r.func) and attr_chain(r.func).startswith("self.") and r.func.attr in FLAG_FUNCS:
                    deleg += 1
                    flag = next((k.value for k in r.keywords if k.arg == "inverse"), None)
                    if flag is None:
                        callee = ff.cls.lookup_method(r.func.attr) if ff.cls else None
                        if callee is not None:
                            names = [a for a, _ in callee.params()]
                            if "inverse" in names and names.index("inverse") < len(r.args):
                                flag = r.args[names.index("inverse")]
                    val = flag.value if isinstance(flag, ast.Constant) else (False if flag is None else "?")
                    if val is want:
                        res_flag.ok("%s: %s passes inverse=%s" % (label, "inverse" if want else "forward", want))
                    else:
                        res_flag.fail(Finding("INV-FLAG", (fi if want else ff).module, (fi if want else ff).qualname, pp.ret_node, "%s must call self.%s with inverse=%s (found %s): both directions would compute the same map" % ("inverse" if want else "forward", r.func.attr, want, val)))
        if deleg:
            continue
        # case distinctions are compared over the tests both directions make; a test only one
        # direction makes (lazy initialisation, a direction-specific guard) splits that
        # direction's paths without a counterpart -- harmless when those paths carry the same
        # log-det expression, undecided otherwise
        vf = {t for pp in fr for t, _ in _cond_key(pp)}
        vi = {t for pp in ir for t, _ in _cond_key(pp)}
        shared = vf & vi

        def grouped(paths):
            m = {}
            for pp in paths:
                k = frozenset((t, pol) for t, pol in _cond_key(pp) if t in shared)
                m.setdefault(k, []).append(pp)
            return m

        fmap, imap = grouped(fr), grouped(ir)

        def reps(pps):
            """one representative per distinct log-det expression (paths told apart by a test only this direction
            makes -- a lazily filled table, a direction-specific guard -- usually carry the same one)"""
            out = {}
            for pp in pps:
                ld = _ld_of_path(pp)
                out.setdefault(shash(ld) if ld is not None else None, pp)
            return list(out.values())

        common = set(fmap) & set(imap)
        if not common:
            if len(fmap) == 1 and len(imap) == 1:
                kf, ki = next(iter(fmap)), next(iter(imap))
                imap = {kf: imap[ki]}
                common = {kf}
            else:
                res.undecide(label, "forward and inverse distinguish different cases (%d / %d paths)" % (len(fmap), len(imap)))
                continue
        combos = []
        for key in sorted(common, key=lambda k: sorted(map(str, k))):
            ra, rb = reps(fmap[key]), reps(imap[key])
            for pa in ra:
                for pb in rb:
                    combos.append((key, pa, pb, len(ra) > 1 or len(rb) > 1))
        for key, pa, pb, multi in combos:
            a = _ld_of_path(pa)
            b = _ld_of_path(pb)
            if a is None or b is None:
                continue
            if size_upto(a, 6000) > 6000 or size_upto(b, 6000) > 6000:
                res.undecide(label, "log-det expression too large")
                continue
            ta = ld_terms(a)
            tb = ld_terms(b)
            # delegating pair components (component 1 of a call): sign only
            ka = sorted((s, leaf_key(l)) for s, l in ta)
            kb = sorted((-s, leaf_key(l)) for s, l in tb)
            node = pb.ret_node
            if not ta and not tb:
                res.ok("%s: zero log-det in both directions" % label, nontrivial=False)
                continue
            if ka == kb:
                res.ok("%s: inverse log-det is the term-wise negation of forward (%d leaves)" % (label, len(ta)))
                continue
            la = [s for s, l in ta if is_log_leaf(l)]
            lb = [s for s, l in tb if is_log_leaf(l)]
            ca = [s for s, l in ta if isinstance(l, ast.AST) and is_component(l)]
            cb = [s for s, l in tb if isinstance(l, ast.AST) and is_component(l)]
            if ca or cb:
                # log-dets taken from calls: forward adds them, inverse adds the inverse's own log-det
                if all(s == 1 for s in ca) and all(s == 1 for s in cb):
                    res.ok("%s: both directions add the log-dets their callees return" % label)
                    continue
            if (la or lb) and all(s == 1 for s in la) and all(s == -1 for s in lb):
                other_a = sorted((s, leaf_key(l)) for s, l in ta if not is_log_leaf(l))
                other_b = sorted((-s, leaf_key(l)) for s, l in tb if not is_log_leaf(l))
                if not la and other_a and not other_b:
                    # forward log-det is the pre-image itself (Exp): inverse is -log(inputs)
                    res.ok("%s: log-leaves negative in inverse; forward has none" % label)
                    continue
                res.ok("%s: log-leaves positive in forward (%d) and negative in inverse (%d)" % (label, len(la), len(lb)))
                continue
            def kind(l):
                if isinstance(l, tuple):
                    return "prod"
                if isinstance(l, ast.Call):
                    f = l.func
                    if isinstance(f, ast.Attribute) and isinstance(f.value, ast.Name) and f.value.id in ("np", "math"):
                        return "const"
                    return _last(l)
                return "const" if const_number(l) is not None else "value"

            if sorted((s, kind(l)) for s, l in ta) == sorted((-s, kind(l)) for s, l in tb):
                res.ok("%s: leaves of the same kinds with opposite signs (%d leaves)" % (label, len(ta)))
                continue
            if len(ta) == len(tb) and len({s for s, l in ta}) == 1 and len({s for s, l in tb}) == 1 and ta[0][0] == -tb[0][0]:
                res.ok("%s: same number of leaves, all of one sign, opposite in the two directions" % label)
                continue
            if multi:
                # several log-det expressions under one shared case and this pairing does not match: a test made by one
                # direction only changes that direction's log-det -- which pairing is meant is not decidable here
                res.undecide(label, "a test made by one direction only changes that direction's log-det")
                continue
            res.fail(Finding("INV-SIGN", fi.module, fi.qualname, node, "%s: the inverse's log-abs-det is not the negation of the forward's: forward leaves %s, inverse leaves %s" % (label, [(s, k[:40]) for s, k in sorted((s, leaf_key(l)) for s, l in ta)][:6], [(s, k[:40]) for s, k in sorted((s, leaf_key(l)) for s, l in tb)][:6])))
    if len(res.instances) < 20:
        raise AnalysisIncomplete("INV-SIGN: %d direction pairs decided (< 20 confirmed by hand)" % len(res.instances))
    return [res, res_flag]


# ---------------------------------------------------------------------------------------
# LD-SHAPE lite (C01)
# ---------------------------------------------------------------------------------------


def _shape_verdict(e, env_rank2=False, depth=0):
    """'ok' | ('bad', why) | 'delegated' | 'unknown' for the batch-shape of a log-det expression."""
    if depth > 40:
        return "unknown"
    if isinstance(e, ast.UnaryOp):
        return _shape_verdict(e.operand, env_rank2, depth + 1)
    if isinstance(e, ast.BinOp) and isinstance(e.op, (ast.Add, ast.Sub)):
        a = _shape_verdict(e.left, env_rank2, depth + 1)
        b = _shape_verdict(e.right, env_rank2, depth + 1)
        for v in (a, b):
            if isinstance(v, tuple):
                return v
        if "ok" in (a, b) or "delegated" in (a, b):
            if const_number(e.left) is not None or const_number(e.right) is not None:
                return "ok"
            return "ok" if "unknown" not in (a, b) else ("ok" if (a == "scalar" or b == "scalar") else "unknown")
        if a == b:
            return a
        return "unknown"
    if isinstance(e, ast.BinOp) and isinstance(e.op, (ast.Mult, ast.Div)):
        a = _shape_verdict(e.left, env_rank2, depth + 1)
        b = _shape_verdict(e.right, env_rank2, depth + 1)
        for v in (a, b):
            if isinstance(v, tuple):
                return v
        if "ok" in (a, b) or "delegated" in (a, b):
            return "ok"
        if a == "scalar" and b == "scalar":
            return "scalar"
        return "unknown"
    if const_number(e) is not None or isinstance(e, (ast.Name, ast.Attribute)):
        return "scalar" if const_number(e) is not None else "unknown"
    if is_component(e):
        return "delegated"
    if isinstance(e, ast.Call) and attr_chain(e.func) in ("self.logabsdet",) and not e.args:
        return "scalar"
    if isinstance(e, ast.Call):
        last = _last(e)
        modcall = isinstance(e.func, ast.Attribute) and isinstance(e.func.value, ast.Name) and e.func.value.id in ("torch", "torchutils", "F")
        recv = None if modcall or not isinstance(e.func, ast.Attribute) else e.func.value
        args = e.args
        if last == "sum_except_batch":
            nb = next((k.value for k in e.keywords if k.arg == "num_batch_dims"), args[1] if len(args) > 1 else None)
            if nb is None or const_number(nb) == 1:
                return "ok"
            if const_number(nb) is not None:
                return ("bad", "sum_except_batch(num_batch_dims=%s) does not keep exactly the batch axis" % const_number(nb))
            return "unknown"
        if last in ("new_ones", "new_zeros", "ones", "zeros") and args:
            return "ok"
        if last in ("expand",) and len(args) == 1:
            return "ok"
        if last == "sum":
            x = args[0] if modcall else recv
            dim = next((k.value for k in e.keywords if k.arg == "dim"), (args[1] if modcall and len(args) > 1 else (args[0] if not modcall and args else None)))
            if dim is None:
                return "scalar"
            d = const_number(dim)
            if d == 0:
                return ("bad", "the log-det is reduced over dim 0, the batch axis")
            if d in (1, -1):
                # fine on a rank-2 operand: directly after reshape(B, -1), or in a 2-D-only class
                if isinstance(x, ast.Call) and _last(x) in ("reshape", "view") and len(x.args) == 2 and const_number(x.args[1]) == -1:
                    return "ok"
                return "ok" if env_rank2 else "unknown"
            return "unknown"
        if last in ("reshape", "view", "flatten"):
            tgt = [const_number(a) for a in args]
            if last == "flatten" and not args or tgt == [-1]:
                return ("bad", "the log-det is flattened with %s(-1): every element becomes its own batch item, no axis is reduced" % last)
            return "unknown"
        if last in ("log", "exp", "abs", "softplus", "sigmoid", "tanh", "atan", "sqrt", "pow", "log1p", "clamp"):
            return ("bad", "an elementwise quantity is returned as the log-det without being reduced over the non-batch axes")
        return "unknown"
    return "unknown"


def ld_shape_rule(ctx):
    p = ctx.p
    res = RuleResult("LD-SHAPE", "every returned log-det is batch-shaped: reduced over all non-batch axes exactly once (constant-dim special cases; anything else is counted undecided, not reported)")
    undecided = []
    n = 0
    for cls in transform_classes(p):
        for name, fi in cls.methods.items():
            if name not in PAIR_METHODS or _only_raises(fi) or name in ("_piecewise_cdf",):
                continue
            only2d = any("dim() != 2" in norm_text(n_) for n_ in ast.walk(fi.node) if isinstance(n_, ast.If)) or cls.name in ("MaskedUMNNAutoregressiveTransform",)
            rank2_hint = only2d or "len(inputs.shape) == 2" in norm_text(fi.node)
            try:
                paths = paths_of(fi.node, {"self.training": False})
            except AnalysisIncomplete:
                continue
            for path in paths:
                if path.kind != "return":
                    continue
                ld = _ld_of_path(path)
                if ld is None:
                    continue
                n += 1
                if size_upto(ld, 4000) > 4000:
                    undecided.append("%s.%s" % (cls.name, name))
                    continue
                atoms = {norm_text(raw) for et, raw, pol in path.conds if pol}
                r2 = rank2_hint and ("len(inputs.shape) == 2" in atoms or only2d)
                v = _shape_verdict(ld, env_rank2=r2)
                if isinstance(v, tuple):
                    res.fail(Finding("LD-SHAPE", fi.module, fi.qualname, path.ret_node, "%s.%s: %s" % (cls.name, name, v[1])))
                elif v in ("ok", "delegated"):
                    res.ok("%s.%s: log-det is batch-shaped (%s)" % (cls.name, name, v))
                elif v == "scalar":
                    res.fail(Finding("LD-SHAPE", fi.module, fi.qualname, path.ret_node, "%s.%s returns a scalar log-det: it is not broadcast to one value per batch item" % (cls.name, name)))
                else:
                    undecided.append("%s.%s" % (cls.name, name))
    res.notes.append("%d returned log-dets examined, %d of a form outside the special cases (not reported): %s" % (n, len(undecided), sorted(set(undecided))[:12]))
    if len(set(undecided)) > 6:
        res.undecide("LD-SHAPE", "%d functions outside the decidable special cases (baseline <= 6): %s" % (len(set(undecided)), sorted(set(undecided))))
    if n < 50:
        raise AnalysisIncomplete("LD-SHAPE: %d returned log-dets (< 50 confirmed by hand)" % n)
    return res


def ld_mult_rule(ctx):
    p = ctx.p
    res = RuleResult("LD-MULT", "a log-derivative that lacks some non-batch axes of the inputs is multiplied by the sizes of exactly the missing axes")
    # ActNorm: per-channel log_scale for [B,C,H,W] inputs -> h * w * sum(log_scale).  Decided on the
    # monomial normal form (prodnf) of the returned log-det after canonicalising the spellings of
    # an axis size and dropping broadcasts to the batch: +-1 * sum[log_scale] * H * W  (4-D),
    # +-1 * sum[log_scale]  (2-D)
    from ..prodnf import NotMonomial, monomial as _monomial

    class _CanonSizes(ast.NodeTransformer):
        def __init__(self, x, rank=4):
            self.x = x
            self.rank = rank

        def _shape_of_x(self, e):
            """`e` is x.shape / x.size(), or the shape of a tensor obtained from x element-wise (the outputs:
            scale.view(1, -1, 1, 1) * x + shift.view(..) has the axes of x)"""
            from ..rankcase import _ranked

            if isinstance(e, ast.Attribute) and e.attr == "shape":
                return _ranked(e.value, self.x, 4)
            if isinstance(e, ast.Call) and isinstance(e.func, ast.Attribute) and e.func.attr == "size" and not e.args and not e.keywords:
                return _ranked(e.func.value, self.x, 4)
            return False

        def _dim(self, e):
            """axis number when `e` spells the size of one axis of the inputs"""
            from ..rankcase import _ranked

            if is_component(e) and self._shape_of_x(e.args[0]):
                return int(const_number(e.args[1]))
            if is_component(e) and isinstance(e.args[0], ast.Call) and isinstance(e.args[0].func, ast.Name) and e.args[0].func.id == "__rest__" and self._shape_of_x(e.args[0].args[0]) and const_number(e.args[0].args[1]) is not None:
                return int(const_number(e.args[0].args[1])) + int(const_number(e.args[1]))
            if isinstance(e, ast.Subscript) and self._shape_of_x(e.value) and const_number(e.slice) is not None:
                return int(const_number(e.slice))
            if isinstance(e, ast.Call) and isinstance(e.func, ast.Attribute) and e.func.attr == "size" and _ranked(e.func.value, self.x, 4) and len(e.args) == 1 and const_number(e.args[0]) is not None:
                return int(const_number(e.args[0]))
            return None

        def visit(self, e):
            d = self._dim(e)
            if d is not None:
                return ast.Name(id="__axis%d__" % (d % 4 if d < 0 else d), ctx=ast.Load())
            if isinstance(e, ast.Call):
                f = e.func
                last = _last(e)
                # numel of the trailing axes: x.shape[2:].numel(), math.prod(x.shape[2:]), x[0, 0].numel()
                tail = None
                if last == "numel" and isinstance(f, ast.Attribute) and isinstance(f.value, ast.Subscript):
                    sub = f.value
                    if self._shape_of_x(sub.value) and isinstance(sub.slice, ast.Slice) and sub.slice.upper is None and sub.slice.step is None and const_number(sub.slice.lower) is not None:
                        tail = int(const_number(sub.slice.lower))
                    elif norm_text(sub.value) == self.x and isinstance(sub.slice, ast.Tuple) and all(const_number(i) is not None for i in sub.slice.elts):
                        tail = len(sub.slice.elts)
                if last == "prod" and len(e.args) == 1 and isinstance(e.args[0], ast.Subscript):
                    sub = e.args[0]
                    if self._shape_of_x(sub.value) and isinstance(sub.slice, ast.Slice) and sub.slice.upper is None and sub.slice.step is None and const_number(sub.slice.lower) is not None:
                        tail = int(const_number(sub.slice.lower))
                if tail is not None and 0 <= tail <= 4:
                    out = ast.Constant(value=1)
                    for d in range(tail, self.rank):
                        out = ast.BinOp(left=out, op=ast.Mult(), right=ast.Name(id="__axis%d__" % d, ctx=ast.Load()))
                    return out
                # broadcasts to the batch carry no factor
                if last in ("new_ones", "ones_like", "ones"):
                    return ast.Constant(value=1)
                if last in ("expand", "expand_as", "repeat", "broadcast_to") and isinstance(f, ast.Attribute) and not (isinstance(f.value, ast.Name) and f.value.id in ("torch", "np")):
                    return self.visit(f.value)
                if last in ("float", "double", "to", "type_as") and isinstance(f, ast.Attribute) and not (isinstance(f.value, ast.Name) and f.value.id in ("torch", "np")):
                    return self.visit(f.value)
            return self.generic_visit(e)

    act = p.find_class("ActNorm", "nflows.transforms.normalization")
    for direction in ("forward", "inverse"):
        fi = act.methods.get(direction)
        if fi is None:
            res.undecide("ActNorm.%s" % direction, "method missing")
            continue
        xname = fi.params()[0][0]
        found4 = found2 = False
        from ..rankcase import rank_decider

        per_rank = []
        for rank in (2, 4):
            for path in paths_of(fi.node, {"self.training": False, "__decide__": rank_decider(xname, rank)}):
                per_rank.append((rank, path))
        for rank, path in per_rank:
            if path.kind != "return":
                continue
            ld = _ld_of_path(path)
            if ld is None:
                continue
            import copy

            canon = _CanonSizes(xname, rank).visit(copy.deepcopy(ld))
            ast.fix_missing_locations(canon)
            try:
                c, m = _monomial(canon)
            except NotMonomial as ex:
                res.undecide("ActNorm.%s [%d-D]" % (direction, rank), "log-det is not a product: %s" % ex)
                continue
            sizes = {}
            sums = 0
            rest = []
            for a, k in m.items():
                if a[0] == "leaf" and a[1].startswith("__axis") and a[1].endswith("__"):
                    sizes[int(a[1][6:-2])] = k
                elif a[0] == "sum" and a[2] in ("dim=all",) and dict(a[1]) == {("leaf", "self.log_scale"): 1}:
                    sums += k
                else:
                    rest.append(a)
            want_sizes = {2: 1, 3: 1} if rank == 4 else {}
            label = "ActNorm.%s [%d-D]" % (direction, rank)
            if rank == 4:
                found4 = True
            else:
                found2 = True
            if rest:
                res.undecide(label, "log-det has factors this rule does not know: %s" % [str(a)[:50] for a in rest][:3])
            elif sums == 1 and sizes == want_sizes and abs(c) == 1:
                res.ok("%s: %s" % (label, "h * w * sum(log_scale)" if rank == 4 else "sum(log_scale)"))
            elif rank == 4:
                res.fail(Finding("LD-MULT", fi.module, fi.qualname, path.ret_node, "for image inputs the per-channel log-scale acts on every pixel: the log-det must be h * w * sum(log_scale); found coefficient %s, sum(log_scale)^%d and the axis sizes %s" % (c, sums, {("BCHW"[d] if 0 <= d < 4 else d): k for d, k in sorted(sizes.items())})))
            else:
                res.fail(Finding("LD-MULT", fi.module, fi.qualname, path.ret_node, "for 2-D inputs the log-det must be sum(log_scale) without further factors; found coefficient %s, sum(log_scale)^%d and the axis sizes %s" % (c, sums, sorted(sizes))))
        if not (found4 and found2):
            res.undecide("ActNorm.%s" % direction, "2-D / 4-D branches not found")
    # OneByOneConvolution: one matrix log-det per pixel row -> reshape(b, h, w) summed
    conv = p.find_class("OneByOneConvolution", "nflows.transforms.conv")
    fi = conv.methods.get("_lu_forward_inverse")
    if fi is None:
        res.undecide("OneByOneConvolution", "_lu_forward_inverse missing")
    else:
        # axis-layout algebra (nfstatic/axes.py): the per-row log-dets [(B*H*W)] of the LU
        # transform must come back as [B] with exactly the pixel axes H and W summed away
        from ..axes import AxisEval, Mismatch, Unknown, image_env, show, strip_layout_ops

        for path in paths_of(fi.node):
            if path.kind != "return":
                continue
            ld = _ld_of_path(path)
            if ld is None:
                res.undecide("OneByOneConvolution._lu_forward_inverse", "does not return a pair")
                continue
            ev = AxisEval(image_env())
            try:
                lay = ev.ev(ld)
            except Mismatch as m:
                res.fail(Finding("LD-MULT", fi.module, fi.qualname, path.ret_node, "the 1x1 convolution's log-det: %s" % m.msg))
                continue
            except Unknown as u:
                res.undecide("OneByOneConvolution._lu_forward_inverse", "cannot follow the axes of the log-det `%s` (%s)" % (norm_text(ld)[:60], u))
                continue
            summed = sorted(a[0] for op, atoms in ev.reduced if op in ("sum", "sum_except_batch") for a in atoms)
            other = [(op, [a[0] for a in atoms]) for op, atoms in ev.reduced if op not in ("sum", "sum_except_batch") and atoms]
            rows = [l for _c, ls in ev.row_calls for l in ls[:1]]
            per_pixel = any(sorted(a[0] for a in l[0]) == ["B", "H", "W"] for l in rows if l)
            core = strip_layout_ops(ld)
            if not (is_component(core) and const_number(core.args[1]) == 1 and isinstance(core.args[0], ast.Call)):
                res.fail(Finding("LD-MULT", fi.module, fi.qualname, path.ret_node, "the 1x1 convolution's log-det must be the LU transform's own per-row log-det, only re-arranged and summed over the pixels; found `%s` underneath the re-arrangements" % brief(core, 70)))
                continue
            if lay == (image_env()["inputs"][0],) and summed == ["H", "W"] and not other and per_pixel:
                res.ok("OneByOneConvolution: the matrix log-det of every pixel row, laid out %s, summed over H and W per batch item" % show(rows[0]))
            else:
                res.fail(Finding("LD-MULT", fi.module, fi.qualname, path.ret_node, "the 1x1 convolution applies the matrix at every pixel: its log-det must be the per-row log-dets summed over exactly the pixel axes h and w for each batch item (found: result axes %s, summed axes %s%s)" % (show(lay), summed, (", other reductions %s" % other) if other else "")))
    # PointwiseAffineTransform: scalar or broadcast scale
    pa = p.find_class("PointwiseAffineTransform", "nflows.transforms.standard")
    fi = pa.methods.get("_batch_logabsdet")
    if fi is None:
        res.undecide("PointwiseAffineTransform", "_batch_logabsdet missing")
    else:
        param = fi.params()[0][0]
        forms = set()
        from ..prodnf import NotMonomial, monomial

        for path in paths_of(fi.node):
            if path.kind != "return":
                continue
            r = path.ret
            verdict = None
            # module-level helpers that only compute a number from the shape are read through
            from ..helperval import value_of_call
            import copy as _copy

            class _Helpers(ast.NodeTransformer):
                def visit_Call(self, n):
                    self.generic_visit(n)
                    if isinstance(n.func, ast.Name):
                        hv = value_of_call(p, fi.module, n)
                        if hv is not None:
                            return ast.copy_location(hv, n)
                    return n

            if any(isinstance(x, ast.Call) and isinstance(x.func, ast.Name) for x in ast.walk(r)):
                r = ast.fix_missing_locations(_Helpers().visit(_copy.deepcopy(r)))
            # (a) log|scale| broadcast to the event shape, then summed over all of it
            from ..astutil import as_reduction

            red = as_reduction(r, ("sum",))
            if red is not None and red[2] is None and isinstance(red[1], ast.Call) and _last(red[1]) in ("expand", "broadcast_to") and isinstance(red[1].func, ast.Attribute):
                base, shp = red[1].func.value, red[1].args
                if norm_text(base) == "self._log_abs_scale" and len(shp) == 1 and norm_text(shp[0]) in (param, "torch.Size(%s)" % param, "tuple(%s)" % param):
                    verdict = "expand-sum"
            # (b) a scalar log|scale| times the number of event elements
            if verdict is None:
                try:
                    c, m = monomial(r)
                    atoms = {a[1] if a[0] == "leaf" else None: k for a, k in m.items()}
                    numel_forms = ("torch.Size(%s).numel()" % param, "int(np.prod(%s))" % param, "np.prod(%s)" % param, "math.prod(%s)" % param)
                    if c == 1 and len(atoms) == 2 and atoms.get("self._log_abs_scale") == 1 and any(atoms.get(nf) == 1 for nf in numel_forms):
                        verdict = "numel"
                except NotMonomial:
                    pass
            if verdict is not None:
                forms.add(verdict)
                continue
            # a value read back from a memo kept on the module: whatever the storing path computed
            # (that path is judged above; the memo's life-cycle is LD-STATE's)
            core = r
            if isinstance(core, ast.Call) and isinstance(core.func, ast.Attribute) and core.func.attr == "get":
                core = core.func.value
            elif isinstance(core, ast.Subscript):
                core = core.value
            ch = attr_chain(core) if isinstance(core, ast.Attribute) else None
            if ch and ch.startswith("self.") and ch.count(".") == 1 and p.attrs(pa).get(ch[5:]) is not None and p.attrs(pa)[ch[5:]].kind == "PLAIN":
                continue
            # a definite miscount: log|scale| not multiplied at all
            if norm_text(r) == "self._log_abs_scale" or (isinstance(r, ast.Call) and _last(r) == "sum" and norm_text(getattr(r.func, "value", r)) == "self._log_abs_scale"):
                res.fail(Finding("LD-MULT", fi.module, fi.qualname, path.ret_node, "the log-det of a pointwise affine map on inputs of event shape S must be log|scale| counted once per element of S (expand(S).sum() or * numel(S))"))
            else:
                res.undecide("PointwiseAffineTransform._batch_logabsdet", "returned form `%s` is not expand(S).sum() / * numel(S)" % norm_text(r)[:60])
        if forms:
            res.ok("PointwiseAffineTransform: log|scale| counted once per event element (%s)" % ", ".join(sorted(forms)))
        for direction, want_sign in (("forward", 1), ("inverse", -1)):
            m = pa.methods.get(direction)
            x = m.params()[0][0]
            shape_forms = ("__rest__(%s.size(), 1)" % x, "__rest__(%s.shape, 1)" % x, "%s.size()[1:]" % x, "%s.shape[1:]" % x)
            batch_forms = ("__component__(%s.size(), 0)" % x, "__component__(%s.shape, 0)" % x, "%s.shape[0]" % x, "%s.size(0)" % x, "%s.size()[0]" % x)
            okd = None
            for path in paths_of(m.node):
                if path.kind != "return" or not (isinstance(path.ret, ast.Tuple) and len(path.ret.elts) == 2):
                    continue
                terms = signed_terms(path.ret.elts[1])
                good = False
                if len(terms) == 1 and terms[0][0] == want_sign:
                    t = terms[0][1]
                    if isinstance(t, ast.Call) and _last(t) in ("expand", "repeat") and isinstance(t.func, ast.Attribute) and len(t.args) == 1 and norm_text(t.args[0]) in batch_forms:
                        inner = t.func.value
                        if isinstance(inner, ast.Call) and attr_chain(inner.func) == "self._batch_logabsdet" and len(inner.args) == 1 and norm_text(inner.args[0]) in shape_forms:
                            good = True
                okd = good if okd is None else (okd and good)
            if okd:
                res.ok("PointwiseAffineTransform.%s: event shape = inputs.size()[1:]" % direction)
            else:
                res.fail(Finding("LD-MULT", m.module, m.qualname, m.node, "the event shape passed to _batch_logabsdet must be inputs.size()[1:] and the result expanded to the batch", construct="event shape in %s" % direction))
    return res


# ---------------------------------------------------------------------------------------
# C02 INV-CONFIG / INV-POS
# ---------------------------------------------------------------------------------------


def _poly_in(e, sym):
    """Polynomial in `sym` as {power: coeff} (constant folding only), or None."""
    v = const_number(e)
    if v is not None:
        return {0: float(v)}
    if norm_text(e) == sym:
        return {1: 1.0}
    if isinstance(e, ast.BinOp):
        a, b = _poly_in(e.left, sym), _poly_in(e.right, sym)
        if isinstance(e.op, ast.Pow) and a is not None and const_number(e.right) is not None and float(const_number(e.right)).is_integer():
            r = {0: 1.0}
            for _ in range(int(const_number(e.right))):
                r = _pmul(r, a)
            return r
        if a is None or b is None:
            return None
        if isinstance(e.op, ast.Mult):
            return _pmul(a, b)
        if isinstance(e.op, ast.Add):
            return _padd(a, b)
        if isinstance(e.op, ast.Sub):
            return _padd(a, {k: -v for k, v in b.items()})
    return None


def _pmul(a, b):
    out = {}
    for i, x in a.items():
        for j, y in b.items():
            out[i + j] = out.get(i + j, 0) + x * y
    return {k: v for k, v in out.items() if v}


def _padd(a, b):
    out = dict(a)
    for k, v in b.items():
        out[k] = out.get(k, 0) + v
    return {k: v for k, v in out.items() if v}


def _is_channels(e, x="inputs"):
    """the channel count of the 4-D argument: c of `b, c, h, w = inputs.size()` (expanded to a
    component), inputs.shape[1], inputs.size(1)"""
    t = norm_text(e).replace(" ", "")
    return t in ("__component__(%s.size(),1)" % x, "__component__(%s.shape,1)" % x, "%s.shape[1]" % x, "%s.size(1)" % x, "%s.size()[1]" % x, "c")


def inv_config_rule(ctx):
    p = ctx.p
    res = RuleResult("INV-CONFIG", "a shape guard in one direction is expressed in the configuration the other direction used (squeeze: channels divisible by factor**2)")
    sq = p.find_class("SqueezeTransform", "nflows.transforms.reshape")
    fwd, inv = sq.methods.get("forward"), sq.methods.get("inverse")
    if fwd is None or inv is None:
        raise AnalysisIncomplete("SqueezeTransform.forward / inverse missing")
    # forward's channel multiplier: the 4-argument view whose channel slot multiplies c.
    # Everything is read off the path-wise expansion, so locals (factor = self.factor) and
    # renamed intermediates do not matter.
    mult = None
    for path in paths_of(fwd.node):
        if path.kind != "return":
            continue
        for n in uwalk(path.ret):
            if isinstance(n, ast.Call) and _last(n) in ("view", "reshape"):
                args = n.args[1:] if isinstance(n.func, ast.Attribute) and isinstance(n.func.value, ast.Name) and n.func.value.id == "torch" else n.args
                if len(args) == 1 and isinstance(args[0], (ast.Tuple, ast.List)):
                    args = args[0].elts
                if len(args) != 4:
                    continue
                ps, fac = product_factors(args[1])
                rest = [f for f in fac if not _is_channels(f)]
                if len(rest) == len(fac):
                    continue
                poly = {0: 1.0}
                okp = True
                for f in rest:
                    q = _poly_in(f, "self.factor")
                    if q is None:
                        okp = False
                        break
                    poly = _pmul(poly, q)
                if okp:
                    mult = poly
    if mult is None:
        # the same split / merge written with unflatten / flatten: every spatial axis split as (size // F, F) hands its
        # F-axis to the channel group that `flatten(1, 3)` merges
        for path in paths_of(fwd.node):
            if path.kind != "return":
                continue
            splits = []
            merged = False
            for n in uwalk(path.ret):
                if isinstance(n, ast.Call) and _last(n) == "unflatten" and len(n.args) >= 2 and const_number(n.args[-2]) in (2, 3, -1, -2) and isinstance(n.args[-1], (ast.Tuple, ast.List)) and len(n.args[-1].elts) == 2:
                    a, b_ = n.args[-1].elts
                    if isinstance(a, ast.BinOp) and isinstance(a.op, ast.FloorDiv) and norm_text(a.right) == norm_text(b_):
                        splits.append(b_)
                if isinstance(n, ast.Call) and _last(n) == "flatten" and [const_number(x) for x in n.args[-2:]] == [1, 3]:
                    merged = True
            uniq = {}
            for b_ in splits:
                uniq.setdefault(id(b_), b_)
            if merged and len(splits) >= 2:
                poly = {0: 1.0}
                okp = True
                for b_ in splits[:2]:
                    q = _poly_in(b_, "self.factor")
                    if q is None:
                        okp = False
                        break
                    poly = _pmul(poly, q)
                if okp:
                    mult = poly
    if mult is None:
        res.undecide("SqueezeTransform.forward", "channel multiplier not found")
        return res
    res.ok("forward multiplies the channels by the polynomial %s in self.factor" % mult)
    checked = 0
    seen = set()
    ipaths = paths_of(inv.node)
    for path in ipaths:
        if path.kind != "raise":
            continue
        for et, raw, pol in path.conds:
            if id(raw) in seen:
                continue
            seen.add(id(raw))
            for c in uwalk(et):
                if isinstance(c, ast.Compare) and len(c.ops) == 1:
                    l, r = c.left, c.comparators[0]
                    cand = None
                    if isinstance(l, ast.BinOp) and isinstance(l.op, ast.Mod) and _is_channels(l.left):
                        cand = l.right
                    elif _is_channels(l) and isinstance(c.ops[0], (ast.Lt, ast.LtE)):
                        cand = r
                    elif isinstance(l, ast.BinOp) and isinstance(l.op, ast.FloorDiv) and _is_channels(l.left) and isinstance(c.ops[0], ast.Lt) and const_number(r) == 1:
                        cand = l.right  # c // q < 1  <=>  c < q
                    if cand is None:
                        continue
                    checked += 1
                    q = _poly_in(cand, "self.factor")
                    if q == mult:
                        res.ok("inverse guard `%s` uses factor**2" % norm_text(c)[:80])
                    else:
                        res.fail(Finding("INV-CONFIG", inv.module, inv.qualname, raw, "the inverse's channel guard `%s` tests %s where forward produced c * factor**2 channels: for factor != 2 the inverse rejects (or mis-accepts) forward's own outputs" % (norm_text(raw), norm_text(cand))))
    if not checked:
        res.fail(Finding("INV-CONFIG", inv.module, inv.qualname, inv.node, "inverse has no divisibility guard on the channel count", construct="channel guard of inverse"))
    # the divisor used to split the channels must be the same polynomial
    seen_div = set()
    for path in ipaths:
        if path.kind != "return":
            continue
        for n in uwalk(path.ret):
            if isinstance(n, ast.BinOp) and isinstance(n.op, ast.FloorDiv) and _is_channels(n.left):
                key = norm_text(n.right)
                if key in seen_div:
                    continue
                seen_div.add(key)
                q = _poly_in(n.right, "self.factor")
                if q == mult:
                    res.ok("inverse divides the channels by factor**2")
                else:
                    res.fail(Finding("INV-CONFIG", inv.module, inv.qualname, path.ret_node, "inverse divides the channels by %s, forward multiplied by factor**2" % norm_text(n.right), construct="channel divisor of inverse"))
    return res


POS_ACT = {"exp", "softplus", "sigmoid", "softmax", "ones_like"}


def inv_pos_rule(ctx):
    p = ctx.p
    res = RuleResult("INV-POS", "a quantity constructed with a positivity activation is still positive where it is divided by or its log is taken")
    n = 0
    targets = []
    for cls in transform_classes(p):
        for name, fi in cls.methods.items():
            if fi.is_property or name in PAIR_METHODS or name in ("_scale_and_shift", "logabsdet", "weight", "weight_inverse", "_unconstrained_scale_and_shift", "_create_upper", "_create_lower_upper"):
                targets.append((cls, fi))
    for cls in p.all_classes():
        if cls.name == "AffineCouplingTransform":
            for nm in ("DEFAULT_SCALE_ACTIVATION", "GENERAL_SCALE_ACTIVATION"):
                lam = cls.class_assigns.get(nm)
                if isinstance(lam, ast.Lambda):
                    s = sign_of(lam.body)
                    n += 1
                    if s == POS:
                        res.ok("AffineCouplingTransform.%s is positive for every input" % nm)
                    else:
                        res.fail(Finding("INV-POS", cls.module, cls.name, lam, "scale activation %s can be zero or negative (sign %s): log(scale) and the division in the inverse are then undefined" % (nm, s), construct=nm))
    seen = set()
    for cls, fi in targets:
        try:
            paths = paths_of(fi.node, {"self.training": False})
        except AnalysisIncomplete:
            continue
        for path in paths:
            exprs = []
            if path.ret is not None:
                exprs.append(path.ret)
            for root in exprs:
                if size_upto(root, 8000) > 8000:
                    continue
                memo = {}
                for c in uwalk(root):
                    operand = None
                    how = None
                    if isinstance(c, ast.Call) and _last(c) == "log" and (c.args or isinstance(c.func, ast.Attribute)):
                        modcall = isinstance(c.func, ast.Attribute) and isinstance(c.func.value, ast.Name) and c.func.value.id in ("torch", "np", "math")
                        operand = c.args[0] if modcall and c.args else (c.func.value if isinstance(c.func, ast.Attribute) and not modcall else None)
                        how = "log"
                    elif isinstance(c, ast.BinOp) and isinstance(c.op, ast.Div):
                        operand = c.right
                        how = "division"
                    if operand is None:
                        continue
                    # only quantities the code itself constructs with a positivity activation
                    acts = [x for x in uwalk(operand) if isinstance(x, ast.Call) and _last(x) in POS_ACT]
                    props = [x for x in uwalk(operand) if isinstance(x, ast.Attribute) and attr_chain(x) in ("self.upper_diag", "self.diagonal", "self.weight", "self.scale")]
                    if not acts and not props:
                        continue
                    key = (fi.qualname, how, shash(operand))
                    if key in seen:
                        continue
                    seen.add(key)
                    n += 1
                    s = _sign_with_props(p, cls, operand, memo)
                    if s == POS:
                        res.ok("%s.%s: operand of %s `%s` is positive for every parameter value" % (cls.name, fi.name, how, brief(operand, 60)[:50]))
                    else:
                        res.fail(Finding("INV-POS", fi.module, fi.qualname, path.ret_node if getattr(path, "ret_node", None) is not None else fi.node, "%s.%s takes the %s of `%s`, which was built from a positivity activation but is no longer provably positive (sign %s)" % (cls.name, fi.name, how, brief(operand, 80)[:70], s), construct="%s of %s" % (how, brief(operand, 60)[:60])))
    if n < 10:
        raise AnalysisIncomplete("INV-POS: %d instances (< 10 confirmed by hand)" % n)
    return res


def _sign_with_props(p, cls, e, memo):
    """sign_of with self.<property> replaced by the property's returned expression."""
    class R(ast.NodeTransformer):
        def visit_Attribute(self, node):
            ch = attr_chain(node)
            if ch and ch.startswith("self.") and ch.count(".") == 1:
                ai = p.attrs(cls).get(node.attr)
                if ai is not None and ai.func is not None and ai.func.is_property:
                    rets = [n for n in ast.walk(ai.func.node) if isinstance(n, ast.Return)]
                    if len(rets) == 1:
                        from ..symexp import clone

                        return self.visit(clone(rets[0].value))
            return self.generic_visit(node)

    from ..symexp import clone

    e2 = R().visit(clone(e))
    return sign_of(e2)


# ---------------------------------------------------------------------------------------
# C11
# ---------------------------------------------------------------------------------------

ACCESSORS = ("weight", "weight_inverse", "logabsdet", "forward_no_cache", "inverse_no_cache")


def lin_complete_rule(ctx):
    p = ctx.p
    base = p.find_class("Linear", "nflows.transforms.linear")
    res = RuleResult("LIN-COMPLETE", "every concrete linear parameterisation reaches a non-abstract body for all accessors and both no-cache paths")
    for cls in p.subclasses_of(base):
        if cls is base:
            continue
        for a in ACCESSORS + ("weight_and_logabsdet", "weight_inverse_and_logabsdet"):
            m = cls.lookup_method(a)
            if m is None or _only_raises(m):
                res.fail(Finding("LIN-COMPLETE", cls.module, cls.name, cls.node, "%s.%s resolves to `raise NotImplementedError`: the cached path (and direct use) of this accessor fails" % (cls.name, a), construct="%s.%s" % (cls.name, a)))
            else:
                res.ok("%s.%s -> %s" % (cls.name, a, m.qualname))
    return res


def _diag_stores(fi):
    """[(local matrix name, value text)] for stores `M[self.diag_indices[0], self.diag_indices[1]] = v`
    (also the torch.diagonal(M).copy_(v) / M.diagonal().copy_(v) spellings)."""
    out = []
    if fi is None:
        return out
    for n in ast.walk(fi.node):
        if isinstance(n, ast.Assign) and len(n.targets) == 1 and isinstance(n.targets[0], ast.Subscript) and isinstance(n.targets[0].value, ast.Name):
            idx = norm_text(n.targets[0].slice).replace(" ", "")
            if idx in ("(self.diag_indices[0],self.diag_indices[1])",):
                out.append((n.targets[0].value.id, norm_text(n.value)))
        elif isinstance(n, ast.Call) and isinstance(n.func, ast.Attribute) and n.func.attr in ("copy_", "fill_") and n.args:
            r = n.func.value
            if isinstance(r, ast.Call) and _last(r) == "diagonal":
                base = r.func.value if isinstance(r.func, ast.Attribute) and not (isinstance(r.func.value, ast.Name) and r.func.value.id == "torch") else (r.args[0] if r.args else None)
                if isinstance(base, ast.Name):
                    out.append((base.id, norm_text(n.args[0])))
    return out


def lin_pos_rule(ctx):
    p = ctx.p
    res_pos = RuleResult("LIN-POS", "the diagonal of the factor is positive for every parameter value")
    spec = {
        "LULinear": ("nflows.transforms.lu", "upper_diag", "log"),
        "QRLinear": ("nflows.transforms.qr", "log_upper_diag", "exp"),
        "SVDLinear": ("nflows.transforms.svd", "diagonal", "log"),
    }
    for cname, (modname, diag_attr, kind) in spec.items():
        cls = p.find_class(cname, modname)
        ai = p.attrs(cls).get(diag_attr)
        if kind == "exp":
            if ai is None:
                res_pos.undecide("%s.%s" % (cname, diag_attr), "attribute missing")
            else:
                res_pos.ok("%s: diagonal = exp(log_upper_diag) > 0 (the factor's diagonal expression is tied to it by LIN-LOGDET)" % cname)
        elif ai is not None and ai.func is not None and ai.kind == "PROPERTY":
            rets = [n for n in ast.walk(ai.func.node) if isinstance(n, ast.Return)]
            s = sign_of(rets[0].value) if len(rets) == 1 else "ANY"
            if s == POS:
                res_pos.ok("%s.%s = %s is positive" % (cname, diag_attr, norm_text(rets[0].value)))
            else:
                res_pos.fail(Finding("LIN-POS", ai.func.module, ai.func.qualname, ai.func.node, "%s.%s = `%s` is not provably positive (sign %s): the factor can be singular and log of it undefined" % (cname, diag_attr, norm_text(rets[0].value) if rets else "?", s), construct="sign of %s.%s" % (cname, diag_attr)))
        else:
            res_pos.undecide("%s.%s" % (cname, diag_attr), "not a property")
    return res_pos


def _flat_product(e, num, den):
    """flatten products / quotients into numerator and denominator factor lists"""
    if isinstance(e, ast.BinOp) and isinstance(e.op, ast.Mult):
        _flat_product(e.left, num, den)
        _flat_product(e.right, num, den)
    elif isinstance(e, ast.BinOp) and isinstance(e.op, ast.Div):
        _flat_product(e.left, num, den)
        _flat_product(e.right, den, num)
    else:
        num.append(e)


def _call_parts(c):
    """(last name, [operands]) of a torch function / method call, receiver first for methods"""
    f = c.func
    if isinstance(f, ast.Attribute):
        is_mod = isinstance(f.value, ast.Name) and f.value.id in ("torch", "F", "np")
        return f.attr, (list(c.args) if is_mod else [f.value] + list(c.args))
    if isinstance(f, ast.Name):
        return f.id, list(c.args)
    return "", []


def _is_inner(e, x, q):
    """e == <x rows, q>: x @ q, matmul / mv / mm(x, q), (x * q).sum(-1)"""
    if isinstance(e, ast.BinOp) and isinstance(e.op, ast.MatMult):
        return norm_text(e.left) == x and norm_text(e.right) == q
    if isinstance(e, ast.Call):
        last, ops = _call_parts(e)
        if last in ("matmul", "mv", "mm") and len(ops) == 2:
            return norm_text(ops[0]) == x and norm_text(ops[1]) == q
        from ..astutil import as_reduction

        red = as_reduction(e, ("sum",))
        if red is not None and red[2] is not None and const_number(red[2]) in (-1, 1):
            inner = red[1]
            if isinstance(inner, ast.BinOp) and isinstance(inner.op, ast.Mult):
                return {norm_text(inner.left), norm_text(inner.right)} == {x, q}
    return False


def _is_sqnorm(e, q, paired):
    """e == |q|^2: the loop variable paired with the row-wise squared norms, or sum(q**2), q @ q,
    dot(q, q), (q * q).sum(), q.norm() ** 2"""
    from ..astutil import as_reduction

    t = norm_text(e)
    if paired is not None and t == paired:
        return True
    if isinstance(e, ast.BinOp) and isinstance(e.op, ast.MatMult):
        return norm_text(e.left) == q and norm_text(e.right) == q
    if isinstance(e, ast.BinOp) and isinstance(e.op, ast.Pow) and const_number(e.right) == 2 and isinstance(e.left, ast.Call):
        last, ops = _call_parts(e.left)
        return last == "norm" and len(ops) == 1 and norm_text(ops[0]) == q
    if isinstance(e, ast.Call):
        last, ops = _call_parts(e)
        if last in ("dot", "inner", "vdot") and len(ops) == 2:
            return norm_text(ops[0]) == q and norm_text(ops[1]) == q
        red = as_reduction(e, ("sum",))
        if red is not None:
            return _is_square_of(red[1], q)
    return False


def _is_square_of(e, q):
    if isinstance(e, ast.BinOp) and isinstance(e.op, ast.Pow) and const_number(e.right) == 2:
        return norm_text(e.left) == q
    if isinstance(e, ast.BinOp) and isinstance(e.op, ast.Mult):
        return norm_text(e.left) == q and norm_text(e.right) == q
    if isinstance(e, ast.Call):
        last, ops = _call_parts(e)
        if last == "square" and len(ops) == 1:
            return norm_text(ops[0]) == q
        if last == "pow" and len(ops) == 2 and const_number(ops[1]) == 2:
            return norm_text(ops[0]) == q
    return False


def _reflection_verdict(e, x, q, paired):
    """'ok' | ('bad', why) | None (unknown form) for  e == x - outer(<x, q>, (2 / |q|^2) q)."""
    terms = signed_terms(e)
    if len(terms) != 2:
        return None
    plus = [t for sg, t in terms if sg > 0]
    minus = [t for sg, t in terms if sg < 0]
    if len(plus) == 2 and not minus and x in [norm_text(t) for t in plus] and any(isinstance(c, ast.Call) and _call_parts(c)[0] in ("ger", "outer") for t in plus for c in uwalk(t)):
        return ("bad", "the rank-one term is added to the running outputs; a reflection subtracts it")
    if len(plus) != 1 or len(minus) != 1:
        return None
    if norm_text(plus[0]) != x:
        return ("bad", "the reflection must be subtracted from the running outputs `%s`, not from `%s`" % (x, norm_text(plus[0])[:40]))
    num, den = [], []
    _flat_product(minus[0], num, den)
    # exactly one outer product among the numerator factors
    outers = [f for f in num if isinstance(f, ast.Call) and _call_parts(f)[0] in ("ger", "outer")]
    if len(outers) != 1:
        return None
    last, ops = _call_parts(outers[0])
    if len(ops) != 2:
        return None
    num = [f for f in num if f is not outers[0]]
    _flat_product(ops[0], lnum := [], lden := [])
    _flat_product(ops[1], rnum := [], rden := [])
    vec_l = [f for f in lnum if const_number(f) is None and not _is_sqnorm(f, q, paired)]
    vec_r = [f for f in rnum if const_number(f) is None and not _is_sqnorm(f, q, paired)]
    scal_num = [f for f in num + lnum + rnum if f not in vec_l and f not in vec_r]
    scal_den = den + lden + rden
    if len(vec_l) != 1 or len(vec_r) != 1:
        return None
    if not _is_inner(vec_l[0], x, q):
        if _is_inner(vec_l[0], x, norm_text(vec_l[0].right) if isinstance(vec_l[0], ast.BinOp) else "?") or isinstance(vec_l[0], (ast.BinOp, ast.Call)):
            return ("bad", "the projection `%s` is not the inner product of the running outputs `%s` with `%s`" % (norm_text(vec_l[0])[:50], x, q))
        return None
    if norm_text(vec_r[0]) != q:
        return ("bad", "the outer product uses `%s` where the same vector `%s` is required" % (norm_text(vec_r[0])[:40], q))
    consts = [const_number(f) for f in scal_num]
    if any(c is None for c in consts):
        if all(c is not None or _is_sqnorm(f, q, paired) for c, f in zip(consts, scal_num)):
            return ("bad", "the squared norm multiplies the reflection instead of dividing it")
        return None
    coef = 1.0
    for c in consts:
        coef *= c
    dconst = 1.0
    norms = 0
    for f in scal_den:
        c = const_number(f)
        if c is not None:
            dconst *= c
        elif _is_sqnorm(f, q, paired):
            norms += 1
        else:
            return ("bad", "the reflection is divided by `%s`, which is not the squared norm of `%s`" % (norm_text(f)[:40], q))
    if norms != 1:
        return ("bad", "the reflection must be divided by the squared norm of `%s` exactly once (found %d)" % (q, norms))
    if abs(coef / dconst - 2.0) > 1e-12:
        return ("bad", "the reflection coefficient is %g / |q|^2; a Householder reflection needs 2 / |q|^2" % (coef / dconst))
    return "ok"


def _row_order(e, what="self.q_vectors"):
    """'stored' | 'reversed' | ('bad', why) | None for the rows handed to _apply_transforms"""
    t = norm_text(e).replace(" ", "")
    if t == what:
        return "stored"
    if isinstance(e, ast.Call):
        last, ops = _call_parts(e)
        if last == "flip" and ops and norm_text(ops[0]) == what:
            dims = ops[1:] + [k.value for k in e.keywords if k.arg == "dims"]
            if len(dims) == 1:
                d = dims[0]
                ds = [const_number(x) for x in d.elts] if isinstance(d, (ast.Tuple, ast.List)) else [const_number(d)]
                if ds == [0]:
                    return "reversed"
                return ("bad", "flip over dims %s does not reverse the order of the reflections" % ds)
    if isinstance(e, ast.Subscript) and norm_text(e.value) == what:
        idx = e.slice
        if isinstance(idx, ast.Call) and _call_parts(idx)[0] == "arange":
            args = _call_parts(idx)[1]
            ta = [norm_text(a).replace(" ", "") for a in args]
            k = "self.num_transforms"
            if ta in ([k + "-1", "-1", "-1"],):
                return "reversed"
            if ta in ([k], ["0", k], ["0", k, "1"]):
                return "stored"
            return ("bad", "rows torch.arange(%s) are neither all rows in stored order nor all rows reversed" % ", ".join(ta))
    return None


def orth_rule(ctx):
    p = ctx.p
    res = RuleResult("ORTH-REV", "HouseholderSequence.inverse applies the same reflections in exactly reversed order; each reflection subtracts outer(x.q, (2/|q|^2) q) with one and the same q")
    hs = p.find_class("HouseholderSequence", "nflows.transforms.orthogonal")
    ap = hs.methods.get("_apply_transforms")
    fwd, inv = hs.methods.get("forward"), hs.methods.get("inverse")
    for m, nm in ((ap, "_apply_transforms"), (fwd, "forward"), (inv, "inverse")):
        if m is None:
            raise AnalysisIncomplete("HouseholderSequence.%s missing" % nm)
    orders = {}
    for fi, nm in ((fwd, "forward"), (inv, "inverse")):
        x = fi.params()[0][0]
        for path in paths_of(fi.node):
            if path.kind != "return":
                continue
            r = path.ret
            if not (isinstance(r, ast.Call) and attr_chain(r.func) in ("self._apply_transforms", "HouseholderSequence._apply_transforms") and len(r.args) == 2):
                res.undecide("HouseholderSequence.%s" % nm, "does not return self._apply_transforms(inputs, rows)")
                continue
            if norm_text(r.args[0]) != x:
                res.fail(Finding("ORTH-REV", fi.module, fi.qualname, path.ret_node, "%s must apply the reflections to its inputs" % nm))
                continue
            rows = r.args[1]
            # a zero-argument accessor whose every return is `self.q_vectors` stands for the stored rows (what else
            # it does on the way -- a write to the parameter -- is the ownership analysis' business, C13)
            accessors = {}
            for an, am in hs.methods.items():
                if len(am.params()) == 0 or (len(am.params()) == 1 and am.params()[0][0] == "self"):
                    rets = [x.value for x in ast.walk(am.node) if isinstance(x, ast.Return)]
                    if rets and all(v is not None and norm_text(v) == "self.q_vectors" for v in rets):
                        accessors["self.%s()" % an] = True
            if accessors and any(isinstance(x, ast.Call) and norm_text(x) in accessors for x in ast.walk(rows)):
                class _Acc(ast.NodeTransformer):
                    def visit_Call(self, n):
                        if norm_text(n) in accessors:
                            return ast.copy_location(ast.parse("self.q_vectors", mode="eval").body, n)
                        return self.generic_visit(n)

                import copy as _copy

                rows = ast.fix_missing_locations(_Acc().visit(_copy.deepcopy(rows)))
            o = _row_order(rows)
            if o is None:
                res.undecide("HouseholderSequence.%s" % nm, "cannot decide the order of the rows `%s`" % norm_text(r.args[1])[:70])
            elif isinstance(o, tuple):
                res.fail(Finding("ORTH-REV", fi.module, fi.qualname, path.ret_node, "%s: %s" % (nm, o[1])))
            else:
                orders.setdefault(nm, set()).add(o)
    if orders.get("forward") and orders.get("inverse"):
        fo, io = orders["forward"], orders["inverse"]
        if len(fo) == 1 and len(io) == 1 and fo != io:
            res.ok("forward applies the rows %s, inverse %s" % (next(iter(fo)), next(iter(io))))
        else:
            res.fail(Finding("ORTH-REV", inv.module, inv.qualname, inv.node, "inverse must apply exactly the same reflections as forward in the opposite order (forward: %s, inverse: %s)" % (sorted(fo), sorted(io)), construct="order of the reflections in inverse"))
    # the reflection
    from ..symexp import body_expansion

    lp = [n for n in ap.node.body if isinstance(n, ast.For)]
    rets = [n for n in ap.node.body if isinstance(n, ast.Return)]
    if len(lp) != 1 or len(rets) != 1 or not (isinstance(rets[0].value, ast.Tuple) and isinstance(rets[0].value.elts[0], ast.Name)):
        res.undecide("_apply_transforms", "expected one loop and `return <outputs>, <logabsdet>`")
        return res
    loop = lp[0]
    carried = rets[0].value.elts[0].id
    # the returned name may be a plain copy, made after the loop, of the variable the loop carries
    for st in ap.node.body[ap.node.body.index(loop) + 1 :]:
        if isinstance(st, ast.Assign) and len(st.targets) == 1 and isinstance(st.targets[0], ast.Name) and st.targets[0].id == carried and isinstance(st.value, ast.Name):
            carried = st.value.id
    params = [a for a, _ in ap.params()]
    xin, rows = params[0], params[1]
    # the carried tensor starts as the inputs
    pre = body_expansion([st for st in ap.node.body[: ap.node.body.index(loop)]], ap.node) or {}
    if norm_text(pre.get(carried, ast.Name(id=carried, ctx=ast.Load()))) != xin:
        res.fail(Finding("ORTH-REV", ap.module, ap.qualname, loop, "the running outputs must start as the inputs", construct="initial value of the reflections"))
    # rows paired with their own squared norm
    q = paired = template = None
    it = loop.iter
    if isinstance(loop.target, ast.Tuple) and len(loop.target.elts) == 2 and isinstance(it, ast.Call) and norm_text(it.func) == "zip" and len(it.args) == 2:
        q, paired = norm_text(loop.target.elts[0]), norm_text(loop.target.elts[1])
        a0, a1 = it.args
        a1e = pre.get(a1.id, a1) if isinstance(a1, ast.Name) else a1
        from ..astutil import as_reduction

        red = as_reduction(a1e, ("sum",))
        template = None
        if red is None:
            # an elementwise function of the squared norms (2.0 / sum(q**2, -1) hoisted out of the loop): the
            # pairing is with g(|q|^2); g is put back at the use of the paired name in the body
            def strip(e):
                r = as_reduction(e, ("sum",))
                if r is not None:
                    return r, ast.Name(id="__sqnorm__", ctx=ast.Load())
                if isinstance(e, ast.BinOp) and isinstance(e.op, (ast.Mult, ast.Div)):
                    for side, other, left in ((e.left, e.right, True), (e.right, e.left, False)):
                        if const_number(other) is not None:
                            got = strip(side)
                            if got is not None:
                                r, t = got
                                return r, ast.BinOp(left=t if left else other, op=e.op, right=other if left else t)
                return None

            got = strip(a1e)
            if got is not None:
                red, template = got
        if norm_text(a0) == rows and red is not None and red[2] is not None and const_number(red[2]) in (-1, 1) and _is_square_of(red[1], rows):
            res.ok("each row is paired with its own squared norm" + (" (through `%s`)" % norm_text(template) if template is not None else ""))
        else:
            res.fail(Finding("ORTH-REV", ap.module, ap.qualname, loop, "rows must be paired with their own squared norms (zip(q_vectors, sum(q_vectors**2, -1)))"))
            return res
    elif isinstance(loop.target, ast.Name) and norm_text(it) == rows:
        q = loop.target.id
    else:
        # rows normalised up front by F.normalize: that divides by max(|q|, eps), not by |q| (T-OPS) -- for a vector
        # shorter than eps (1e-12 by default) the step is I - 2 r^2 u u^T with r = |q| / eps < 1: not a reflection,
        # not orthogonal, not its own inverse, while the log-det stays 0
        norm_calls = [c for c in ast.walk(ap.node) if isinstance(c, ast.Call) and isinstance(c.func, ast.Attribute) and c.func.attr == "normalize" and c.args and norm_text(c.args[0]) == rows]
        if norm_calls and not any(k.arg == "eps" and const_number(k.value) == 0 for k in norm_calls[0].keywords):
            res.fail(Finding("ORTH-REV", ap.module, ap.qualname, norm_calls[0], "the reflection vectors are normalised with `%s`, which divides by max(|q|, eps) (eps = 1e-12 unless given), not by |q|: for a vector shorter than eps the step x - 2 (x.u) u uses u with |u| < 1 and is neither a reflection nor orthogonal (its determinant is not +-1, it is not undone by the reversed sequence), while the transform still reports a zero log-det; divide by the squared norm itself (a reflection depends only on the direction of q)" % norm_text(norm_calls[0])[:50], construct="normalisation of the reflection vectors"))
            return res
        res.undecide("_apply_transforms", "loop is not over the rows (optionally zipped with their squared norms)")
        return res
    env = body_expansion(loop.body, ap.node)
    if env is None or carried not in env:
        res.undecide("_apply_transforms", "the loop body does not rebind `%s` on a single path" % carried)
        return res
    upd = env[carried]
    if template is not None:
        class _Put(ast.NodeTransformer):
            def visit_Name(self, n):
                if n.id == paired and isinstance(n.ctx, ast.Load):
                    return copy.deepcopy(template)
                return n

        upd = _Put().visit(copy.deepcopy(upd))
        paired = "__sqnorm__"
    # torch.addr(M, a, b, beta=1, alpha=k) is M + k * outer(a, b): the fused spelling of the rank-one update
    class _Addr(ast.NodeTransformer):
        def visit_Call(self, n):
            self.generic_visit(n)
            if norm_text(n.func) in ("torch.addr",) and len(n.args) == 3 and not any(k.arg not in ("alpha",) for k in n.keywords):
                alpha = next((k.value for k in n.keywords if k.arg == "alpha"), ast.Constant(value=1.0))
                a = const_number(alpha)
                outer = ast.Call(func=ast.Attribute(value=ast.Name(id="torch", ctx=ast.Load()), attr="ger", ctx=ast.Load()), args=[n.args[1], n.args[2]], keywords=[])
                if a is not None and a < 0:
                    term = outer if a == -1 else ast.BinOp(left=ast.Constant(value=-a), op=ast.Mult(), right=outer)
                    if a != -1:
                        # fold the factor into the second vector, where the reflection forms expect it
                        term = ast.Call(func=outer.func, args=[n.args[1], ast.BinOp(left=ast.Constant(value=-a), op=ast.Mult(), right=n.args[2])], keywords=[])
                    return ast.copy_location(ast.BinOp(left=n.args[0], op=ast.Sub(), right=term), n)
                if a is not None and a > 0:
                    term = outer if a == 1 else ast.Call(func=outer.func, args=[n.args[1], ast.BinOp(left=ast.Constant(value=a), op=ast.Mult(), right=n.args[2])], keywords=[])
                    return ast.copy_location(ast.BinOp(left=n.args[0], op=ast.Add(), right=term), n)
            return n

    if any(isinstance(x, ast.Call) and norm_text(x.func) == "torch.addr" for x in ast.walk(upd)):
        upd = ast.fix_missing_locations(_Addr().visit(copy.deepcopy(upd)))
    v = _reflection_verdict(upd, carried, q, paired)
    if v == "ok":
        res.ok("reflection: %s - outer(<%s, q>, (2 / |q|^2) q), threaded through the loop" % (carried, carried))
    elif isinstance(v, tuple):
        res.fail(Finding("ORTH-REV", ap.module, ap.qualname, loop, "each step must be the Householder reflection outputs - outer(outputs @ q, (2/|q|^2) * q): " + v[1]))
    else:
        res.undecide("_apply_transforms", "the update `%s` is not of a known reflection form" % norm_text(env[carried])[:90])
    return res


# ---------------------------------------------------------------------------------------
# LD-STATE (C01 / C02 / C03): no stale copy of stored state
# ---------------------------------------------------------------------------------------


def _roots_of(expr, fnode, depth=0):
    """constructor-local names an expression is computed from, through simple local assignments
    (`scale = torch.as_tensor(scale)` keeps the root `scale`)"""
    out = set()
    if expr is None:
        return out
    # the sizes handed to a tensor factory are not values the tensor stores (torch.zeros(shape) holds zeros)
    size_args = set()
    for n in ast.walk(expr):
        if isinstance(n, ast.Call) and _last(n) in ("zeros", "ones", "empty", "randn", "rand", "eye", "new_zeros", "new_ones", "new_empty") and not any(k.arg in ("out",) for k in n.keywords):
            for a in n.args:
                for x in ast.walk(a):
                    size_args.add(id(x))
    for n in ast.walk(expr):
        if isinstance(n, ast.Name) and id(n) not in size_args and n.id not in ("torch", "np", "nn", "F", "math", "self", "init", "check", "torchutils"):
            out.add(n.id)
    if depth < 4:
        more = set()
        for st in ast.walk(fnode):
            if isinstance(st, ast.Assign) and len(st.targets) == 1 and isinstance(st.targets[0], ast.Name) and st.targets[0].id in out:
                more |= _roots_of(st.value, fnode, depth + 1) if depth < 3 else set()
        out |= more
    return out


def _stores_value(expr):
    """the constructor-local name whose value `expr` stores unchanged (up to tensor wrappers)"""
    e = expr
    for _ in range(6):
        if isinstance(e, ast.Name):
            return e.id
        if isinstance(e, ast.Call):
            last = _last(e)
            if last in ("Parameter", "as_tensor", "tensor", "from_numpy", "clone", "detach", "float", "double", "to", "contiguous", "Tensor", "long"):
                if isinstance(e.func, ast.Attribute) and not (isinstance(e.func.value, ast.Name) and e.func.value.id in ("torch", "nn", "np")) and not e.args:
                    e = e.func.value
                    continue
                if e.args:
                    e = e.args[0]
                    continue
        return None
    return None


def ld_state_rule(ctx):
    """A tensor attribute computed once in the constructor from a value that is also stored as
    a parameter or persistent buffer is a second copy of restorable state: load_state_dict, an
    optimiser step or an in-place update changes the stored one and not the copy, and whatever
    reads the copy (typically the log-det) no longer belongs to the map the stored one defines."""
    p = ctx.p
    res = RuleResult("LD-STATE", "no evaluation path reads a constructor-time copy (non-persistent buffer / plain tensor attribute) of a quantity that is also stored as a parameter or persistent buffer")
    n_cls = 0
    for cls in p.all_classes():
        if not cls.is_nn_module():
            continue
        attrs = p.attrs(cls)
        stored = {}  # root name -> attribute that stores it persistently
        for name, ai in attrs.items():
            if ai.cls is not cls or ai.func is None or ai.value is None:
                continue
            if ai.kind == "PARAM" or (ai.kind == "BUFFER" and ai.extra is True):
                root = _stores_value(ai.value)
                if root is not None:
                    stored.setdefault(root, name)
                    # through local aliases: scale = torch.as_tensor(scale)
                    for r in _roots_of(ast.Name(id=root, ctx=ast.Load()), ai.func.node):
                        stored.setdefault(r, name)
        persistent = {n_ for n_, a_ in attrs.items() if a_.kind == "PARAM" or (a_.kind == "BUFFER" and a_.extra is True)}
        if not stored and not persistent:
            continue
        n_cls += 1
        for name, ai in attrs.items():
            if ai.cls is not cls or ai.func is None or ai.value is None:
                continue
            is_copy_kind = (ai.kind == "BUFFER" and ai.extra is False) or (ai.kind == "PLAIN" and isinstance(ai.value, ast.Call) and (norm_text(ai.value.func).startswith("torch.") or _last(ai.value) in ("log", "exp", "abs", "argsort", "inverse", "reciprocal", "sqrt")))
            # ... or anything a helper of the class computes from a parameter / persistent buffer read through self
            # (a slice, an index list, a Python number derived from the buffer's *values*)
            if not is_copy_kind and ai.kind == "PLAIN" and isinstance(ai.value, ast.Call) and isinstance(ai.value.func, ast.Attribute) and isinstance(ai.value.func.value, ast.Name) and ai.value.func.value.id in ("self", "cls", cls.name) and cls.lookup_method(ai.value.func.attr) is not None:
                if any(isinstance(x, ast.Attribute) and isinstance(x.value, ast.Name) and x.value.id == "self" and x.attr in persistent for a_ in list(ai.value.args) + [k.value for k in ai.value.keywords] for x in ast.walk(a_)):
                    is_copy_kind = True
            if not is_copy_kind:
                continue
            if _stores_value(ai.value) is not None and ai.kind == "PLAIN":
                continue  # a plain alias of an argument (configuration), not a derived tensor
            roots = _roots_of(ai.value, ai.func.node)
            via_self = {n.attr for n in ast.walk(ai.value) if isinstance(n, ast.Attribute) and isinstance(n.value, ast.Name) and n.value.id == "self"}
            src = [stored[r] for r in roots if r in stored] + [a for a in via_self if a in attrs and (attrs[a].kind == "PARAM" or (attrs[a].kind == "BUFFER" and attrs[a].extra is True))]
            src = [a for a in src if a != name]
            if not src:
                continue
            # read outside the constructor?
            readers = []
            for mname, m in cls.methods.items():
                if mname == "__init__" or m is ai.func:
                    continue
                for n in ast.walk(m.node):
                    if isinstance(n, ast.Attribute) and n.attr == name and isinstance(n.value, ast.Name) and n.value.id == "self" and isinstance(n.ctx, ast.Load):
                        readers.append(m.qualname)
                        break
            # refreshed wherever the source may change? (a write to the copy outside the constructor)
            refreshed = any(isinstance(n, (ast.Assign, ast.AugAssign)) and any(isinstance(t, ast.Attribute) and t.attr == name for t in (n.targets if isinstance(n, ast.Assign) else [n.target])) for mname, m in cls.methods.items() if mname != "__init__" and m is not ai.func for n in ast.walk(m.node))
            refreshed = refreshed or any(isinstance(n, ast.Call) and isinstance(n.func, ast.Attribute) and n.func.attr in ("copy_", "fill_") and isinstance(n.func.value, ast.Attribute) and n.func.value.attr == name for mname, m in cls.methods.items() if mname != "__init__" for n in ast.walk(m.node))
            if readers and not refreshed:
                res.fail(Finding("LD-STATE", cls.module, "%s.__init__" % cls.name, ai.node, "`%s` is computed once in the constructor from the quantity stored in `%s` (%s) and is not part of the state dict: after load_state_dict / a parameter update `%s` changes and `%s` does not, yet %s reads it" % (name, src[0], "parameter" if attrs[src[0]].kind == "PARAM" else "persistent buffer", src[0], name, ", ".join(sorted(set(readers))[:3])), construct="constructor-time copy %s of %s.%s" % (name, cls.name, src[0])))
            else:
                res.ok("%s.%s: derived from %s, %s" % (cls.name, name, src[0], "refreshed outside the constructor" if refreshed else "never read"), nontrivial=False)
        res.ok("%s: stored quantities %s have no stale constructor-time copy" % (cls.name, sorted(set(stored.values()))[:4]))
    # memoised derived state: a method (not the constructor) stores, in a plain attribute or a
    # container kept in one, a value computed from a parameter / persistent buffer, and nothing
    # clears it where that state is replaced (load_state_dict for buffers; also train() for
    # parameters, which an optimiser updates)
    from ..own import ATTR_EFFECTS, EFFECTS

    for cls in p.all_classes():
        if not cls.is_nn_module():
            continue
        attrs = p.attrs(cls)
        stored_attrs = {n for n, a in attrs.items() if a.kind == "PARAM" or (a.kind == "BUFFER" and a.extra is True)}
        if not stored_attrs:
            continue
        # properties that read stored attributes count as stored too
        derived_props = set()
        for n, a in attrs.items():
            if a.kind == "PROPERTY" and a.func is not None:
                reads = {x.attr for x in ast.walk(a.func.node) if isinstance(x, ast.Attribute) and isinstance(x.value, ast.Name) and x.value.id == "self"}
                if reads & stored_attrs:
                    derived_props.add(n)
        for mname, m in cls.methods.items():
            if mname == "__init__" or m.cls is not cls:
                continue
            local_defs = {}
            for st in ast.walk(m.node):
                if isinstance(st, ast.Assign) and len(st.targets) == 1 and isinstance(st.targets[0], ast.Name):
                    local_defs.setdefault(st.targets[0].id, []).append(st.value)

            def deps(e, depth=0, seen=None):
                seen = seen if seen is not None else set()
                out = set()
                for x in ast.walk(e):
                    if isinstance(x, ast.Attribute) and isinstance(x.value, ast.Name) and x.value.id == "self":
                        out.add(x.attr)
                    elif isinstance(x, ast.Name) and x.id in local_defs and depth < 4 and x.id not in seen:
                        seen.add(x.id)
                        for v in local_defs[x.id]:
                            out |= deps(v, depth + 1, seen)
                return out

            for st in ast.walk(m.node):
                if not isinstance(st, ast.Assign):
                    continue
                for t in st.targets:
                    root = t
                    while isinstance(root, ast.Subscript):
                        root = root.value
                    if not (isinstance(root, ast.Attribute) and isinstance(root.value, ast.Name) and root.value.id == "self"):
                        continue
                    memo = root.attr
                    ai = attrs.get(memo)
                    if ai is None or ai.kind in ("PARAM", "BUFFER", "MODULE", "MODULELIST", "EXTMODULE") or memo in stored_attrs:
                        continue
                    if any((c.name, memo) in ATTR_EFFECTS or (c.name, memo) in EFFECTS or (c.name, memo.split(".")[0]) in ATTR_EFFECTS for c in cls.repo_mro()):
                        continue  # the Linear cache: its life-cycle is C10's typestate analysis
                    d = deps(st.value)
                    src = sorted((d & stored_attrs) | (d & derived_props))
                    if not src:
                        continue
                    # cleared where the stored state is replaced?
                    def clears(meth):
                        f = cls.lookup_method(meth)
                        if f is None or f.cls is None or not f.cls.is_subclass_of(cls) and f.cls is not cls:
                            return False
                        for n in ast.walk(f.node):
                            if isinstance(n, ast.Call) and isinstance(n.func, ast.Attribute) and n.func.attr in ("clear", "invalidate") and isinstance(n.func.value, ast.Attribute) and n.func.value.attr == memo:
                                return True
                            if isinstance(n, ast.Assign) and any(isinstance(tt, ast.Attribute) and tt.attr == memo for tt in n.targets):
                                return True
                        return False

                    needs = ["_load_from_state_dict"] + (["train"] if any(attrs[a].kind == "PARAM" for a in src if a in attrs) else [])
                    missing = [h for h in needs if not clears(h)]
                    if missing:
                        res.fail(Finding("LD-STATE", cls.module, m.qualname, st, "`self.%s` memoises a value computed from the stored %s and is not cleared in %s: after the stored value is replaced (load_state_dict%s) the memo still answers for the old one" % (memo, ", ".join("`%s`" % a for a in src), " / ".join(missing), ", an optimiser step" if "train" in needs else ""), construct="memo %s.%s" % (cls.name, memo)))
                    else:
                        res.ok("%s.%s: memo of %s cleared in %s" % (cls.name, memo, src, needs), nontrivial=False)
    if n_cls < 4:
        raise AnalysisIncomplete("LD-STATE: %d module classes with stored constructor values (< 4; the count on the pinned tree is larger, the floor leaves room for merged call sites confirmed by hand)" % n_cls)
    return res


def orth_init_rule(ctx):
    """ORTH-INIT: every reflection vector the constructor builds is non-zero and every index it
    writes exists, for every accepted (features, num_transforms).  The initial vectors are rows
    of torch.eye(R, C): a row beyond the C-th is zero, and a zero vector makes 2 / |q|^2 infinite
    (NaN outputs).  R, C and the written column indices are closed integer formulas of the
    constructor arguments; they are evaluated on a grid of accepted arguments (the checker's own
    integer evaluator), under the condition of the branch they stand in."""
    from ..astutil import _int_eval, _NoEval

    p = ctx.p
    res = RuleResult("ORTH-INIT", "HouseholderSequence: the initial reflection vectors are non-zero and the constructor's index writes are in range for every accepted (features, num_transforms)")
    hs = p.find_class("HouseholderSequence", "nflows.transforms.orthogonal")
    init = hs.methods.get("__init__")
    if init is None:
        raise AnalysisIncomplete("HouseholderSequence.__init__ missing")
    params = [a for a, _ in init.params()]
    if params[:2] != ["features", "num_transforms"]:
        raise AnalysisIncomplete("HouseholderSequence.__init__ signature changed")
    GRID = [(f, k) for f in range(1, 7) for k in range(1, 15)]
    if getattr(ctx, "tier", "quick") == "thorough":
        GRID = [(f, k) for f in range(1, 25) for k in range(1, 60)]

    # the constructor, and the helpers of the class it hands exactly (features, num_transforms) to
    scopes = [init]
    for c in ast.walk(init.node):
        if isinstance(c, ast.Call) and isinstance(c.func, ast.Attribute) and isinstance(c.func.value, ast.Name) and c.func.value.id in ("self", "HouseholderSequence", "cls") and c.func.attr in hs.methods:
            m = hs.methods[c.func.attr]
            mp = [a for a, _ in m.params()]
            passed = [norm_text(a) for a in c.args] + ["%s=%s" % (k.arg, norm_text(k.value)) for k in c.keywords]
            if mp and set(mp) <= {"features", "num_transforms"} and all(x in ("features", "num_transforms", "features=features", "num_transforms=num_transforms") for x in passed) and [x.split("=")[0] for x in passed] == mp[: len(passed)] and all(m is not x for x in scopes):
                scopes.append(m)
    _int_eval0 = _int_eval
    n = 0
    undecided = []

    def scan(scope):
        nonlocal n
        def enclosing_conds(node):
            out = []
            cur = node
            while cur is not None and cur is not scope.node:
                par = getattr(cur, "_parent", None)
                if isinstance(par, ast.If):
                    if cur in par.body:
                        out.append((par.test, True))
                    elif cur in par.orelse:
                        out.append((par.test, False))
                if isinstance(par, ast.FunctionDef) and par is not scope.node:
                    return None  # inside a nested helper: not a constructor-level expression
                cur = par
            return out

        def holds(conds, env):
            for t, pol in conds:
                try:
                    if bool(_int_eval(t, env)) != pol:
                        return False
                except _NoEval:
                    continue
            return True

        # constructor locals assigned exactly once are read through (num_pairs = num_transforms // 2)
        local_defs = {}
        for st in ast.walk(scope.node):
            if isinstance(st, ast.Assign) and len(st.targets) == 1 and isinstance(st.targets[0], ast.Name):
                local_defs.setdefault(st.targets[0].id, []).append(st.value)

        class _Res(ast.NodeTransformer):
            def visit_Name(self, node):
                vals = local_defs.get(node.id, [])
                if node.id not in ("features", "num_transforms") and len(vals) == 1 and isinstance(node.ctx, ast.Load):
                    from ..symexp import clone

                    return self.visit(clone(vals[0]))
                return node

        def _int_eval(e, env, _orig_eval=_int_eval0):  # noqa: F811
            from ..symexp import clone

            return _orig_eval(_Res().visit(clone(e)), env)

        for node in ast.walk(scope.node):
            # (a) torch.eye(R, C): rows >= C are zero
            if isinstance(node, ast.Call) and norm_text(node.func) == "torch.eye" and len(node.args) >= 2:
                conds = enclosing_conds(node)
                if conds is None:
                    continue
                n += 1
                witness = None
                for f, k in GRID:
                    env = {"features": f, "num_transforms": k}
                    if not holds(conds, env):
                        continue
                    try:
                        r, c = _int_eval(node.args[0], env), _int_eval(node.args[1], env)
                    except _NoEval:
                        undecided.append(norm_text(node)[:60])
                        witness = None
                        break
                    if r > c:
                        witness = (f, k, r, c)
                        break
                if witness is not None:
                    res.fail(Finding("ORTH-INIT", init.module, init.qualname, node, "`%s` has %d rows but only %d columns for features=%d, num_transforms=%d: the rows beyond the %d-th are zero vectors, and a reflection about a zero vector is 0/0 (NaN outputs)" % (norm_text(node)[:50], witness[2], witness[3], witness[0], witness[1], witness[3]), construct="rows of the initial reflection vectors"))
                elif norm_text(node)[:60] not in undecided:
                    res.ok("%s: never more rows than columns" % norm_text(node)[:50])
            # (b) stores q[i, J] = v into the vectors: J must be a column
            if isinstance(node, ast.Assign) and len(node.targets) == 1 and isinstance(node.targets[0], ast.Subscript) and isinstance(node.targets[0].slice, ast.Tuple) and len(node.targets[0].slice.elts) == 2:
                conds = enclosing_conds(node)
                if conds is None:
                    continue
                col = node.targets[0].slice.elts[1]
                n += 1
                witness = None
                for f, k in GRID:
                    env = {"features": f, "num_transforms": k}
                    if not holds(conds, env):
                        continue
                    try:
                        j = _int_eval(col, env)
                    except _NoEval:
                        undecided.append(norm_text(node)[:60])
                        break
                    if not (-f <= j < f):
                        witness = (f, k, j)
                        break
                if witness is not None:
                    res.fail(Finding("ORTH-INIT", init.module, init.qualname, node, "`%s` writes column %d of vectors with %d features for features=%d, num_transforms=%d: the constructor raises IndexError for arguments it accepts" % (norm_text(node)[:50], witness[2], witness[0], witness[0], witness[1]), construct="column written by the constructor"))
                elif norm_text(node)[:60] not in undecided:
                    res.ok("%s: column always in range" % norm_text(node)[:50])

    for scope in scopes:
        scan(scope)
    for u in undecided:
        res.undecide("HouseholderSequence.__init__ `%s`" % u, "not a closed integer formula of (features, num_transforms)")
    if n < 1:
        raise AnalysisIncomplete("ORTH-INIT: no initial-vector construct found in HouseholderSequence.__init__")
    return res


# ---------------------------------------------------------------------------------------
# INV-ROUND (C02): inverse(forward(x)) == x for the coupling wrapper, by partial evaluation
# ---------------------------------------------------------------------------------------


def ld_clamp_rule(ctx):
    """LD-SATURATE.  A direction of an element-wise transform whose returned outputs are `clamp(g(inputs), lo, hi)`
    (or clip / minimum / maximum against a constant) is constant wherever the clamp acts: its Jacobian is zero
    there, the map is no longer one-to-one, and a log-abs-det computed from g alone reports a finite number for
    a region that is collapsed onto a point (C01: the reported log-det is not the log-derivative of the computed
    map; C03: the mass of that region is counted although it is mapped onto a set of measure zero).  Clamping
    the *inputs* of a restricted-domain inverse before the logarithms (Sigmoid.inverse) is a different
    construct and is DOM-CLAMP's."""
    from ..symexp import paths_of

    p = ctx.p
    res = RuleResult("LD-SATURATE", "no direction of a transform returns outputs that are a clamp / clip / constant min-max of an input-dependent value while its log-abs-det is computed without that saturation")
    n = 0
    for cls in transform_classes(p):
        for mname in ("forward", "inverse"):
            fi = cls.methods.get(mname)
            if fi is None:
                continue
            params = [a for a, _ in fi.params()]
            if not params:
                continue
            x = params[0]
            try:
                paths = paths_of(fi.node, {"self.training": False})
            except AnalysisIncomplete:
                continue
            for path in paths:
                if path.kind != "return" or not (isinstance(path.ret, ast.Tuple) and len(path.ret.elts) == 2):
                    continue
                out, ld = path.ret.elts
                n += 1
                c = out
                if not isinstance(c, ast.Call):
                    continue
                last = _last(c)
                if last not in ("clamp", "clip", "clamp_min", "clamp_max", "minimum", "maximum", "hardtanh"):
                    continue
                is_mod = isinstance(c.func, ast.Attribute) and isinstance(c.func.value, ast.Name) and c.func.value.id in ("torch", "F")
                inner = c.args[0] if is_mod and c.args else (c.func.value if isinstance(c.func, ast.Attribute) else None)
                bounds = (c.args[1:] if is_mod else c.args) + [k.value for k in c.keywords]
                if inner is None or not any(isinstance(q, ast.Name) and q.id == x for q in ast.walk(inner)):
                    continue
                if any(isinstance(q, ast.Name) and q.id == x for b in bounds for q in ast.walk(b)):
                    continue  # a bound that follows the inputs is not a saturation
                if any(isinstance(q, ast.Call) and _last(q) in ("clamp", "clip", "clamp_min", "clamp_max", "where", "masked_fill") for q in ast.walk(ld)):
                    continue  # the log-det has a case distinction of its own: not judged here
                res.fail(Finding("LD-SATURATE", fi.module, fi.qualname, path.ret_node, "%s.%s returns `%s`: beyond the bounds the computed map is constant (zero derivative, not one-to-one), but the log-abs-det `%s` is that of the unsaturated function -- a finite log-det is reported where the true one is -inf, and a flow built on it assigns mass to a region that is mapped onto a single point" % (cls.name, mname, norm_text(out)[:70], norm_text(ld)[:60]), construct="saturated outputs of %s.%s" % (cls.name, mname)))
    if n < 25:
        raise AnalysisIncomplete("LD-SATURATE: %d returning paths examined (< 25)" % n)
    res.ok("%d returning paths of transform directions: no saturated outputs with an unsaturated log-det" % n, nontrivial=False)
    return res


def ld_orth_rule(ctx):
    """LD-ORTH = ORTH-REV (shared with C11): HouseholderSequence reports a zero log-det, which is right only
    while every step is the orthogonal reflection x - 2 (x.q) q / |q|^2 with one and the same q."""
    r = orth_rule(ctx)
    r.rule = "LD-ORTH"
    for f in r.findings:
        f.rule = "LD-ORTH"
    return r


def ld_at_rule(ctx):
    """LD-AT = INV-AT (shared with C02): a transform's inverse is itself offered as a forward pass (Logit =
    InverseTransform(Sigmoid), InverseTransform(..) of anything); its log-det is right only if it is minus
    the forward's formula at the same point."""
    r = inv_at_rule(ctx)
    r.rule = "LD-AT"
    for f in r.findings:
        f.rule = "LD-AT"
    return r


def _renamed(results, mapping):
    out = []
    for r in results if isinstance(results, list) else [results]:
        if r.rule in mapping:
            new = mapping[r.rule]
            for f in r.findings:
                f.rule = new
            r.rule = new
            out.append(r)
    return out


def ld_scale_rule(ctx):
    """LD-SCALE.  If the outputs of an element-wise direction are  c(theta) * g(inputs) (+ terms without the
    inputs)  with c a plain parameter of the module raised to the power k, then d outputs / d inputs carries the
    factor c^k and the log-abs-det must contain k * log c (summed over the event).  Decided on the monomial
    normal form of the returned outputs: for every parameter atom theta^k (k = +-1) of the one input-dependent
    term, the signed leaves of the returned log-det contain log(theta) with the sign of k -- unless the log-det
    is computed by a call this rule does not look into.  (Logit(T): outputs (1/T) logit(x), log-det needs
    -log T.)"""
    from ..prodnf import NotMonomial, additive_terms

    p = ctx.p
    res = RuleResult("LD-SCALE", "a parameter that scales the outputs of an element-wise direction (outputs = theta^k * g(inputs) + ..) appears as k * log(theta) in the returned log-abs-det")
    n = 0
    for cls in transform_classes(p):
        for mname in ("forward", "inverse"):
            fi = cls.methods.get(mname)
            if fi is None or _only_raises(fi) or not fi.params():
                continue
            x = fi.params()[0][0]
            try:
                paths = [q for q in paths_of(fi.node, {"self.training": False}) if q.kind == "return"]
            except AnalysisIncomplete:
                continue
            for path in paths:
                r = path.ret
                if not (isinstance(r, ast.Tuple) and len(r.elts) == 2):
                    continue
                out_e, ld_e = r.elts
                if size_upto(out_e, 1500) > 1500 or size_upto(ld_e, 3000) > 3000:
                    continue
                try:
                    terms = additive_terms(out_e)
                except NotMonomial:
                    continue
                except Exception:
                    continue

                def mentions_x(m):
                    return any(_mentions_name(a, x) for a in m)

                dep = [(c, m) for c, m in terms if mentions_x(m)]
                if len(dep) != 1:
                    continue
                c0, m0 = dep[0]
                params = [(a, k) for a, k in m0.items() if a[0] == "leaf" and a[1].startswith("self.") and not _mentions_name(a, x) and abs(k) == 1 and "(" not in a[1]]
                if not params:
                    continue
                # a log-det computed by a method call is not looked into
                if any(isinstance(c, ast.Call) and isinstance(c.func, ast.Attribute) and isinstance(c.func.value, ast.Name) and c.func.value.id == "self" for c in uwalk(ld_e)):
                    continue
                leaves = ld_terms(ld_e)
                for (kind, text), k in params:
                    n += 1
                    found = [sg for sg, l in leaves if isinstance(l, ast.Call) and _last(l) == "log" and l.args and norm_text(l.args[0]) == text or (isinstance(l, ast.Call) and _last(l) == "log" and isinstance(l.func, ast.Attribute) and not l.args and norm_text(l.func.value) == text)]
                    want = 1 if k > 0 else -1
                    if found == [want]:
                        res.ok("%s.%s: outputs scale with %s^%d, log-det carries %slog(%s)" % (cls.name, mname, text, k, "+" if want > 0 else "-", text))
                    elif not found:
                        res.fail(Finding("LD-SCALE", fi.module, fi.qualname, path.ret_node, "the outputs are `%s`^%d times a function of the inputs, so every element's derivative carries that factor, but the returned log-abs-det has no %slog(%s) term" % (text, k, "+" if want > 0 else "-", text), construct="scale factor %s in the log-det of %s.%s" % (text, cls.name, mname)))
                    else:
                        res.fail(Finding("LD-SCALE", fi.module, fi.qualname, path.ret_node, "the outputs are `%s`^%d times a function of the inputs; the log-abs-det must contain log(%s) once with sign %+d, found signs %s" % (text, k, text, want, found), construct="scale factor %s in the log-det of %s.%s" % (text, cls.name, mname)))
    if n < 1:
        raise AnalysisIncomplete("LD-SCALE: no direction with a parameter scale factor found (Sigmoid.inverse is one on the pinned tree)")
    return res


def _mentions_name(atom, name):
    import re

    def texts(a):
        if isinstance(a, tuple):
            for q in a:
                yield from texts(q)
        elif isinstance(a, str):
            yield a

    pat = re.compile(r"(?<![A-Za-z0-9_.])%s(?![A-Za-z0-9_])" % re.escape(name))
    return any(pat.search(t) for t in texts(atom))


def ld_lin_rule(ctx):
    """LD-LIN = LIN-LOGDET (shared with C11): the log-abs-det a Linear transform returns -- directly, or out of
    its cache, whichever accessor filled it -- is + sum log|diag| of its factors in forward and the negation
    in inverse.  An accessor hook that returns the log-det of the inverse poisons the cache for forward."""
    return _renamed(lin_word_rule(ctx), {"LIN-LOGDET": "LD-LIN"})


def inv_lin_rule(ctx):
    """INV-LIN = LIN-WORD (shared with C11): weight_inverse() is the inverse of weight() as matrix words, and
    the two no-cache directions are X W^T + b and (X - b) W^-T -- so the cached inverse undoes the forward."""
    return _renamed(lin_word_rule(ctx), {"LIN-WORD": "INV-LIN"})


def inv_layout_rule(ctx):
    """INV-LAYOUT = BM-ROWS (shared with C12): in the image code paths every permute / reshape keeps the
    axes' memory order consistent and each direction hands its outputs back laid out as the inputs --
    otherwise forward and inverse each apply a pixel shuffle and inverse(forward(x)) is x shuffled twice."""
    from .c12 import rows_rule

    r = rows_rule(ctx)
    r.rule = "INV-LAYOUT"
    for f in r.findings:
        f.rule = "INV-LAYOUT"
    return r


def inv_round_rule(ctx):
    """CouplingTransform.forward is evaluated on a symbolic input, its symbolic result is fed to
    CouplingTransform.inverse (nfstatic/peval.py; the conditioner, the coupling hooks and the
    optional unconditional transform are uninterpreted), and the result is simplified with the
    contracts of the parts only:
        gather(scatter{i: v}, i) = v                      scatter{i: gather(x, i) for all i} = x
        hook_inverse(hook_forward(v, p), p)[0] = v        U^-1(U(v)) = v
    The round trip must come back to x and every log-det of the inverse must be the inverse-side
    twin of a log-det of the forward pass.  (The hooks' own round trips are INV-SIGN / the spline
    rules; here only the wrapper's plumbing is decided: which features condition, in which order
    the parts are undone, where the pieces are written back.)"""
    from ..peval import PEval, Obj, Stage, Sym, SymFn, Index, Undecided as PUndecided, Raises as PRaises, mk_sum, show

    p = ctx.p
    res = RuleResult("INV-ROUND", "coupling wrapper: inverse(forward(x)) simplifies to x and the log-dets pair up, using only the contracts of the conditioner, the coupling hooks and the unconditional transform")
    cls = p.find_class("CouplingTransform", "nflows.transforms.coupling")
    fwd, inv = cls.methods.get("forward"), cls.methods.get("inverse")
    if fwd is None or inv is None:
        raise AnalysisIncomplete("CouplingTransform.forward / inverse missing")
    methods = {nm: fi.node for nm, fi in cls.methods.items() if nm not in ("_coupling_transform_forward", "_coupling_transform_inverse")}

    def simplify(t):
        if not isinstance(t, tuple) or not t:
            return t
        h = t[0]
        if h == "gather" and isinstance(t[1], tuple) and t[1] and t[1][0] == "scatter":
            for idx, v in t[1][1]:
                if idx == t[2]:
                    return v
        # cat(u, v)[:, argsort(cat(i, j))]: u lands on the positions i, v on j (the index sets partition the features)
        if h == "gather" and isinstance(t[2], tuple) and t[2][:1] == ("inv",) and isinstance(t[2][1], tuple) and t[2][1][:1] == ("cat",) and isinstance(t[1], tuple) and t[1][:1] == ("cat",) and len(t[1][1]) == len(t[2][1]) - 1 and t[1][2] == 1:
            return simplify(("scatter", tuple(sorted(zip(t[2][1][1:], t[1][1])))))
        # x[:, cat(i, j)] = cat(x[:, i], x[:, j])
        if h == "gather" and isinstance(t[2], tuple) and t[2][:1] == ("cat",):
            return ("cat", tuple(simplify(("gather", t[1], nm)) for nm in t[2][1:]), 1)
        if h == "scatter":
            pairs = t[1]
            if len(pairs) == 2 and all(isinstance(v, tuple) and v and v[0] == "gather" and v[2] == idx for idx, v in pairs) and len({v[1] for _, v in pairs}) == 1:
                return pairs[0][1][1]  # both index sets (a partition of the features) restored from x
        if h == "item" and t[2] == 0 and isinstance(t[1], tuple) and t[1][:2] == ("call", "cinv"):
            kwargs = dict(a for a in t[1][2:] if isinstance(a, tuple) and len(a) == 2 and isinstance(a[0], str))
            a, pr = kwargs.get("inputs"), kwargs.get("transform_params")
            if isinstance(a, tuple) and a[:1] == ("item",) and a[2] == 0 and isinstance(a[1], tuple) and a[1][:2] == ("call", "cfwd"):
                k2 = dict(b for b in a[1][2:] if isinstance(b, tuple) and len(b) == 2 and isinstance(b[0], str))
                if k2.get("transform_params") == pr:
                    return k2.get("inputs")
        if h == "out" and t[2] == "inv" and isinstance(t[3], tuple) and t[3][:1] == ("out",) and t[3][1] == t[1] and t[3][2] == "fwd" and t[3][4] == t[4]:
            return t[3][3]
        return t

    def terms_of(t):
        if isinstance(t, tuple) and t and t[0] == "sum":
            return list(t[1])
        if t in (0, 0.0, ("zeros",)):
            return []
        return [t]

    for with_u in (False, True):
        tag = "with an unconditional transform" if with_u else "without unconditional transform"
        attrs = {
            "identity_features": Index("id"),
            "transform_features": Index("tr"),
            "features": Sym(("features",)),
            "transform_net": SymFn("net", 1),
            "_coupling_transform_forward": SymFn("cfwd", 2),
            "_coupling_transform_inverse": SymFn("cinv", 2),
            "unconditional_transform": Stage("U") if with_u else None,
        }
        import re as _re

        x, cx = Sym(("x",)), Sym(("ctx",))
        y = z = None
        failed = None
        for _attempt in range(4):
            pe = PEval(Obj(attrs, methods))
            pe.simplify = simplify
            try:
                y = pe.call_method(fwd.node, [x, cx])
                if not (isinstance(y, tuple) and len(y) == 2 and all(isinstance(v, Sym) for v in y)):
                    raise PUndecided("forward does not return a pair of tensors")
                z = pe.call_method(inv.node, [y[0], cx])
                if not (isinstance(z, tuple) and len(z) == 2 and isinstance(z[0], Sym)):
                    raise PUndecided("inverse does not return a pair")
                failed = None
                break
            except PUndecided as ex:
                failed = str(ex)
                # a configuration attribute this rule does not model (a fast-path switch computed by the
                # constructor): take its generic value None -- the configuration-specific paths are
                # C07's (CPL-SCAT / CPL-COND / CPL-PART decide where features go for every mask)
                m = _re.search(r"self\.(_\w+)", failed)
                if m and m.group(1) not in attrs and m.group(1) not in methods:
                    attrs[m.group(1)] = None
                    res.notes.append("configuration attribute self.%s taken as None (generic path); its other values are C07's" % m.group(1))
                    continue
                break
            except PRaises as ex:
                res.fail(Finding("INV-ROUND", inv.module, inv.qualname, ex.node if ex.node is not None else inv.node, "the round trip %s raises: %s" % (tag, ex.what), construct="round trip %s" % tag))
                failed = "raised"
                break
        if failed == "raised":
            continue
        if failed is not None:
            res.undecide("CouplingTransform round trip %s" % tag, failed)
            continue
        back = simplify(z[0].term)
        if back != ("x",):
            # say which contract failed to apply
            why = "inverse(forward(x)) simplifies to `%s`, not to x" % show(back)[:140]
            calls = [q for q in _subterms_of(back) if isinstance(q, tuple) and q[:2] == ("call", "cinv")]
            for q in calls:
                kw = dict(a for a in q[2:] if isinstance(a, tuple) and len(a) == 2 and isinstance(a[0], str))
                a = kw.get("inputs")
                if isinstance(a, tuple) and a[:1] == ("item",) and isinstance(a[1], tuple) and a[1][:2] == ("call", "cfwd"):
                    k2 = dict(b for b in a[1][2:] if isinstance(b, tuple) and len(b) == 2 and isinstance(b[0], str))
                    if k2.get("transform_params") != kw.get("transform_params"):
                        why = "the inverse undoes the coupling with parameters `%s` while forward computed them as `%s`: the conditioner does not see the same features in the two directions" % (show(kw.get("transform_params"))[:70], show(k2.get("transform_params"))[:70])
            res.fail(Finding("INV-ROUND", inv.module, inv.qualname, inv.node, "%s: %s" % (tag, why), construct="round trip %s" % tag))
            continue
        # log-dets: every forward term has its inverse-side twin and nothing else
        ft = terms_of(y[1].term)
        it = terms_of(z[1].term if isinstance(z[1], Sym) else z[1])

        def twin(t):
            if isinstance(t, tuple) and t[:1] == ("item",) and t[2] == 1 and isinstance(t[1], tuple) and t[1][:2] == ("call", "cfwd"):
                kw = dict(a for a in t[1][2:] if isinstance(a, tuple) and len(a) == 2 and isinstance(a[0], str))
                return ("item", ("call", "cinv", ("inputs", ("item", t[1], 0)), ("transform_params", kw.get("transform_params"))), 1)
            if isinstance(t, tuple) and t[:1] == ("ld",) and t[2] == "fwd":
                return ("ld", t[1], "inv", ("out", t[1], "fwd", t[3], t[4]), t[4])
            return None

        want = sorted((repr(twin(t)) for t in ft))
        got = sorted(repr(t) for t in it)
        if None not in [twin(t) for t in ft] and want == got:
            res.ok("coupling round trip %s: x restored; %d log-det term(s) paired" % (tag, len(ft)))
        else:
            res.fail(Finding("INV-ROUND", inv.module, inv.qualname, inv.node, "%s: the inverse's log-det terms %s are not the inverse-side twins of forward's %s" % (tag, [show(t)[:60] for t in it], [show(t)[:60] for t in ft]), construct="log-dets of the round trip %s" % tag))
    return res


def _subterms_of(t):
    out, stack = [], [t]
    while stack:
        v = stack.pop()
        if isinstance(v, tuple):
            out.append(v)
            stack.extend(v)
    return out


def ld_elem_rule(ctx):
    """The scalar nonlinearities sum an elementwise log-derivative: their map must be elementwise."""
    from .c07 import elementwise_rule, SCALAR_TABLE

    return elementwise_rule(ctx, SCALAR_TABLE, "LD-ELEM", 14)


register(
    "C01",
    [nodrop_rule, ld_shape_rule, ld_mult_rule, ld_elem_rule, ld_state_rule, ld_orth_rule, ld_at_rule, ld_lin_rule, ld_scale_rule],
    "LD-STATE: in every nn.Module class, a non-persistent buffer or plain tensor attribute whose constructor expression is "
    "computed from a constructor value that the same constructor stores as a parameter or persistent buffer (through local "
    "aliases and tensor wrappers) is a second copy of restorable state; if any method reads it and no method refreshes it, the "
    "log-det (or whatever reads it) stops describing the stored map after load_state_dict / an optimiser step. LD-NODROP: abstract interpretation of every transform / distribution / spline entry point in which the second component "
    "of every pair-returning transform, hook or spline call is relabelled with its call site; at every return of a "
    "pair-returning function (and of log_prob) the label of every such call made in that activation must be present in the "
    "returned log-det, unless the callee's log-det is built from zeros only (computed, not listed) or the caller returns no "
    "density. LD-SHAPE (constant-dim special cases, DESIGN 1.9 fallback): every returned log-det is sum_except_batch(x) with "
    "num_batch_dims omitted or 1, a .sum(1|-1) after reshape(B,-1) / in a 2-D-only class, a scalar times new_ones(batch), or "
    "sums/delegations of these; num_batch_dims != 1, dim 0 reductions, reshape(-1)/flatten and un-reduced elementwise "
    "log-derivatives are definite errors; other forms are counted, not reported. LD-MULT: h*w for ActNorm on images, "
    "per-pixel log-dets reshaped (b,h,w) and summed for the 1x1 convolution, numel/expand-sum for pointwise affine. LD-ELEM: "
    "the scalar nonlinearities and the pointwise affine transform, whose log-det sums an elementwise derivative, apply no "
    "position-mixing operation to an input-dependent value. That each "
    "closed-form derivative equals the derivative of the output formula (algebra on values) is NOT decided.",
    [A_NET, A_UMNN, T_OPS],
)

class StateReadDomain(TaintDomain):
    skip_assumed_tests = True

    def __init__(self):
        self.reads = set()

    def state(self, interp, objav, path, attrinfo, node):
        pth = tuple(x for x in path if x != "<new>")
        if not (pth and pth[0] == "cache"):
            self.reads.add(".".join(pth))
        return T()


def inv_state_rule(ctx):
    """INV-STATE: both directions of a transform read the same model state (parameters, buffers,
    tensor attributes).  A direction that works from its own private copy of the state
    (a memo computed at construction, a second buffer) silently diverges from the other
    direction once the state is reloaded, converted or trained."""
    p = ctx.p
    res = RuleResult("INV-STATE", "forward and inverse of every transform read the same parameters / buffers / tensor attributes (evaluation mode; the Linear cache is C10's)")
    n = 0
    for cls in transform_classes(p):
        f = cls.lookup_method("forward")
        i = cls.lookup_method("inverse")
        if f is None or i is None or _only_raises(f) or _only_raises(i):
            continue
        from ..entries import is_abstract, param_value

        if is_abstract(cls, ["_coupling_transform_forward", "_elementwise_forward", "forward_no_cache", "_piecewise_cdf"]):
            continue
        sets = {}
        for name, fi in (("forward", f), ("inverse", i)):
            dom = StateReadDomain()
            it = Interp(p, dom, assume={"self.training": False, "self.using_cache": False})
            args = [param_value(dom, fi, pn, k, d) for k, (pn, d) in enumerate(fi.params())]
            it.run_function(fi, OBJ(cls), args)
            sets[name] = dom.reads
        n += 1
        if sets["forward"] == sets["inverse"]:
            res.ok("%s: both directions read %s" % (cls.name, sorted(sets["forward"]) or "no state"), nontrivial=bool(sets["forward"]))
        else:
            only_f = sorted(sets["forward"] - sets["inverse"])
            only_i = sorted(sets["inverse"] - sets["forward"])
            res.fail(Finding("INV-STATE", i.module, "%s.inverse" % cls.name, i.node, "%s: forward reads state %s that inverse does not, inverse reads %s that forward does not: the two directions are computed from different copies of the model state and stop being inverses of each other once one copy changes (load_state_dict, dtype conversion, training)" % (cls.name, only_f, only_i), construct="state read by the two directions of " + cls.name))
    if n < 25:
        raise AnalysisIncomplete("INV-STATE: %d classes compared (< 25 confirmed by hand)" % n)
    return res


# ---------------------------------------------------------------------------------------
# INV-AT (C02, C01): the inverse's log-det is minus the forward's, taken at the same point
# ---------------------------------------------------------------------------------------


def _replace_by_hash(e, targets, memo=None):
    """copy of expression `e` with every sub-expression whose structural hash is in `targets` replaced"""
    if memo is None:
        memo = {}
    if not isinstance(e, ast.AST):
        return e
    if id(e) in memo:
        return memo[id(e)]
    h = shash(e) if isinstance(e, ast.expr) else None
    if h is not None and h in targets:
        out = ast.Name(id=targets[h], ctx=ast.Load())
        memo[id(e)] = out
        return out
    changed = False
    new_fields = {}
    for f in e._fields:
        v = getattr(e, f, None)
        if isinstance(v, ast.AST):
            nv = _replace_by_hash(v, targets, memo)
            changed |= nv is not v
            new_fields[f] = nv
        elif isinstance(v, list):
            nl = [_replace_by_hash(x, targets, memo) for x in v]
            changed |= any(a is not b for a, b in zip(nl, v))
            new_fields[f] = nl
        else:
            new_fields[f] = v
    if not changed:
        memo[id(e)] = e
        return e
    out = e.__class__(**new_fields)
    memo[id(e)] = out
    return out


def _arg_key(e):
    from ..prodnf import NotMonomial, additive_terms
    from ..canon import canon_text

    try:
        terms = additive_terms(e)
        return repr(sorted(((str(c), repr(sorted(m.items(), key=repr))) for c, m in terms)))
    except NotMonomial:
        pass
    except Exception:
        pass
    try:
        return canon_text(e)
    except Exception:
        return norm_text(e)


def inv_at_rule(ctx):
    """INV-AT.  With x the forward's input and y its output, a forward returns (y, L(x, y)) and its inverse
    (x, -L(x, y)): the *same* expression of the same point, negated.  Both log-dets are expanded, the
    forward's input and the inverse's returned value are both named X, the forward's returned value and the
    inverse's input both Y, and the signed leaves are paired by function: where the two directions apply one
    and the same function with opposite signs, the arguments (monomial normal form) must agree whenever they
    are written over the same point.  Formulas of different shape in the two directions (x in one, y in the
    other) are not comparable here and are left to INV-SIGN."""
    p = ctx.p
    res = RuleResult("INV-AT", "where forward and inverse apply the same function with opposite signs in their log-dets, they apply it at the same point (forward input = inverse result, forward result = inverse input)")
    compared = 0
    for label, fpaths, ipaths, ff, fi in direction_pairs(p):
        if ff is fi:
            continue  # one function with a flag: the spline rules compare its two scenarios
        fr = [pp for pp in fpaths if pp.kind == "return"]
        ir = [pp for pp in ipaths if pp.kind == "return"]
        if len(fr) != 1 or len(ir) != 1:
            continue
        rf, ri = fr[0].ret, ir[0].ret
        if not (isinstance(rf, ast.Tuple) and len(rf.elts) == 2 and isinstance(ri, ast.Tuple) and len(ri.elts) == 2):
            continue
        xf = ff.params()[0][0] if ff.params() else None
        xi = fi.params()[0][0] if fi.params() else None
        if not xf or not xi:
            continue
        of, lf = rf.elts
        oi, li = ri.elts
        if any(size_upto(e, 4000) > 4000 for e in (of, lf, oi, li)):
            continue
        tf, ti = {}, {}
        if not (isinstance(of, ast.Name) and of.id == xf):
            tf[shash(of)] = "__Y__"
        tf[shash(ast.Name(id=xf, ctx=ast.Load()))] = "__X__"
        if not (isinstance(oi, ast.Name) and oi.id == xi):
            ti[shash(oi)] = "__X__"
        ti[shash(ast.Name(id=xi, ctx=ast.Load()))] = "__Y__"
        lf2 = _replace_by_hash(lf, tf)
        li2 = _replace_by_hash(li, ti)
        ta, tb = ld_terms(lf2), ld_terms(li2)
        if not ta or not tb:
            continue

        def split(terms, flip):
            out = {}
            for sgn, l in terms:
                if isinstance(l, ast.Call) and not is_component(l) and l.args or (isinstance(l, ast.Call) and isinstance(l.func, ast.Attribute) and not l.args):
                    fname = _last(l)
                    f = l.func
                    if isinstance(f, ast.Attribute) and not (isinstance(f.value, ast.Name) and f.value.id in ("torch", "F", "np", "math", "torchutils")):
                        args = [f.value] + list(l.args)
                    else:
                        args = list(l.args)
                    if len(args) != 1 or l.keywords:
                        return None
                    out.setdefault((sgn * flip, fname), []).append(args[0])
                else:
                    return None
            return out

        ga, gb = split(ta, 1), split(tb, -1)
        if ga is None or gb is None or set(ga) != set(gb) or any(len(ga[k]) != len(gb[k]) for k in ga):
            continue
        compared += 1
        bad = None
        for k in sorted(ga, key=repr):
            ka = sorted(_arg_key(a) for a in ga[k])
            kb = sorted(_arg_key(b) for b in gb[k])
            if ka == kb:
                continue
            # the differing arguments: comparable only when written over the same point
            da = [a for a in ga[k] if _arg_key(a) not in kb]
            db = [b for b in gb[k] if _arg_key(b) not in ka]
            pa = {n.id for a in da for n in ast.walk(a) if isinstance(n, ast.Name) and n.id in ("__X__", "__Y__")}
            pb = {n.id for b in db for n in ast.walk(b) if isinstance(n, ast.Name) and n.id in ("__X__", "__Y__")}
            if pa and pa == pb and len(pa) == 1:
                bad = (k, da, db)
                break
        if bad is None:
            res.ok("%s: same functions at the same points (%d leaves)" % (label, len(ta)))
        else:
            (sgn, fname), da, db = bad
            pt = {"__X__": "the forward input / inverse result", "__Y__": "the forward result / inverse input"}
            show = lambda e: norm_text(e).replace("__X__", "x").replace("__Y__", "y")
            res.fail(Finding("INV-AT", fi.module, fi.qualname, ir[0].ret_node, "%s: forward's log-det applies %s to `%s`, the inverse's applies it (negated) to `%s` -- with x %s and y %s these are different points, so the inverse's log-det is not minus the forward's" % (label, fname, "`, `".join(show(a) for a in da), "`, `".join(show(b) for b in db), pt["__X__"], pt["__Y__"]), construct="point at which the inverse evaluates " + fname))
    if compared < 2:
        raise AnalysisIncomplete("INV-AT: %d direction pairs comparable (< 2: Sigmoid and Tanh confirmed by hand)" % compared)
    return res


register(
    "C02",
    [inv_sign_rule, inv_config_rule, inv_pos_rule, inv_state_rule, ld_state_rule, inv_round_rule, inv_layout_rule, inv_at_rule, inv_lin_rule],
    "INV-ROUND: CouplingTransform.forward is partially evaluated on a symbolic input, its result fed to inverse, and the outcome "
    "simplified with the contracts of the parts only (gather/scatter over the two index buffers, hook_inverse(hook_forward(v, p), p) "
    "= v, U^-1(U(v)) = v): it must reduce to x and the log-dets must pair up -- which features condition, in which order the parts "
    "are undone and where the pieces are written back is thereby decided for the wrapper every coupling layer inherits. "
    "INV-SIGN / INV-FLAG: for every direction pair (forward/inverse, the coupling / autoregressive / no-cache hooks, and every "
    "function with an inverse flag incl. the four spline functions) the returned log-dets are expanded symbolically and "
    "flattened to signed leaves through reductions, broadcasts, reshapes and masked stores; the inverse's leaves must be the "
    "term-wise negation of the forward's, or -- for input-dependent forms that legitimately use different variables in the two "
    "directions -- carry log-leaves with + in forward and - in inverse; delegating pairs must pass inverse=False/True. "
    "INV-SIDE / INV-AR / INV-ORDER are decided by the C09 / C06 / C08 rules. INV-STATE: in the evaluation-mode scenario the "
    "sets of parameters / buffers / tensor attributes read (interprocedurally) by forward and by inverse of every concrete "
    "transform are equal, so no direction works from a private copy of the state. INV-CONFIG: SqueezeTransform's inverse guard and "
    "divisor are the same polynomial in self.factor as forward's channel multiplier. INV-POS: sign-lattice proof that every "
    "quantity built from a positivity activation is still positive where its log is taken or it divides. Round-trip error, "
    "finiteness and root selection are value questions and are NOT decided. INV-AT: where both directions apply the same function with "
    "opposite signs in their log-dets, the arguments agree in monomial normal form once the forward input / inverse result and the forward "
    "result / inverse input are identified (a log-det taken at T*x in one direction and at x in the other is reported).",
    [A_CFG, A_NET, A_UMNN, T_OPS],
)

register(
    "C11",
    [lin_complete_rule, lin_word_rule, lin_pos_rule, orth_rule, orth_init_rule],
    "LIN-COMPLETE: every concrete Linear subclass resolves all five accessors, both no-cache paths and both combined accessors "
    "to non-abstract bodies. LIN-WORD: abstract interpretation of every accessor and no-cache pass into the free group with "
    "transposition over the factor matrices (triangular factors identified by the index buffers and values stored into a zero "
    "matrix, Householder factors Q with module(x) = x Q and Q^T = Q^-1, diag(v), square parameters); with W = weight(): "
    "weight_inverse() = W^-1, forward_no_cache = X W^T + b, inverse_no_cache = (X - b) W^-T, the combined accessors return "
    "W / W^-1, every triangular solve is given the upper / unitriangular flags of its factor, and HouseholderSequence.matrix() "
    "= Q^-1. LIN-LOGDET: logabsdet(), the second components of both combined accessors and of forward_no_cache equal "
    "+ the sum over W's factors of sum(log diag) (unit-triangular and orthogonal factors contribute 0, a square parameter its "
    "log|det|, also spelled through slogdet or the diagonal of its LU factors), inverse_no_cache its negation. Equality is of "
    "normal forms; an operation outside the table leaves the accessor undecided (exit 2). LIN-POS: that diagonal is positive for every parameter value (sign lattice). ORTH-REV: "
    "HouseholderSequence.inverse applies the same rows in exactly reversed order and every step is the reflection "
    "x - outer(x.q, (2/|q|^2) q) with its own norm. ORTH-INIT: the initial reflection vectors are rows of torch.eye(R, C) and "
    "index writes into them; R <= C and every written column < features are checked as closed integer formulas of the "
    "constructor arguments on a grid of accepted (features, num_transforms) -- a zero vector makes 2/|q|^2 infinite. Numeric accuracy of the inverse and usability for every accepted size "
    "(e.g. Householder counts beyond the feature count) are value facts and are NOT decided.",
    [A_CFG, T_OPS],
)
