"""C08 -- composite, inverse and multiscale wrappers are exact function composition."""

import ast

from ..astutil import attr_chain, const_number, signed_terms
from ..model import AnalysisIncomplete, norm_text
from ..report import Finding, RuleResult
from ..symexp import paths_of, is_component, is_synth
from . import register, A_API, T_OPS


def _base(p):
    return p.modules["nflows.transforms.base"]


def _comp(e):
    if is_component(e):
        return e.args[0], e.args[1].value
    return None, None


def thread_rule(ctx):
    """CMP-THREAD by partial evaluation of the cascade helper itself: applied to k uninterpreted
    (outputs, log-det) functions in a list, a tuple and a single-pass generator, with a symbolic
    input and context, it must return f_k(...f_1(x, ctx)..., ctx) and the sum of every log-det,
    once each -- however the loop and the accumulation are written."""
    from ..peval import PEval, Obj, Stage, Bound, Sym, PIter, Undecided as PUndecided, Raises as PRaises, mk_sum, show

    p = ctx.p
    cls = p.find_class("CompositeTransform", "nflows.transforms.base")
    res = RuleResult("CMP-THREAD", "the cascade applies the functions in iteration order to the running outputs with the context, and returns the last outputs and the sum of every log-det")
    fi = cls.methods.get("_cascade")
    if fi is None:
        # no separate helper: the cascade is part of forward / inverse, which CMP-EVAL evaluates
        res.ok("no _cascade helper: the cascade is evaluated as part of forward / inverse (CMP-EVAL)", nontrivial=False)
        return res
    params = [a for a, _ in fi.params()]
    if len(params) < 3:
        res.undecide("_cascade", "signature is not (inputs, funcs, context)")
        return res
    x, cx = ("x",), ("ctx",)
    methods = {nm: m.node for nm, m in cls.methods.items()}
    ks = range(1, 8) if getattr(ctx, "tier", "quick") == "thorough" else (1, 2, 3, 4)
    for k in ks:
        want = x
        lds = []
        for i in range(1, k + 1):
            lds.append(("ld", "T%d" % i, "fwd", want, cx))
            want = ("out", "T%d" % i, "fwd", want, cx)
        want_ld = mk_sum(*lds)
        for kind in ("list", "generator"):
            funcs = [Bound(Stage("T%d" % i), "fwd") for i in range(1, k + 1)]
            arg = funcs if kind == "list" else PIter(funcs)
            pe = PEval(Obj({}, methods))
            tag = "_cascade over a %s of %d function(s)" % (kind, k)
            try:
                is_static = fi.is_static
                r = pe._run_function(fi.node, [Sym(x), arg, Sym(cx)], {}, None if is_static else pe.self_obj)
            except PUndecided as ex:
                res.undecide(tag, str(ex))
                continue
            except PRaises as ex:
                res.fail(Finding("CMP-THREAD", fi.module, fi.qualname, ex.node if ex.node is not None else fi.node, "%s raises: %s" % (tag, ex.what), construct=tag))
                continue
            if not (isinstance(r, tuple) and len(r) == 2 and all(isinstance(v, Sym) for v in r)):
                res.fail(Finding("CMP-THREAD", fi.module, fi.qualname, fi.node, "%s must return (outputs, total log-det)" % tag, construct=tag))
                continue
            if r[0].term != want:
                res.fail(Finding("CMP-THREAD", fi.module, fi.qualname, fi.node, "%s returns outputs `%s`; every function must be applied, in order, to the running outputs with the context: `%s`" % (tag, show(r[0].term)[:100], show(want)[:100]), construct="outputs of _cascade"))
            elif r[1].term != want_ld:
                res.fail(Finding("CMP-THREAD", fi.module, fi.qualname, fi.node, "%s returns the log-det `%s`; it must be the sum of every applied function's log-det, once each: `%s`" % (tag, show(r[1].term)[:100], show(want_ld)[:100]), construct="log-det of _cascade"))
            else:
                res.ok("%s = %s" % (tag, show(want)[:70]))
    return res


_SEQ_WRAPPERS = {"list", "tuple", "iter", "nn.ModuleList", "torch.nn.ModuleList"}


def _gen_method_as_seq(fnode):
    """a method whose body is `for t in S: yield f(t)` / `yield from S` / `return S` read as the
    sequence expression it stands for, else None"""
    body = [st for st in fnode.body if not (isinstance(st, ast.Expr) and isinstance(st.value, ast.Constant))]
    if len(body) != 1:
        return None
    st = body[0]
    if isinstance(st, ast.Return) and st.value is not None:
        return st.value
    if isinstance(st, ast.Expr) and isinstance(st.value, ast.YieldFrom):
        return st.value.value
    if isinstance(st, ast.For) and not st.orelse and len(st.body) == 1 and isinstance(st.body[0], ast.Expr) and isinstance(st.body[0].value, ast.Yield) and st.body[0].value.value is not None:
        g = ast.GeneratorExp(elt=st.body[0].value.value, generators=[ast.comprehension(target=st.target, iter=st.iter, ifs=[], is_async=0)])
        return ast.copy_location(g, st)
    return None


def seq_nf(e, methods=None):
    """`methods`: name -> FunctionDef of the class, to read through `self._helper()` calls.
    Normal form of a sequence expression: (base text, reversed?, element map) with element
    map in {"id", "inverse", "forward"}; None when the expression is not one of the
    order-deciding forms (wrappers list/tuple/iter/ModuleList, [*x], reversed(x), x[::-1],
    and one-generator comprehensions mapping t -> t | t.inverse | t.forward | InverseTransform(t))."""
    if isinstance(e, (ast.Name, ast.Attribute)):
        return (norm_text(e), False, "id")
    if isinstance(e, (ast.List, ast.Tuple)) and len(e.elts) == 1 and isinstance(e.elts[0], ast.Starred):
        return seq_nf(e.elts[0].value, methods)
    if isinstance(e, ast.Subscript) and isinstance(e.slice, ast.Slice):
        sl = e.slice
        inner = seq_nf(e.value, methods)
        if inner is None or sl.lower is not None or sl.upper is not None:
            return None
        if sl.step is None or const_number(sl.step) == 1:
            return inner
        if const_number(sl.step) == -1:
            return (inner[0], not inner[1], inner[2])
        return None
    if isinstance(e, ast.Call) and not e.args and not e.keywords and methods and isinstance(e.func, ast.Attribute) and isinstance(e.func.value, ast.Name) and e.func.value.id == "self" and e.func.attr in methods:
        inner_e = _gen_method_as_seq(methods[e.func.attr])
        if inner_e is None:
            return None
        return seq_nf(inner_e, {k: v for k, v in methods.items() if k != e.func.attr})
    if isinstance(e, ast.Call) and len(e.args) == 1 and not e.keywords:
        f = norm_text(e.func)
        inner = seq_nf(e.args[0], methods)
        if inner is None:
            return None
        if f in _SEQ_WRAPPERS:
            return inner
        if f == "reversed":
            return (inner[0], not inner[1], inner[2])
        return None
    if isinstance(e, (ast.GeneratorExp, ast.ListComp)) and len(e.generators) == 1:
        g = e.generators[0]
        if g.ifs or g.is_async or not isinstance(g.target, ast.Name):
            return None
        inner = seq_nf(g.iter, methods)
        if inner is None:
            return None
        t = g.target.id
        el = e.elt
        if isinstance(el, ast.Name) and el.id == t:
            m = "id"
        elif isinstance(el, ast.Attribute) and isinstance(el.value, ast.Name) and el.value.id == t and el.attr in ("inverse", "forward"):
            m = el.attr
        elif isinstance(el, ast.Call) and norm_text(el.func).split(".")[-1] == "InverseTransform" and len(el.args) == 1 and norm_text(el.args[0]) == t:
            m = "inverse"
        else:
            return None
        if inner[2] == "id":
            return (inner[0], inner[1], m)
        if m == "id":
            return inner
        return None
    return None


def _single_use(e):
    """does the expression produce an iterator that is exhausted by one pass?"""
    if isinstance(e, ast.GeneratorExp):
        return True
    if isinstance(e, ast.Call):
        f = norm_text(e.func)
        if f in ("reversed", "iter", "map", "zip", "filter", "enumerate"):
            return True
        if f in ("list", "tuple", "nn.ModuleList", "torch.nn.ModuleList", "sorted"):
            return False
    if isinstance(e, ast.Subscript) and isinstance(e.slice, ast.Slice):
        return False
    return False


def _qual_of(node):
    names = []
    n = getattr(node, "_parent", None)
    while n is not None:
        if isinstance(n, (ast.FunctionDef, ast.ClassDef)):
            names.append(n.name)
        n = getattr(n, "_parent", None)
    return ".".join(reversed(names)) or "<module>"


def _enclosing_seq(node):
    """The outermost sequence-shaped ancestor of a comprehension (so that
    `[t.inverse for t in ts][::-1]` is judged as a whole)."""
    cur = node
    while True:
        par = getattr(cur, "_parent", None)
        if isinstance(par, ast.Starred):
            par = getattr(par, "_parent", None)
        if par is None:
            return cur
        ok = False
        if isinstance(par, ast.Subscript) and par.value is cur and isinstance(par.slice, ast.Slice):
            ok = True
        elif isinstance(par, ast.Call) and len(par.args) == 1 and par.args[0] is cur and norm_text(par.func) in _SEQ_WRAPPERS | {"reversed"}:
            ok = True
        elif isinstance(par, (ast.List, ast.Tuple)) and len(par.elts) == 1:
            ok = True
        elif isinstance(par, ast.comprehension) and par.iter is cur:
            par = getattr(par, "_parent", None)
            ok = par is not None
        if not ok:
            return cur
        cur = par


def order_rule(ctx):
    p = ctx.p
    cls = p.find_class("CompositeTransform", "nflows.transforms.base")
    res = RuleResult("CMP-ORDER", "forward cascades the stored list in order; inverse cascades the parts' inverses over the reversed list; wherever a composite's parts are inverted element-wise the list is reversed")
    n_inv_ok = 0
    for direction in ("forward", "inverse"):
        fi = cls.methods.get(direction)
        if fi is None:
            raise AnalysisIncomplete("CompositeTransform.%s missing" % direction)
        got = False
        for path in paths_of(fi.node):
            if path.kind != "return":
                continue
            r = path.ret
            if not (isinstance(r, ast.Call) and attr_chain(r.func) == "self._cascade" and len(r.args) >= 3):
                res.fail(Finding("CMP-ORDER", fi.module, fi.qualname, path.ret_node, "%s must return self._cascade(inputs, funcs, context)" % direction))
                continue
            got = True
            a0, fs, cx = r.args[0], r.args[1], r.args[2]
            if norm_text(a0) != "inputs" or norm_text(cx) != "context":
                res.fail(Finding("CMP-ORDER", fi.module, fi.qualname, path.ret_node, "%s must cascade the inputs with the context" % direction))
                continue
            nf = seq_nf(fs, {nm: m.node for nm, m in cls.methods.items()})
            # a sequence kept in an attribute: read through the constructor's value, and note
            # whether what is stored can be iterated more than once
            if nf is not None and nf[0].startswith("self.") and nf[0] != "self._transforms":
                ai2 = p.attrs(cls).get(nf[0][5:])
                if ai2 is not None and ai2.value is not None:
                    inner = seq_nf(ai2.value)
                    if inner is not None:
                        if _single_use(ai2.value):
                            res.fail(Finding("CMP-ORDER", fi.module, fi.qualname, path.ret_node, "%s iterates `%s`, which the constructor sets to `%s`: a single-use iterator -- the first call consumes it and every later call cascades nothing (returns its inputs with zero log-det)" % (direction, nf[0], norm_text(ai2.value)[:60]), construct="single-use iterator %s" % nf[0]))
                            continue
                        m2 = nf[2] if inner[2] == "id" else (inner[2] if nf[2] == "id" else None)
                        if m2 is not None:
                            nf = (inner[0].replace("transforms", "self._transforms") if inner[0] == "transforms" else inner[0], inner[1] != nf[1], m2)
            if nf is None or nf[0] != "self._transforms":
                res.undecide("CompositeTransform.%s" % direction, "cannot decide the order of the cascaded sequence `%s`" % norm_text(fs)[:80])
                continue
            _, rev, m = nf
            if direction == "forward":
                if not rev and m in ("id", "forward"):
                    res.ok("forward cascades self._transforms in stored order")
                else:
                    res.fail(Finding("CMP-ORDER", fi.module, fi.qualname, path.ret_node, "forward must apply the transforms' forward direction in the order given (found `%s`)" % norm_text(fs)[:60]))
            else:
                if rev and m == "inverse":
                    n_inv_ok += 1
                    res.ok("inverse cascades t.inverse over the reversed list")
                elif m == "inverse":
                    res.fail(Finding("CMP-ORDER", fi.module, fi.qualname, path.ret_node, "inverse applies the parts' inverses in the forward order; it must use the reversed list"))
                elif rev:
                    res.fail(Finding("CMP-ORDER", fi.module, fi.qualname, path.ret_node, "inverse reverses the list but applies the parts' forward direction instead of `.inverse`"))
                else:
                    res.fail(Finding("CMP-ORDER", fi.module, fi.qualname, path.ret_node, "inverse must cascade (t.inverse for t in reversed transforms); found `%s`" % norm_text(fs)[:60]))
        if not got:
            res.undecide("CompositeTransform.%s" % direction, "no cascade call returned")
    # stored list is the constructor's iterable in order
    ai = p.attrs(cls).get("_transforms")
    nf = seq_nf(ai.value) if ai is not None and ai.value is not None else None
    if nf is not None and nf[0] == "transforms":
        if nf == ("transforms", False, "id"):
            res.ok("constructor stores the transforms in the order given")
        else:
            res.fail(Finding("CMP-ORDER", cls.module, "CompositeTransform.__init__", cls.node, "the constructor must store the transforms as given, in order (found `%s`)" % norm_text(ai.value)[:60], construct="_transforms of CompositeTransform"))
    else:
        res.undecide("CompositeTransform.__init__", "cannot decide that `%s` is the given transforms in order" % (norm_text(ai.value)[:80] if ai is not None and ai.value is not None else None))
    # element-wise inversion of any composite's part list must go with a reversal
    n_inv = 0
    for mi in [_base(p)]:
        cands = []
        for node in ast.walk(mi.tree):
            if isinstance(node, (ast.GeneratorExp, ast.ListComp)):
                cands.append((node, node))
            elif isinstance(node, ast.FunctionDef):
                g = _gen_method_as_seq(node)
                if isinstance(g, ast.GeneratorExp) and isinstance(node.body[-1], ast.For):
                    g._parent = None
                    cands.append((g, node.body[-1]))
        for node, where_node in cands:
            own = seq_nf(node)
            if own is None or own[2] != "inverse" or not own[0].endswith("._transforms"):
                continue
            top = _enclosing_seq(node)
            nf = seq_nf(top)
            if nf is None:
                nf = own
            n_inv += 1
            where = _qual_of(where_node)
            node = where_node
            if nf[1]:
                res.ok("%s: inverses of %s enumerated over the reversed list" % (where, nf[0]))
            else:
                res.fail(Finding("CMP-ORDER", mi, where, node, "the parts' inverses of `%s` are enumerated in forward order: the inverse of a cascade is the reversed list of inverses" % nf[0]))
    if n_inv + n_inv_ok < 1:
        raise AnalysisIncomplete("CMP-ORDER: no element-wise inversion of a part list found (expected CompositeTransform.inverse)")
    return res


def swap_rule(ctx):
    p = ctx.p
    cls = p.find_class("InverseTransform", "nflows.transforms.base")
    res = RuleResult("CMP-SWAP", "InverseTransform swaps the two directions of the wrapped transform exactly")
    want = {"forward": ("self._transform.inverse",), "inverse": ("self._transform", "self._transform.forward")}
    for direction, callees in want.items():
        fi = cls.methods.get(direction)
        if fi is None:
            raise AnalysisIncomplete("InverseTransform.%s missing" % direction)
        for path in paths_of(fi.node):
            if path.kind != "return":
                continue
            r = path.ret
            if isinstance(r, ast.Call) and attr_chain(r.func) in callees and [norm_text(a) for a in r.args] + [norm_text(k.value) for k in r.keywords] == ["inputs", "context"]:
                res.ok("InverseTransform.%s -> %s(inputs, context)" % (direction, attr_chain(r.func)))
            else:
                res.fail(Finding("CMP-SWAP", fi.module, fi.qualname, path.ret_node, "InverseTransform.%s must return %s(inputs, context)" % (direction, callees[0])))
    ai = p.attrs(cls).get("_transform")
    if ai is None or ai.value is None or norm_text(ai.value) != "transform":
        res.fail(Finding("CMP-SWAP", cls.module, "InverseTransform.__init__", cls.node, "the constructor must store the wrapped transform", construct="_transform of InverseTransform"))
    return res


# ---------------------------------------------------------------------------------------
# multiscale
# ---------------------------------------------------------------------------------------


def _alpha_text(e, bound):
    """Text of `e` with loop / comprehension variables renamed to placeholders."""
    import re

    t = norm_text(e) if not isinstance(e, str) else e
    for i, nm in enumerate(sorted(bound, key=len, reverse=True)):
        t = re.sub(r"(?<![\w.])%s(?![\w])" % re.escape(nm), "$V", t)
    return t


def _canon_alpha(t):
    return t.replace("$V", "$A")


class _SubstText(ast.NodeTransformer):
    def __init__(self, text, name):
        self.text = text.replace(" ", "")
        self.name = name

    def visit(self, node):
        if isinstance(node, ast.expr) and norm_text(node).replace(" ", "") == self.text:
            return ast.Name(id=self.name, ctx=ast.Load())
        return self.generic_visit(node)


def _half_verdict(e, n_text, spec):
    """True / False / None: the closed integer formula `e` of the size `n_text` equals spec(n)
    for n = 2..97 (decided by evaluation in the checker's own integer evaluator)."""
    from ..astutil import int_formula_verdict
    from ..symexp import clone

    e2 = _SubstText(n_text, "__n__").visit(clone(e))
    v = int_formula_verdict(e2, "__n__", spec, lo=2, hi=97)
    return v if v is True or v is None else False


def _ceil_half(e, n):
    return _half_verdict(e, n, lambda k: (k + 1) // 2)


def _floor_half(e, n):
    return _half_verdict(e, n, lambda k: k // 2)


def compose_eval_rule(ctx):
    """CMP-EVAL: CompositeTransform and InverseTransform against their specification by partial
    evaluation (nfstatic/peval.py): the object is built by evaluating __init__ on a list of k
    uninterpreted stages, forward / inverse are evaluated on a symbolic input, and the resulting
    terms must be  T_k(...T_1(x)) with log-det sum_i ld(T_i)  resp.  T_1^-1(...T_k^-1(x)) with
    sum_i ld(T_i^-1) -- whatever loops, generators, helpers or stored sequences the code uses."""
    from ..peval import PEval, Obj, Stage, Sym, Undecided as PUndecided, Raises as PRaises, mk_sum, show

    p = ctx.p
    res = RuleResult("CMP-EVAL", "CompositeTransform / InverseTransform evaluated with uninterpreted parts equal the composition: parts in the order given, inverses in reverse order, every log-det summed once")
    comp = p.find_class("CompositeTransform", "nflows.transforms.base")
    invt = p.find_class("InverseTransform", "nflows.transforms.base")
    x, cx = ("x",), ("ctx",)
    ks = range(1, 8) if getattr(ctx, "tier", "quick") == "thorough" else (1, 2, 3, 4)
    configs = [(k, list(range(1, k + 1))) for k in ks] + [(3, [1, 2, 1]), (4, [1, 2, 2, 1]), (2, [1, 1])]  # the same instance used twice
    from ..peval import MList

    # the parts arrive in a plain list or in an nn.ModuleList the caller built (and goes on using)
    configs = [(k, names, "list") for k, names in configs] + [(k, list(range(1, k + 1)), "ModuleList") for k in (1, 2, 3)]
    for k, names, how in configs:
        methods = {nm: fi.node for nm, fi in comp.methods.items()}
        init = comp.methods.get("__init__")
        obj = Obj({}, methods)
        obj.cls_name = "CompositeTransform"
        pe = PEval(obj)
        pe.classes = {"CompositeTransform": methods, "InverseTransform": {nm: fi.node for nm, fi in invt.methods.items()}}
        stages_by_name = {}
        parts = [stages_by_name.setdefault(i, Stage("T%d" % i)) for i in names]
        if how == "ModuleList":
            parts = MList(parts)
        try:
            pe.call_method(init.node, [parts])
        except (PUndecided, PRaises) as ex:
            res.undecide("CompositeTransform.__init__ with %d parts" % k, str(ex))
            continue
        # the composite owns its sequence of parts: what the caller does with its container afterwards (a model
        # builder that keeps appending layers to one list and builds a flow at every depth) does not reach it
        held = [a for a, v in obj.attrs.items() if v is parts]
        if held:
            res.fail(Finding("CMP-EVAL", init.module, init.qualname, init.node, "CompositeTransform.__init__ given its parts in %s stores that very object as `self.%s`: the container stays the caller's, so a later `append` / `insert` / `layers[i] = ..` / `del` on it changes what an already built composite computes (forward is no longer the parts it was given, the log-det sum and the inverse follow a different chain, the state-dict keys change)" % ("an nn.ModuleList" if how == "ModuleList" else "a list", held[0]), construct="ownership of the parts container (%s argument)" % how))
            continue
        parts.append(Stage("T_later"))
        for direction in ("forward", "inverse"):
            fi = comp.methods.get(direction)
            if fi is None:
                raise AnalysisIncomplete("CompositeTransform.%s missing" % direction)
            order = list(names) if direction == "forward" else list(reversed(names))
            d = "fwd" if direction == "forward" else "inv"
            want = x
            lds = []
            for i in order:
                lds.append(("ld", "T%d" % i, d, want, cx))
                want = ("out", "T%d" % i, d, want, cx)
            want_ld = mk_sum(*lds)
            # evaluate twice on the same object: the second call must give the same term
            for call_no in (1, 2):
                try:
                    r = pe.call_method(fi.node, [Sym(x), Sym(cx)])
                    if not (isinstance(r, tuple) and len(r) == 2 and all(isinstance(v, Sym) for v in r)):
                        raise PUndecided("%s does not return a pair of tensors" % direction)
                except PUndecided as ex:
                    res.undecide("CompositeTransform.%s with %d parts" % (direction, k), str(ex))
                    break
                except PRaises as ex:
                    res.fail(Finding("CMP-EVAL", fi.module, fi.qualname, ex.node if ex.node is not None else fi.node, "%s with %d parts raises: %s" % (direction, k, ex.what), construct="%s with %d parts" % (direction, k)))
                    break
                if r[0].term != want or r[1].term != want_ld:
                    what = "outputs `%s` (the composition is `%s`)" % (show(r[0].term)[:110], show(want)[:110]) if r[0].term != want else "log-det `%s` (the composition gives `%s`)" % (show(r[1].term)[:110], show(want_ld)[:110])
                    res.fail(Finding("CMP-EVAL", fi.module, fi.qualname, fi.node, "CompositeTransform.%s with the parts %s%s, call %d on the same object: %s" % (direction, ["T%d" % i for i in names], " (an instance used more than once)" if len(set(names)) < len(names) else "", call_no, what), construct="%s with %d parts%s" % (direction, k, " (repeated instance)" if len(set(names)) < len(names) else "")))
                    break
            else:
                res.ok("CompositeTransform.%s with %d part(s) = %s" % (direction, k, show(want)[:80]))
    # nested wrappers: Composite([P, Inverse(Composite([A, B]))]) must be P, then B^-1, then A^-1 (and the
    # reverse chain for its inverse) -- whatever the constructors do with parts that are wrappers themselves
    classes = {"CompositeTransform": {nm: fi.node for nm, fi in comp.methods.items()}, "InverseTransform": {nm: fi.node for nm, fi in invt.methods.items()}}
    try:
        def build(cname, arg):
            o = Obj({}, classes[cname])
            o.cls_name = cname
            pe_ = PEval(o)
            pe_.classes = classes
            pe_.call_method(classes[cname]["__init__"], [arg])
            return o, pe_

        inner, _ = build("CompositeTransform", [Stage("TA"), Stage("TB")])
        inv, _ = build("InverseTransform", inner)
        outer, pe = build("CompositeTransform", [Stage("TP"), inv])
        chains = {"forward": [("TP", "fwd"), ("TB", "inv"), ("TA", "inv")], "inverse": [("TA", "fwd"), ("TB", "fwd"), ("TP", "inv")]}
        for direction, chain in chains.items():
            want, lds = x, []
            for nm, d in chain:
                lds.append(("ld", nm, d, want, cx))
                want = ("out", nm, d, want, cx)
            r = pe.call_method(classes["CompositeTransform"][direction], [Sym(x), Sym(cx)])
            if not (isinstance(r, tuple) and len(r) == 2 and all(isinstance(v, Sym) for v in r)):
                raise PUndecided("nested %s does not return a pair of tensors" % direction)
            fi = comp.methods[direction]
            if r[0].term != want or r[1].term != mk_sum(*lds):
                what = "outputs `%s` (the composition is `%s`)" % (show(r[0].term)[:130], show(want)[:130]) if r[0].term != want else "log-det `%s` (the composition gives `%s`)" % (show(r[1].term)[:130], show(mk_sum(*lds))[:130])
                res.fail(Finding("CMP-EVAL", fi.module, fi.qualname, fi.node, "CompositeTransform([TP, InverseTransform(CompositeTransform([TA, TB]))]).%s: %s" % (direction, what), construct="nested wrappers, %s" % direction))
            else:
                res.ok("nested Composite([P, Inverse(Composite([A, B]))]).%s = %s" % (direction, show(want)[:80]))
    except (PUndecided, PRaises) as ex:
        res.undecide("CompositeTransform([P, InverseTransform(CompositeTransform([A, B]))])", str(ex))
    # InverseTransform
    methods = {nm: fi.node for nm, fi in invt.methods.items()}
    obj = Obj({}, methods)
    pe = PEval(obj)
    try:
        pe.call_method(invt.methods["__init__"].node, [Stage("T")])
        for direction, d in (("forward", "inv"), ("inverse", "fwd")):
            fi = invt.methods.get(direction)
            r = pe.call_method(fi.node, [Sym(x), Sym(cx)])
            ok = isinstance(r, tuple) and len(r) == 2 and all(isinstance(v, Sym) for v in r) and r[0].term == ("out", "T", d, x, cx) and r[1].term == ("ld", "T", d, x, cx)
            if ok:
                res.ok("InverseTransform.%s = T.%s(inputs, context)" % (direction, "inverse" if d == "inv" else "forward"))
            else:
                res.fail(Finding("CMP-EVAL", fi.module, fi.qualname, fi.node, "InverseTransform.%s must return the wrapped transform's %s of (inputs, context); found `%s`" % (direction, "inverse" if d == "inv" else "forward", show(r[0].term)[:90] if isinstance(r, tuple) and r and isinstance(r[0], Sym) else r), construct="InverseTransform.%s" % direction))
    except (PUndecided, PRaises) as ex:
        res.undecide("InverseTransform", str(ex))
    return res


def multiscale_rule(ctx):
    """MS-SPLIT / MS-STATE by partial evaluation (nfstatic/peval.py): the object is *built* by
    evaluating __init__ and one add_transform call per stage on concrete integer shapes (each stage
    receives the hidden shape the previous call returned), then forward and inverse are evaluated
    with uninterpreted tensors and compared, term by term, with the composition the property
    prescribes.  Whatever bookkeeping attributes the class keeps, and however the loops are
    spelled, only the resulting terms count."""
    from ..peval import PEval, Obj, Stage, Sym, Undecided as PUndecided, Raises as PRaises, mk_sum, show

    p = ctx.p
    cls = p.find_class("MultiscaleCompositeTransform", "nflows.transforms.base")
    res = RuleResult("MS-SPLIT", "multiscale bookkeeping: constructor sizes = chunk sizes; forward emits the first chunk and carries the second; inverse concatenates [emitted, carried] on the same dim; flat pieces are sliced in stage order and consumed in reverse; the last stage is unsplit")
    st = RuleResult("MS-STATE", "the recorded shapes are written by the constructor and add_transform only")
    init = cls.methods.get("__init__")
    add = cls.methods.get("add_transform")
    fwd = cls.methods.get("forward")
    inv = cls.methods.get("inverse")
    for m, nm in ((init, "__init__"), (add, "add_transform"), (fwd, "forward"), (inv, "inverse")):
        if m is None:
            raise AnalysisIncomplete("MultiscaleCompositeTransform.%s missing" % nm)
    methods = {}
    for c in reversed(cls.repo_mro()):
        for nm, fi in c.methods.items():
            if c.name == "MultiscaleCompositeTransform" or nm.startswith("_") and not nm.startswith("__"):
                methods[nm] = fi.node

    def prod(shape):
        r = 1
        for v in shape:
            r *= v
        return r

    def spec_shapes(k, d, shape0):
        """(emitted shape, carried shape) per stage: torch.chunk(chunks=2) gives ceil / floor"""
        outs, hid = [], tuple(shape0)
        stage_in = []
        for i in range(1, k + 1):
            stage_in.append(hid)
            if i < k:
                o = list(hid)
                o[d - 1] = (hid[d - 1] + 1) // 2
                h = list(hid)
                h[d - 1] = hid[d - 1] // 2
                outs.append(tuple(o))
                hid = tuple(h)
            else:
                outs.append(tuple(hid))
        return outs, stage_in

    def spec_forward(k, x, cx, d):
        h = x
        pieces, lds = [], []
        for i in range(1, k + 1):
            t = ("out", "T%d" % i, "fwd", h, cx)
            lds.append(("ld", "T%d" % i, "fwd", h, cx))
            if i < k:
                pieces.append(("flat", ("ch", t, 0, d)))
                h = ("ch", t, 1, d)
            else:
                pieces.append(("flat", t))
        return (pieces[0] if len(pieces) == 1 else ("cat", tuple(pieces), "last")), mk_sum(*lds)

    def spec_inverse(k, y, cx, d, outs, stage_in=None, flat_variant=()):
        """`flat_variant`: stages at which [piece, carried] are concatenated flat and viewed with the
        stage's input shape afterwards -- the same tensor as concatenating the shaped pieces along
        the split dimension exactly when split_dim == 1 (row-major layout)"""
        cum = [0]
        for sh in outs:
            cum.append(cum[-1] + prod(sh))
        sl = {i: ("slice", y, cum[i - 1], cum[i]) for i in range(1, k + 1)}
        piece = {i: ("view", sl[i], tuple(outs[i - 1])) for i in range(1, k + 1)}
        lds = []
        arg = piece[k]
        h = ("out", "T%d" % k, "inv", arg, cx)
        lds.append(("ld", "T%d" % k, "inv", arg, cx))
        for i in range(k - 1, 0, -1):
            if i in flat_variant and d == 1 and stage_in is not None:
                arg = ("view", ("cat", (sl[i], ("flat", h)), "last"), tuple(stage_in[i - 1]))
            else:
                arg = ("cat", (piece[i], h), d)
            lds.append(("ld", "T%d" % i, "inv", arg, cx))
            h = ("out", "T%d" % i, "inv", arg, cx)
        return h, mk_sum(*lds)

    def first_difference(got, want, where="result"):
        if got == want:
            return None
        if isinstance(got, tuple) and isinstance(want, tuple) and got and want and got[0] == want[0] and len(got) == len(want):
            for g, w in zip(got[1:], want[1:]):
                dd = first_difference(g, w, "%s > %s" % (where, got[0]))
                if dd:
                    return dd
        return "%s: found `%s`, the composition requires `%s`" % (where, show(got)[:110], show(want)[:110])

    CONFIGS = [(1, 1, (6, 4)), (2, 1, (6, 4)), (3, 1, (9, 4)), (4, 1, (19,)), (2, 2, (4, 7)), (3, 2, (3, 9)), (2, 3, (2, 3, 5))]
    if getattr(ctx, "tier", "quick") == "thorough":
        # every stage count up to 6 x every split dimension up to 4 x odd and even sizes that keep
        # at least two entries along the split dimension at every stage
        CONFIGS = []
        for k in range(1, 7):
            for d in range(1, 5):
                for size in (2 ** k, 2 ** k + 1, 3 * 2 ** (k - 1) + 1, 2 ** (k + 1) - 1):
                    shape = [3, 2, 5, 2][: d - 1] + [size] + ([4] if d < 3 else [])
                    CONFIGS.append((k, d, tuple(shape)))
    n_dec = 0
    for k, d, shape0 in CONFIGS:
        tag = "%d stage(s), split_dim=%d, input shape %s" % (k, d, shape0)
        outs_want, stage_in = spec_shapes(k, d, shape0)
        obj = Obj({}, methods)
        pe = PEval(obj)
        try:
            pe.call_method(init.node, [k], {"split_dim": d})
            hid = tuple(shape0)
            returned = []
            for i in range(1, k + 1):
                r = pe.call_method(add.node, [Stage("T%d" % i), tuple(hid)])
                returned.append(r)
                if i < k:
                    if r is None:
                        raise PUndecided("add_transform returned no hidden shape for stage %d of %d" % (i, k))
                    hid = tuple(r)
        except PUndecided as ex:
            res.undecide("MultiscaleCompositeTransform construction with %s" % tag, str(ex))
            continue
        except PRaises as ex:
            res.fail(Finding("MS-SPLIT", add.module, add.qualname, ex.node if ex.node is not None else add.node, "building the transform with %s (a valid configuration: every stage has at least 2 entries along the split dimension) fails: %s" % (tag, ex.what), construct="construction, %s" % tag))
            continue
        # constructor bookkeeping: the hidden shapes handed on, and nothing after the last stage
        want_hidden = [tuple(s) for s in stage_in[1:]] + [None]
        got_hidden = [tuple(r) if r is not None else None for r in returned]
        if got_hidden != want_hidden:
            res.fail(Finding("MS-SPLIT", add.module, add.qualname, add.node, "add_transform hands on the hidden shapes %s for %s; torch.chunk(chunks=2) leaves floor(n/2) along the split dimension, i.e. %s (and nothing after the last stage)" % (got_hidden, tag, want_hidden), construct="hidden shapes, %s" % tag))
            continue
        for fi, nm in ((fwd, "forward"), (inv, "inverse")):
            try:
                r = pe.call_method(fi.node, [Sym(("x",)), Sym(("ctx",))])
                if not (isinstance(r, tuple) and len(r) == 2 and all(isinstance(v, Sym) for v in r)):
                    raise PUndecided("%s does not return a pair of tensors" % nm)
            except PUndecided as ex:
                res.undecide("MultiscaleCompositeTransform.%s with %s" % (nm, tag), str(ex))
                continue
            except PRaises as ex:
                res.fail(Finding("MS-SPLIT", fi.module, fi.qualname, ex.node if ex.node is not None else fi.node, "%s raises for %s: %s" % (nm, tag, ex.what), construct="%s with %s" % (nm, tag)))
                continue
            except RecursionError:
                res.undecide("MultiscaleCompositeTransform.%s with %s" % (nm, tag), "evaluation too deep")
                continue
            if nm == "forward":
                want_out, want_ld = spec_forward(k, ("x",), ("ctx",), d)
            else:
                want_out, want_ld = spec_inverse(k, ("x",), ("ctx",), d, outs_want)
                if d == 1 and (r[0].term, r[1].term) != (want_out, want_ld):
                    import itertools

                    for m in range(1, k):
                        for fv in itertools.combinations(range(1, k), m):
                            alt = spec_inverse(k, ("x",), ("ctx",), d, outs_want, stage_in, fv)
                            if (r[0].term, r[1].term) == alt:
                                want_out, want_ld = alt
            dd = first_difference(r[0].term, want_out, "outputs") or first_difference(r[1].term, want_ld, "log-det")
            if dd is None:
                n_dec += 1
                res.ok("%s with %s = %s" % (nm, tag, show(want_out)[:90]))
            else:
                res.fail(Finding("MS-SPLIT", fi.module, fi.qualname, fi.node, "%s is not the composition of its stages (evaluated with %s): %s" % (nm, tag, dd), construct="%s with %s" % (nm, tag)))
    if n_dec == 0 and not res.findings and not res.undecided:
        raise AnalysisIncomplete("MS-SPLIT: nothing decided")
    # MS-STATE: who may write the recorded shapes
    writers = []
    for fi in p.all_functions():
        if fi.cls is not cls or fi.name in ("__init__", "add_transform"):
            continue
        for n in ast.walk(fi.node):
            if isinstance(n, ast.Call) and isinstance(n.func, ast.Attribute) and n.func.attr in ("append", "extend", "insert", "pop", "clear", "remove", "reverse", "sort") and (attr_chain(n.func.value) or "").startswith("self._") and "shape" in (attr_chain(n.func.value) or ""):
                writers.append((fi, n))
            if isinstance(n, (ast.Assign, ast.AugAssign)):
                for t in (n.targets if isinstance(n, ast.Assign) else [n.target]):
                    root = t
                    while isinstance(root, ast.Subscript):
                        root = root.value
                    if (attr_chain(root) or "").startswith("self._") and "shape" in (attr_chain(root) or ""):
                        writers.append((fi, n))
    if writers:
        for fi, n in writers:
            st.fail(Finding("MS-STATE", fi.module, fi.qualname, n, "the recorded shapes are modified outside the constructor and add_transform"))
    else:
        st.ok("recorded shapes are written by __init__ / add_transform only")
    return [res, st]


def compose_call_rule(ctx):
    """CMP-CALL.  A part is applied in its forward direction by *calling the module* -- `part(x, context)` --, which
    is what runs the hooks torch attaches to a module: `weight_norm` / `spectral_norm` / parametrisations recompute
    the weight in a forward pre-hook, user hooks pre-process inputs or replace outputs.  `part.forward(x, context)`
    skips them, so the wrapper no longer computes what the part computes when called on its own (stale
    re-parametrised weights after an optimiser step, un-hooked results).  The inverse direction has no such
    protocol (`inverse` is a plain method).  Decided syntactically in the three wrapper classes: no reference to
    the attribute `forward` of anything but `super()`."""
    p = ctx.p
    res = RuleResult("CMP-CALL", "CompositeTransform, MultiscaleCompositeTransform and InverseTransform apply their parts' forward direction by calling the module (hooks and re-parametrisations run), never through `.forward`")
    n = 0
    for cname in ("CompositeTransform", "MultiscaleCompositeTransform", "InverseTransform"):
        cls = p.find_class(cname, "nflows.transforms.base")
        if cls is None:
            raise AnalysisIncomplete("class %s not found" % cname)
        for mname, fi in cls.methods.items():
            n += 1
            for x in ast.walk(fi.node):
                if isinstance(x, ast.Attribute) and x.attr == "forward" and isinstance(x.ctx, ast.Load):
                    recv = x.value
                    if isinstance(recv, ast.Call) and isinstance(recv.func, ast.Name) and recv.func.id == "super":
                        continue
                    if isinstance(recv, ast.Name) and recv.id in ("self", "cls") and mname != "forward":
                        continue  # the wrapper's own forward, e.g. from __call__-like helpers
                    res.fail(Finding("CMP-CALL", fi.module, fi.qualname, x, "%s.%s reaches a part through `%s` instead of calling the module: torch's forward pre-hooks and hooks of the part (weight_norm / spectral_norm re-parametrisations, user hooks) do not run, so the wrapper's result differs from the part's own `part(x)` whenever such a hook matters -- and the composite is then not the composition of its parts" % (cname, mname, norm_text(x)[:50]), construct="direct .forward of a part in %s.%s" % (cname, mname)))
    if n < 8:
        raise AnalysisIncomplete("CMP-CALL: %d wrapper methods examined (< 8)" % n)
    res.ok("%d wrapper methods: parts are called, not `.forward`-ed" % n, nontrivial=False)
    return res


register(
    "C08",
    [compose_eval_rule, thread_rule, order_rule, swap_rule, multiscale_rule, compose_call_rule],
    "CMP-EVAL: CompositeTransform (built by evaluating __init__ on k uninterpreted parts, k = 1..4) and InverseTransform are "
    "partially evaluated; forward must be T_k(...T_1(x)) and inverse T_1^-1(...T_k^-1(x)) with each part's log-det summed once, "
    "on the first and on the second call of the same object. CMP-THREAD: symbolic expansion of CompositeTransform._cascade: the returned outputs are component 0 of the loop function "
    "applied to the running outputs with the context, the returned log-det is zeros plus component 1 of the same call, and the "
    "loop iterates the given sequence in order. CMP-ORDER: forward passes the stored ModuleList, inverse a sequence that is "
    "provably (t.inverse for t in reversed list). CMP-SWAP: InverseTransform resolves forward to the wrapped inverse and vice "
    "versa with arguments passed through. MS-SPLIT / MS-STATE: pair rule constructor <-> forward <-> inverse of the multiscale "
    "transform: recorded sizes (ceil, floor) at index split_dim-1 equal torch.chunk's sizes at dim split_dim; forward emits the "
    "first chunk and carries the second; inverse concatenates [emitted, carried] on the same dim; flat pieces are sliced at the "
    "cumulative recorded sizes in stage order and consumed in reverse; the last stage is unsplit in all three places; every "
    "stage's log-det is accumulated; _output_shapes is appended once per add_transform only. Numerical equality with "
    "hand-chained parts then follows from the structure given T-OPS.",
    [T_OPS, A_API, "torch.chunk(chunks=2) gives sizes (ceil(n/2), floor(n/2))"],
)
