"""C12 -- batch items are evaluated independently in evaluation mode.

The mechanisms by which a row can leak into another are finite and structural; each gets a
rule.  A mixing mechanism that is none of them (e.g. inside a user network) is not seen.
"""

import ast

from ..astutil import attr_chain, const_number
from ..entries import enumerate_entries, entry_args
from ..interp import Interp, OBJ, E, AV, T, NUM, all_ann
from ..model import AnalysisIncomplete, norm_text, stmt_of
from ..report import Finding, RuleResult
from ..taint import TaintDomain
from . import register, A_NET, A_UMNN, T_OPS, T_NN
from .c14 import _reduces_batch, batchnorm_flow_rule


BATCH_ORDER_OPS = {"unique", "unique_consecutive", "sort", "argsort", "topk", "kthvalue", "median", "mode", "cumsum", "cumprod", "cummax", "cummin", "logcumsumexp", "flip", "roll"}


class BatchDomain(TaintDomain):
    """IN: depends on the given rows (inputs / context); ('BRED', site): a reduction whose
    reduced axes include the batch axis (or a global reduction) of an IN-dependent tensor."""

    def __init__(self):
        self.sites = {}
        self.branches = []
        self.state_stores = []

    def src_arg(self, func, pname):
        return {"IN"}

    def xfer(self, interp, op, info, anns, recv, args, kwargs, node):
        out = set(anns)
        rng = info.get("rng")
        if rng:
            active = True
            if rng == "mode":
                # F.dropout(input, p=0.5, training=True, inplace=False): the default draws a mask
                tr = kwargs.get("training", args[1] if len(args) > 1 and recv is not None else (args[2] if len(args) > 2 else None))
                pr = kwargs.get("p", args[0] if args and recv is not None else (args[1] if len(args) > 1 else None))
                if tr is not None and tr.kind == "const" and tr.data is False:
                    active = False
                # training=self.training under the evaluation-mode scenario
                tnode = next((k.value for k in getattr(node, "keywords", []) if k.arg == "training"), None)
                if tnode is None and isinstance(node, ast.Call):
                    pos = 1 if recv is not None and not (isinstance(node.func, ast.Attribute) and isinstance(node.func.value, ast.Name) and node.func.value.id in ("F", "torch")) else 2
                    tnode = node.args[pos] if len(node.args) > pos else None
                if tnode is not None and getattr(interp, "assume", {}).get(norm_text(tnode)) is False:
                    active = False
                if pr is not None and pr.kind == "const" and pr.data == 0:
                    active = False
            if active:
                fi = interp.frame.func
                site = ("RNG", fi.module.relpath, fi.qualname, norm_text(stmt_of(node) or node)[:90])
                self.sites.setdefault(site, (fi, node, op))
                out.add(site)
        # operations that reorder / merge / accumulate *along* an axis: over the batch axis (dim 0, or no dim: the
        # flattened tensor) the position and value of a row's result depend on the other rows present
        if op in BATCH_ORDER_OPS and "IN" in anns and recv is not None and recv.kind in ("tensor", "top"):
            d = kwargs.get("dim")
            if d is None and args:
                d = next((a for a in args if a.kind == "const" and isinstance(a.data, int) and not isinstance(a.data, bool)), None) if op not in ("topk", "kthvalue") else (args[1] if len(args) > 1 else None)
            along_batch = d is None or (d.kind == "const" and d.data == 0)
            if op in ("unique", "unique_consecutive") and d is None:
                along_batch = True
            if op in ("sort", "argsort", "cumsum", "cumprod", "cummax", "cummin", "logcumsumexp", "topk", "kthvalue", "median", "mode", "flip", "roll") and d is None and op not in ("flip", "roll"):
                along_batch = op in ("median", "mode")  # sort / argsort / cum* default to the last axis
            if op in ("flip", "roll"):
                dd = kwargs.get("dims", d)
                along_batch = dd is not None and ((dd.kind == "const" and dd.data == 0) or (dd.kind in ("tuple", "list") and any(getattr(x, "kind", None) == "const" and x.data == 0 for x in (dd.data if dd.kind == "tuple" else (dd.data[0] or [])))))
            if along_batch:
                fi = interp.frame.func
                site = ("BRED", fi.module.relpath, fi.qualname, norm_text(stmt_of(node) or node)[:90])
                self.sites.setdefault(site, (fi, node, op))
                out.add(site)
        if info.get("red") and "IN" in anns and recv is not None and recv.kind in ("tensor", "top") and _reduces_batch(op, recv, args, kwargs):
            fi = interp.frame.func
            site = ("BRED", fi.module.relpath, fi.qualname, norm_text(stmt_of(node) or node)[:90])
            self.sites.setdefault(site, (fi, node, op))
            out.add(site)
        return out

    def summary(self, interp, fi, bound, args, kwargs, node):
        # sum_except_batch reduces exactly range(num_batch_dims, ndim) (its body is checked by
        # C20 UT-RESHAPE): it touches the batch axis iff num_batch_dims is 0.
        if fi.name == "sum_except_batch" and fi.module.name == "nflows.utils.torchutils" and args:
            nb = kwargs.get("num_batch_dims", args[1] if len(args) > 1 else None)
            ann = set(all_ann(self, args[0]))
            if nb is not None and nb.kind == "const" and nb.data == 0 and "IN" in ann:
                f = interp.frame.func
                site = ("BRED", f.module.relpath, f.qualname, norm_text(stmt_of(node) or node)[:90])
                self.sites.setdefault(site, (f, node, "sum_except_batch(num_batch_dims=0)"))
                ann.add(site)
            return T(frozenset(ann))
        return None

    def on_branch(self, interp, test_av, node):
        labels = [l for l in all_ann(self, test_av) if isinstance(l, tuple) and l[0] == "BRED"]
        if labels:
            self.branches.append((interp.frame.func, node, labels))

    # a batch statistic written into the module's own tensors / attributes in evaluation mode:
    # every later read of that state (this call's remaining statements included) makes a row's
    # result depend on the other rows of the batch that was reduced
    def _state_store(self, interp, chain, value, node):
        labels = [l for l in all_ann(self, value) if isinstance(l, tuple) and l[0] == "BRED"]
        if labels and chain and chain.startswith("self."):
            self.state_stores.append((interp.frame.func, node, chain, labels))

    def on_write(self, interp, how, target, value, node):
        if how in ("data", "attr", "subscript"):
            for t in getattr(node, "targets", [getattr(node, "target", None)]):
                base = t
                while isinstance(base, ast.Subscript):
                    base = base.value
                if isinstance(base, ast.Attribute):
                    self._state_store(interp, attr_chain(base), value, node)
        elif how.startswith("method:") and isinstance(node, ast.Call):
            recv = node.func.value if isinstance(node.func, ast.Attribute) else (node.args[0] if node.args else None)
            if isinstance(node.func, ast.Attribute) and isinstance(node.func.value, ast.Name) and node.func.value.id in ("torch", "F") and node.args:
                recv = node.args[0]
            while isinstance(recv, ast.Subscript):
                recv = recv.value
            if isinstance(recv, ast.Attribute):
                self._state_store(interp, attr_chain(recv), value, node)

    def on_attr_store(self, interp, obj, attr, value, node):
        if interp.frame.func.name == "__init__":
            return
        for t in getattr(node, "targets", [getattr(node, "target", None)]):
            if isinstance(t, ast.Attribute):
                self._state_store(interp, attr_chain(t), value, node)


GIVEN_ROWS = {
    "transform": {"forward", "inverse"},
    "distribution": {"log_prob", "_log_prob", "transform_to_noise"},
    "module": {"forward", "log_prob"},
    "spline": None,
}


def analyse(p):
    dom = BatchDomain()
    it = Interp(p, dom, assume={"self.training": False})
    per_entry = []
    for e in enumerate_entries(p):
        allowed = GIVEN_ROWS.get(e.kind, set())
        if allowed is not None and e.func.name not in allowed:
            continue
        self_av = OBJ(e.cls) if e.cls is not None and not e.func.is_static else None
        r = it.run_function(e.func, self_av, entry_args(dom, e))
        per_entry.append((e, r))
    return dom, it, per_entry


def _leaves(v):
    from .c16 import _tensor_leaves

    return _tensor_leaves(v)


def _branch_allowed(node):
    """A test on a batch reduction may (a) guard a raise / be an assert, (b) be `if any(m):`
    guarding statements whose only effects are scatters through the same mask m."""
    if isinstance(node, ast.Assert):
        return "assert"
    if isinstance(node, ast.If):
        body_raises = all(isinstance(s, ast.Raise) for s in node.body) and not node.orelse
        if body_raises:
            return "raise guard"
        t = node.test
        m = None
        if isinstance(t, ast.Call):
            f = norm_text(t.func)
            if f in ("torch.any", "any") and len(t.args) == 1 and isinstance(t.args[0], ast.Name):
                m = t.args[0].id
            elif isinstance(t.func, ast.Attribute) and t.func.attr == "any" and isinstance(t.func.value, ast.Name) and not t.args:
                m = t.func.value.id
        if m is not None and not node.orelse:
            ok = True
            temps = set()
            for s in node.body:
                if not isinstance(s, ast.Assign):
                    ok = False
                    break
                for tg in s.targets:
                    for tt in (tg.elts if isinstance(tg, (ast.Tuple, ast.List)) else [tg]):
                        if isinstance(tt, ast.Name):
                            temps.add(tt.id)  # a temporary: must not be read after the `if`
                        elif not (isinstance(tt, ast.Subscript) and _first_index_name(tt) == m):
                            ok = False
            if ok and temps:
                # temporaries assigned under the guard must be dead outside it
                par = getattr(node, "_parent", None)
                after = []
                for field in ("body", "orelse"):
                    block = getattr(par, field, None)
                    if isinstance(block, list) and node in block:
                        after = block[block.index(node) + 1 :]
                for st in after:
                    for n in ast.walk(st):
                        if isinstance(n, ast.Name) and isinstance(n.ctx, ast.Load) and n.id in temps:
                            ok = False
            if ok:
                return "no-op when the mask is empty"
    return None


def _first_index_name(sub):
    sl = sub.slice
    if isinstance(sl, ast.Tuple) and sl.elts:
        sl = sl.elts[0]
    return sl.id if isinstance(sl, ast.Name) else None


def reduce_rule(ctx):
    p = ctx.p
    dom, it, per_entry = ctx.shared("batch", lambda: analyse(p))
    res = RuleResult("BM-REDUCE", "in evaluation mode no reduction over the batch axis (or global reduction) of a row-dependent tensor reaches a result or steers the computation")
    if len(per_entry) < 130:
        raise AnalysisIncomplete("BM-REDUCE: %d given-rows entry points (< 130 confirmed by hand)" % len(per_entry))
    flagged = set()
    for e, r in per_entry:
        bad = False
        for leaf in _leaves(r):
            for l in leaf.ann:
                if isinstance(l, tuple) and l[0] == "BRED":
                    fi, node, op = dom.sites[l]
                    bad = True
                    flagged.add(l)
                    res.fail(Finding("BM-REDUCE", fi.module, fi.qualname, stmt_of(node) or node, "a reduction over the batch (%s) of a row-dependent tensor reaches a result of %s in evaluation mode: row i then depends on the other rows" % (op, e.label), witness=[e.label]))
        if not bad:
            res.ok("%s: results carry no batch reduction" % e.label, nontrivial=bool(_leaves(r)))
    seen = set()
    for fi, node, labels in dom.branches:
        key = (fi.qualname, getattr(node, "lineno", 0))
        if key in seen:
            continue
        seen.add(key)
        why = _branch_allowed(node)
        if why:
            res.ok("%s:%s batch-wide test `%s` only as %s" % (fi.module.relpath, fi.qualname, norm_text(node.test)[:60], why))
        else:
            res.fail(Finding("BM-REDUCE", fi.module, fi.qualname, node, "control flow that changes what is computed for every row depends on a reduction over the whole batch"))
    seen_st = set()
    for fi, node, chain, labels in dom.state_stores:
        key = (fi.qualname, chain, norm_text(stmt_of(node) or node))
        if key in seen_st:
            continue
        seen_st.add(key)
        for l in labels:
            flagged.add(l)
        ops = ", ".join(sorted({dom.sites[l][2] for l in labels}))
        res.fail(Finding("BM-REDUCE", fi.module, fi.qualname, stmt_of(node) or node, "a reduction over the batch (%s) of a row-dependent tensor is written into the module state `%s` in evaluation mode: what is computed for a row then depends on the other rows of the batch the state was set from" % (ops, chain)))
    for site, (fi, node, op) in sorted(dom.sites.items(), key=str):
        if site not in flagged:
            res.ok("batch-wide reduction `%s` in %s reaches no result" % (site[3][:60], site[2]))
    res.notes.append("%d batch-reduction sites, %d batch-dependent branch tests" % (len(dom.sites), len(seen)))
    return res


# ---------------------------------------------------------------------------------------
# BM-MASK
# ---------------------------------------------------------------------------------------


def _mask_names(fnode):
    """Locals bound to boolean masks (comparisons and their &, |, ~ combinations)."""
    masks = set()
    changed = True

    def is_maskexpr(e):
        if isinstance(e, ast.Compare):
            return True
        if isinstance(e, ast.UnaryOp) and isinstance(e.op, ast.Invert):
            return is_maskexpr(e.operand)
        if isinstance(e, ast.BinOp) and isinstance(e.op, (ast.BitAnd, ast.BitOr)):
            return is_maskexpr(e.left) and is_maskexpr(e.right)
        if isinstance(e, ast.Name):
            return e.id in masks
        return False

    while changed:
        changed = False
        for n in ast.walk(fnode):
            if isinstance(n, ast.Assign) and len(n.targets) == 1 and isinstance(n.targets[0], ast.Name) and n.targets[0].id not in masks and is_maskexpr(n.value):
                masks.add(n.targets[0].id)
                changed = True
    return masks


def mask_rule(ctx):
    p = ctx.p
    res = RuleResult("BM-MASK", "in every masked gather/scatter all row-aligned operands and targets are indexed by the same mask")
    funcs = []
    for modname in ("nflows.transforms.splines.linear", "nflows.transforms.splines.quadratic", "nflows.transforms.splines.cubic", "nflows.transforms.splines.rational_quadratic"):
        mod = p.modules.get(modname)
        if mod is None:
            raise AnalysisIncomplete("module %s missing" % modname)
        funcs.extend(mod.functions.values())
    for cn in ("LogTanh",):
        c = p.find_class(cn, "nflows.transforms.nonlinearities")
        funcs.extend(c.methods.values())
    n_stmts = 0
    for fi in funcs:
        masks = _mask_names(fi.node)
        if not masks:
            continue
        tag = {}  # local -> mask it was gathered with

        def masks_in(expr, tag=tag, masks=masks):
            out = set()
            for n in ast.walk(expr):
                if isinstance(n, ast.Subscript):
                    m = _first_index_name(n)
                    if m in masks:
                        out.add(m)
                elif isinstance(n, ast.Name) and n.id in tag:
                    out.add(tag[n.id])
            return out

        for st in _stmts_in_order(fi.node.body):
            if not isinstance(st, (ast.Assign, ast.AugAssign)):
                continue
            targets = st.targets if isinstance(st, ast.Assign) else [st.target]
            used = masks_in(st.value)
            tmasks = set()
            for t in targets:
                for tt in (t.elts if isinstance(t, (ast.Tuple, ast.List)) else [t]):
                    if isinstance(tt, ast.Subscript):
                        m = _first_index_name(tt)
                        if m in masks:
                            tmasks.add(m)
            allm = used | tmasks
            if not allm:
                continue
            n_stmts += 1
            if len(allm) > 1:
                res.fail(Finding("BM-MASK", fi.module, fi.qualname, st, "one statement pairs values selected by different masks (%s): rows are matched with the wrong rows" % ", ".join(sorted(allm))))
            else:
                res.ok("%s: `%s` uses mask %s throughout" % (fi.qualname, norm_text(st)[:50], next(iter(allm))))
            # locals defined from a masked gather carry that mask
            if not tmasks and len(used) == 1:
                for t in targets:
                    if isinstance(t, ast.Name):
                        tag[t.id] = next(iter(used))
                    elif isinstance(t, ast.Tuple):
                        for e in t.elts:
                            if isinstance(e, ast.Name):
                                tag[e.id] = next(iter(used))
            elif not tmasks and not used:
                for t in targets:
                    if isinstance(t, ast.Name):
                        tag.pop(t.id, None)
    if n_stmts < 30:
        raise AnalysisIncomplete("BM-MASK: %d masked statements found (< 30; the count on the pinned tree is larger, the floor leaves room for merged call sites confirmed by hand)" % n_stmts)
    return res


def _stmts_in_order(stmts):
    for st in stmts:
        yield st
        for field in ("body", "orelse"):
            sub = getattr(st, field, None)
            if isinstance(sub, list) and sub and isinstance(sub[0], ast.stmt):
                yield from _stmts_in_order(sub)


# ---------------------------------------------------------------------------------------
# BM-ROWS: image code paths -- permute/reshape pairs
# ---------------------------------------------------------------------------------------


def _perm_of(call):
    if isinstance(call, ast.Call) and isinstance(call.func, ast.Attribute) and call.func.attr == "permute":
        vals = [const_number(a) for a in call.args]
        if all(v is not None for v in vals):
            return [int(v) for v in vals], call.func.value
    return None, None


ENTRY_LIKE = ("forward", "inverse", "_coupling_transform_forward", "_coupling_transform_inverse", "_coupling_transform", "_lu_forward_inverse", "_elementwise_forward", "_elementwise_inverse", "_elementwise")


def rows_findings(p, res=None):
    """BM-ROWS on the axis-layout algebra (nfstatic/axes.py): every image code path that
    permutes 4 / 5 axes is evaluated on its expanded return expression."""
    from ..axes import AxisEval, Mismatch, Unknown, image_env, show
    from ..symexp import paths_of, uwalk

    findings = []
    n = 0
    funcs = set()
    env0 = image_env()
    for fi in p.all_functions():
        if not fi.module.name.startswith("nflows.transforms") or ".UMNN" in fi.module.name:
            continue
        if not any(isinstance(x, ast.Call) and isinstance(x.func, ast.Attribute) and x.func.attr == "permute" for x in ast.walk(fi.node)) and not any(
            isinstance(x, ast.Call) and isinstance(x.func, ast.Attribute) and x.func.attr in ("reshape", "view") and len(x.args) == 4 for x in ast.walk(fi.node)
        ):
            # cheap pre-filter; helpers are inlined into their callers by the expansion
            if not any(isinstance(x, ast.Call) and isinstance(x.func, ast.Attribute) and isinstance(x.func.value, ast.Name) and x.func.value.id in ("self", "cls") and x.func.attr.startswith("_") for x in ast.walk(fi.node)):
                continue
        params = [a for a, _ in fi.params()]
        if "inputs" not in params:
            continue
        try:
            paths = paths_of(fi.node, {"self.training": False})
        except AnalysisIncomplete:
            continue
        for path in paths:
            if path.kind != "return" or path.ret is None:
                continue
            perms = [x for x in uwalk(path.ret) if isinstance(x, ast.Call) and isinstance(x.func, ast.Attribute) and x.func.attr == "permute" and len(x.args) in (4, 5) and all(const_number(a) is not None for a in x.args)]
            if not perms:
                # no permute left: an image path all the same when the 4-D inputs themselves are reshaped (a reshape
                # standing in for the permute is exactly what this rule is about)
                four = any(norm_text(x) in ("__component__(inputs.shape, 3)", "inputs.shape[3]", "inputs.size(3)") for x in uwalk(path.ret))
                direct = [x for x in uwalk(path.ret) if isinstance(x, ast.Call) and isinstance(x.func, ast.Attribute) and x.func.attr in ("reshape", "view") and norm_text(x.func.value) == "inputs"]
                any_permute = any(isinstance(x, ast.Call) and isinstance(x.func, ast.Attribute) and x.func.attr in ("permute", "movedim", "moveaxis", "transpose") for x in uwalk(path.ret))
                if not (four and direct) or any_permute:
                    continue  # (a permute of another arity -- the 6-axis squeeze -- is INV-CONFIG's and the squeeze rules')
            # the 2-D branch of a rank dispatch is not an image path
            if any((norm_text(raw) in ("len(inputs.shape) == 2", "inputs.dim() == 2", "inputs.ndim == 2") and pol) or (norm_text(raw) in ("len(inputs.shape) == 4", "inputs.dim() == 4", "inputs.ndim == 4") and not pol) for _et, raw, pol in path.conds):
                continue
            elts = path.ret.elts if isinstance(path.ret, ast.Tuple) else [path.ret]
            ev = AxisEval(env0)
            label = "%s [%s]" % (fi.qualname, ", ".join(("" if pol else "not ") + norm_text(raw)[:30] for _et, raw, pol in path.conds) or "-")
            lays = []
            bad = False
            for el in elts:
                try:
                    lays.append(ev.ev(el))
                except Mismatch as m:
                    findings.append(Finding("BM-ROWS", fi.module, fi.qualname, path.ret_node, "%s (image code path of %s)" % (m.msg, fi.qualname)))
                    bad = True
                    break
                except Unknown as u:
                    lays.append(None)
            funcs.add(fi.qualname)
            if bad:
                n += 1
                continue
            for call, argl in ev.row_calls:
                for lay in argl:
                    if lay and lay[0] and lay[0][0][0] != "B" and any(a[0] == "B" for g in lay for a in g):
                        findings.append(Finding("BM-ROWS", fi.module, fi.qualname, path.ret_node, "the rows handed to `%s` are laid out as %s: the batch axis is not the outermost one of the merged row axis, so consecutive rows belong to different batch items and the per-row computation (and its log-det, summed per item afterwards) mixes items" % (norm_text(call.func)[:40], show(lay))))
                        bad = True
            if fi.name in ENTRY_LIKE and len(elts) == 2:
                out_l, ld_l = lays
                if out_l is None:
                    if res is not None:
                        res.undecide(label, "cannot follow the layout of the returned outputs")
                    continue
                if out_l != env0["inputs"] and not bad:
                    findings.append(Finding("BM-ROWS", fi.module, fi.qualname, path.ret_node, "the outputs of %s are returned laid out as %s, not as the inputs' [B, C, H, W]: the merge of pixels into rows is not undone (values sit at other pixels / channels / items)" % (fi.qualname, show(out_l))))
                    bad = True
                if ld_l is not None and ld_l != (env0["inputs"][0],) and not bad:
                    findings.append(Finding("BM-ROWS", fi.module, fi.qualname, path.ret_node, "the log-abs-det of %s is returned laid out as %s: it must be one number per batch item [B]" % (fi.qualname, show(ld_l))))
                    bad = True
            n += 1
            if not bad and res is not None:
                res.ok("%s: %d permute(s), %d per-row call(s); outputs %s, log-det %s" % (label, len(perms), len(ev.row_calls), show(lays[0]) if lays and lays[0] is not None else "?", show(lays[1]) if len(lays) > 1 and lays[1] is not None else "?"))
    return findings, len(funcs)


def rows_rule(ctx):
    p = ctx.p
    res = RuleResult("BM-ROWS", "image code paths: every permute / reshape keeps the axes' memory order consistent (a reshape never stands in for a permute), rows handed to per-row code have the batch axis outermost, outputs come back as [B, C, H, W] and the log-det as [B]")
    seen = set()
    findings, n = rows_findings(p, res)
    for f in findings:
        key = (f.qualname if hasattr(f, "qualname") else "", f.message)
        if key in seen:
            continue
        seen.add(key)
        res.fail(f)
    if n < 3:
        raise AnalysisIncomplete("BM-ROWS: image code paths of %d functions evaluated (< 3; today: OneByOneConvolution._lu_forward_inverse, the two UMNN coupling hooks, PiecewiseCouplingTransform._coupling_transform)" % n)
    return res


def rng_rule(ctx):
    """BM-RNG: in evaluation mode no fresh random draw reaches a result of a given-rows entry
    point: a dropout mask or noise drawn per call makes a row's result depend on the call (its
    position in the batch, the generator state), not on the row."""
    p = ctx.p
    dom, it, per_entry = ctx.shared("batch", lambda: analyse(p))
    res = RuleResult("BM-RNG", "in evaluation mode no random draw (functional dropout with training left at its default, rand/randn/bernoulli/multinomial) reaches a result of forward / inverse / log_prob")
    seen = set()
    for e, r in per_entry:
        bad = False
        for leaf in _leaves(r):
            for l in leaf.ann:
                if isinstance(l, tuple) and l[0] == "RNG":
                    bad = True
                    if l in seen:
                        continue
                    seen.add(l)
                    fi, node, op = dom.sites[l]
                    res.fail(Finding("BM-RNG", fi.module, fi.qualname, stmt_of(node) or node, "`%s` draws random numbers in evaluation mode and the draw reaches the result of %s: rows are no longer a function of their own values (batch result != row-by-row result)" % (op, e.label)))
        if not bad:
            res.ok("%s: result free of evaluation-time randomness" % e.label, nontrivial=False)
    return res


def eval_stats_rule(ctx):
    r = batchnorm_flow_rule(ctx)
    r.rule = "BM-EVAL"
    for f in r.findings:
        f.rule = "BM-EVAL"
    r.description = "BatchNorm normalises with the running statistics in evaluation mode (shared with C14)"
    # only the evaluation-mode half belongs to C12
    r.findings = [f for f in r.findings if "evaluation" in f.construct or "inverse" in f.construct or "evaluation mode" in f.message]
    return r


def lead_rule(ctx):
    """LEAD-LAYOUT (shared with C04 / C05 / C18): a merged [rows x samples] axis is built, combined and split
    in one order -- otherwise the samples returned for context row i are drawn with other rows' parameters,
    i.e. a row's result depends on the rest of the batch."""
    from .layout import layout_rule

    return layout_rule(ctx)


def extnorm_rule(ctx):
    """BM-EXTNORM.  The conditioner networks use torch's own normalisation layers.  In evaluation mode
    nn.BatchNorm*d normalises with its running statistics -- per-row -- *unless* it was built with
    track_running_stats=False (then it always uses the statistics of the batch in hand), and
    nn.InstanceNorm*d / GroupNorm / LayerNorm never mix rows.  So every construction of a torch batch-norm
    layer in the repository leaves track_running_stats at its default (True) or passes the constant True
    (T-NN: the documented behaviour of these layers)."""
    p = ctx.p
    res = RuleResult("BM-EXTNORM", "every torch batch-norm layer built by the repository tracks running statistics (track_running_stats left True), so evaluation mode normalises each row with stored statistics")
    n = 0
    for fi in p.all_functions():
        if not fi.module.name.startswith("nflows."):
            continue
        for c in ast.walk(fi.node):
            if not isinstance(c, ast.Call):
                continue
            f = c.func
            last = f.attr if isinstance(f, ast.Attribute) else (f.id if isinstance(f, ast.Name) else "")
            if not (last.startswith("BatchNorm") or last in ("SyncBatchNorm", "LazyBatchNorm1d", "LazyBatchNorm2d")):
                continue
            r = p.resolve_expr(fi.module, f) if isinstance(f, (ast.Name, ast.Attribute)) else None
            if not (isinstance(r, tuple) and r[0] == "ext" and r[1].startswith("torch.nn.")):
                continue
            n += 1
            trs = next((k.value for k in c.keywords if k.arg == "track_running_stats"), c.args[4] if len(c.args) > 4 else None)
            mom = next((k.value for k in c.keywords if k.arg == "momentum"), None)
            if trs is None or (isinstance(trs, ast.Constant) and trs.value is True):
                res.ok("%s: %s with running statistics" % (fi.qualname, last))
            else:
                res.fail(Finding("BM-EXTNORM", fi.module, fi.qualname, c, "%s is built with track_running_stats=%s: in evaluation mode it then normalises with the statistics of the batch in hand, so what is computed for a row depends on the other rows" % (last, norm_text(trs))))
    if n < 4:
        raise AnalysisIncomplete("BM-EXTNORM: %d torch batch-norm constructions found (< 4; six on the pinned tree)" % n)
    return res


register(
    "C12",
    [reduce_rule, mask_rule, rows_rule, eval_stats_rule, rng_rule, lead_rule, extnorm_rule],
    "BM-REDUCE: taint analysis of every given-rows entry point (forward/inverse of every Transform, log_prob/_log_prob/"
    "transform_to_noise of every Distribution, forward/log_prob of the other modules, the spline functions) under the scenario "
    "self.training == False: a reduction with no dim or a constant dim containing 0 (and sum_except_batch(num_batch_dims=0)) of "
    "an input/context-dependent tensor is labelled; the label must reach no returned tensor, and a branch test carrying it must "
    "be a raise guard, an assert, or `if any(m):` whose body only scatters through m. BM-MASK: in the spline wrappers, "
    "cubic_spline and LogTanh every statement that gathers or scatters through boolean masks uses one mask throughout "
    "(locals carry the mask they were gathered with). BM-ROWS: in image code paths permute+reshape merges of pixels into the "
    "batch keep the batch axis leading and are undone by the matching reshape + inverse permutation. BM-EVAL: BatchNorm uses "
    "running statistics in evaluation mode. Only these enumerated mixing mechanisms are covered.",
    [A_NET, A_UMNN, T_OPS, T_NN, "nn.BatchNorm1d / nn.Dropout inside user networks follow their eval-mode semantics"],
)
