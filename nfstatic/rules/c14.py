"""C14 -- normalisation layers follow their documented life-cycle over every history."""

import ast

from ..astutil import attr_chain, const_number
from ..interp import Interp, OBJ, E, all_ann
from ..entries import param_value
from ..model import AnalysisIncomplete, PARAM, BUFFER, norm_text, stmt_of
from ..report import Finding, RuleResult
from ..taint import TaintDomain
from ..typestate import StoreExec, Hooks, UNK, explore, freeze, trace_to
from . import register, T_NN, T_OPS


# ---------------------------------------------------------------------------------------
# ActNorm typestate
# ---------------------------------------------------------------------------------------


class LifeHooks(Hooks):
    def __init__(self):
        self.wrote = set()
        self.mech = {}  # path -> {("rebind" | "inplace", statement)}

    def stored_value(self, ex, path, val, value_node, target, st, store, ctx):
        store["#w"] = store.get("#w", frozenset()) | {path}
        kind = "inplace" if isinstance(target, ast.Subscript) else "rebind"
        self.mech.setdefault(path, {})[kind] = st
        if path in ("initialized",):
            return val  # True / False / UNK
        return "data"

    def on_inplace(self, ex, path, meth, call, store, local, ctx):
        store["#w"] = store.get("#w", frozenset()) | {path}
        self.mech.setdefault(path, {})["inplace"] = call
        if path == "initialized":
            v = ex.const_of(call.args[0], local, store, ctx) if call.args else UNK
            store[path] = v
        else:
            store[path] = "data"

    def external_super(self, ex, name, args, store, ctx):
        if name == "train":
            store["training"] = args[0] if args else True
        return UNK


def _ctor_default(p, cls, attr):
    ai = p.attrs(cls).get(attr)
    if ai is None:
        raise AnalysisIncomplete("%s.%s is not created by the constructor" % (cls.name, attr))
    return ai


def _travels(ai):
    """Does the attribute travel in a state dict? (T-NN)"""
    if ai.kind == PARAM:
        return True
    if ai.kind == BUFFER:
        return ai.extra is True
    return False


def actnorm_rule(ctx):
    p = ctx.p
    cls = p.find_class("ActNorm", "nflows.transforms.normalization")
    res = RuleResult("ACT-LIFE", "typestate over all histories: ActNorm initialises exactly once, on the first training-mode forward, and the flag survives save/load")
    flag = _ctor_default(p, cls, "initialized")
    ls = _ctor_default(p, cls, "log_scale")
    sh = _ctor_default(p, cls, "shift")
    hooks = LifeHooks()
    ex = StoreExec(p, cls, ["training", "initialized", "log_scale", "shift"], hooks)
    # constructor value of the flag
    init_flag = UNK
    v = flag.value
    if isinstance(v, ast.Call) and v.args and isinstance(v.args[0], ast.Constant):
        init_flag = v.args[0].value
    elif isinstance(v, ast.Constant):
        init_flag = v.value
    if init_flag is UNK:
        raise AnalysisIncomplete("cannot read the constructor value of ActNorm.initialized")
    s0 = {"training": True, "initialized": bool(init_flag), "log_scale": "default", "shift": "default", "#inits": 0}
    travel = {"initialized": _travels(flag), "log_scale": _travels(ls), "shift": _travels(sh)}
    problems = {}

    def note(kind, msg, pre_fs, evname, node=None):
        problems.setdefault((kind, msg), (pre_fs, evname, node))

    EVENTS = ["train", "eval", "forward", "inverse", "save_load"]

    def step(s, ev):
        pre = dict(s)
        outs = []
        if ev in ("train", "eval"):
            hooks.wrote = set()
            m = cls.lookup_method("train")
            if m is None:
                s2 = dict(s)
                s2["training"] = ev == "train"
                outs = [(s2, "return")]
            else:
                outs = [(o.store, o.kind) for o in ex.run_method("train", {"mode": ev == "train"}, s)]
        elif ev in ("forward", "inverse"):
            s_in = dict(s)
            s_in["#w"] = frozenset()
            for o in ex.run_method(ev, {"inputs": UNK, "context": None}, s_in):
                st2 = dict(o.store)
                kind = o.kind
                wrote = set(st2.pop("#w", frozenset()))
                if wrote & {"log_scale", "shift"}:
                    st2["#inits"] = min(pre["#inits"] + 1, 2)
                outs.append((st2, kind))
                fs = freeze(pre)
                if kind == "raise":
                    continue
                if st2["#inits"] > 1:
                    note("ACT-ONCE", "data-dependent initialisation runs a second time", fs, ev)
                if st2["#inits"] > pre["#inits"]:
                    if not (ev == "forward" and pre["training"] is True):
                        note("ACT-WHEN", "initialisation is triggered by %s in %s mode; only the first training-mode forward may initialise" % (ev, "training" if pre["training"] else "evaluation"), fs, ev)
                    missing = [k for k in ("log_scale", "shift") if st2.get(k) != "data"]
                    if missing:
                        note("ACT-MUST", "initialisation does not set %s on every path" % ", ".join(missing), fs, ev)
                if ev == "forward" and pre["training"] is True:
                    if st2["initialized"] is not True:
                        note("ACT-FLAG", "after a training-mode forward the `initialized` flag is %r, not True" % (st2["initialized"],), fs, ev)
                    if pre["#inits"] == 0 and pre["initialized"] is False and st2["#inits"] != 1:
                        note("ACT-FIRST", "the first training-mode forward does not initialise", fs, ev)
                if ev == "inverse" or (ev == "forward" and pre["training"] is False):
                    if {k: v for k, v in st2.items()} != pre:
                        note("ACT-PURE", "%s in %s mode changes the layer state (%s)" % (ev, "training" if pre["training"] else "evaluation", ", ".join(sorted(k for k in st2 if st2[k] != pre[k]))), fs, ev)
            return [(a, ev) for a, _ in outs]
        elif ev == "save_load":
            s2 = {"training": True, "#inits": s["#inits"]}
            for k in ("initialized", "log_scale", "shift"):
                s2[k] = s[k] if travel[k] else s0[k]
            outs = [(s2, "return")]
        return [(a, ev) for a, _ in outs]

    seen, ntrans = explore([s0], lambda s: EVENTS, step)
    # ACT-SNAP: a state dict taken earlier shares storage with the live tensors.  If the one-shot
    # initialisation flips the flag in place while it rebinds the parameters' data, such a snapshot is left
    # saying "initialised" with untouched parameters: a layer restored from it never initialises.
    flag_m = hooks.mech.get("initialized", {})
    par_rebound = [k for k in ("log_scale", "shift") if "rebind" in hooks.mech.get(k, {})]
    if "inplace" in flag_m and par_rebound and travel["initialized"]:
        node = flag_m["inplace"]
        fwd_m = cls.lookup_method("_initialize") or cls.lookup_method("forward")
        res.fail(Finding("ACT-SNAP", fwd_m.module, fwd_m.qualname, stmt_of(node) or node, "the initialisation sets the `initialized` flag in place (`%s`) but rebinds the data of %s: a state dict taken before the first training batch shares the flag's storage, so it turns into `initialized = True` with the untouched initial parameters -- a layer restored from it never runs its data-dependent initialisation" % (norm_text(node)[:50], ", ".join(par_rebound)), construct="write mechanism of the initialisation"))
    elif flag_m:
        res.ok("ActNorm: the flag and the parameters are written by compatible mechanisms (flag %s; log_scale %s; shift %s)" % ("/".join(sorted(flag_m)), "/".join(sorted(hooks.mech.get("log_scale", {}))), "/".join(sorted(hooks.mech.get("shift", {})))))
    for (kind, msg), (fs, evname, node) in sorted(problems.items()):
        trace = trace_to(seen, fs) + [evname]
        fwd = cls.lookup_method("forward")
        target = fwd
        res.fail(Finding(kind, target.module, "ActNorm", cls.node, "history [%s]: %s" % ("; ".join(trace), msg), witness=trace, construct="class ActNorm life-cycle: " + kind))
    res.ok("ActNorm: %d abstract states, %d transitions; flag travels=%s, log_scale travels=%s, shift travels=%s; methods executed: %s" % (len(seen), ntrans, travel["initialized"], travel["log_scale"], travel["shift"], ",".join(sorted(ex.executed_methods))))
    for k, tr in travel.items():
        if tr:
            res.ok("ActNorm.%s is a parameter / persistent buffer" % k)
    far = max(seen, key=lambda k: len(trace_to(seen, k)))
    res.extra_coverage = {"actnorm_states": len(seen), "actnorm_transitions": ntrans, "actnorm_sample_history": trace_to(seen, far)}
    return res


# ---------------------------------------------------------------------------------------
# BatchNorm
# ---------------------------------------------------------------------------------------


class BNHooks(Hooks):
    def __init__(self):
        self.wrote = set()

    def stored_value(self, ex, path, val, value_node, target, st, store, ctx):
        self.wrote.add(path)
        return "updated" if path.startswith("running_") else val

    def on_inplace(self, ex, path, meth, call, store, local, ctx):
        self.wrote.add(path)
        store[path] = "updated"

    def on_write(self, ex, path, how, node, store, ctx, local):
        self.wrote.add(path)
        if path.startswith("running_"):
            store[path] = "updated"

    def external_super(self, ex, name, args, store, ctx):
        if name == "train":
            store["training"] = args[0] if args else True
        return UNK


def batchnorm_life_rule(ctx):
    p = ctx.p
    cls = p.find_class("BatchNorm", "nflows.transforms.normalization")
    res = RuleResult("BN-LIFE", "typestate: running statistics change only in training-mode forward; inverse is refused in training mode")
    for a in ("running_mean", "running_var"):
        ai = _ctor_default(p, cls, a)
        if not _travels(ai):
            res.fail(Finding("BN-LIFE", cls.module, "BatchNorm.__init__", ai.node, "running statistic '%s' does not travel in the state dict" % a))
        else:
            res.ok("BatchNorm.%s is a persistent buffer" % a)
    hooks = BNHooks()
    ex = StoreExec(p, cls, ["training", "running_mean", "running_var"], hooks)
    for mode in (True, False):
        s = {"training": mode, "running_mean": "init", "running_var": "init"}
        hooks.wrote = set()
        outs = ex.run_method("forward", {"inputs": UNK, "context": None}, s)
        normal = [o for o in outs if o.kind != "raise"]
        if not normal:
            res.fail(Finding("BN-LIFE", cls.module, "BatchNorm.forward", cls.lookup_method("forward").node, "forward raises on every path in %s mode" % ("training" if mode else "evaluation")))
            continue
        for o in normal:
            upd = {k for k in ("running_mean", "running_var") if o.store[k] == "updated"}
            if mode and upd != {"running_mean", "running_var"}:
                res.fail(Finding("BN-LIFE", cls.module, "BatchNorm.forward", cls.lookup_method("forward").node, "a training-mode forward does not update %s" % ", ".join(sorted({"running_mean", "running_var"} - upd)), construct="training-mode forward updates"))
            elif not mode and upd:
                res.fail(Finding("BN-LIFE", cls.module, "BatchNorm.forward", cls.lookup_method("forward").node, "an evaluation-mode forward updates %s" % ", ".join(sorted(upd)), construct="evaluation-mode forward updates"))
            else:
                res.ok("forward(training=%s): updates %s" % (mode, sorted(upd)))
        hooks.wrote = set()
        outs = ex.run_method("inverse", {"inputs": UNK, "context": None}, s)
        if mode:
            bad = [o for o in outs if o.kind != "raise" or "InverseNotAvailable" not in (o.value or "")]
            if bad:
                res.fail(Finding("BN-INV", cls.module, "BatchNorm.inverse", cls.lookup_method("inverse").node, "inverse in training mode must raise InverseNotAvailable on every path; outcomes: %s" % sorted({(o.kind, o.value) for o in outs}, key=str), construct="training-mode inverse"))
            else:
                res.ok("inverse(training=True) raises InverseNotAvailable on every path")
        else:
            if any(o.store != s for o in outs):
                res.fail(Finding("BN-LIFE", cls.module, "BatchNorm.inverse", cls.lookup_method("inverse").node, "inverse changes the layer state", construct="inverse state effect"))
            elif not any(o.kind != "raise" for o in outs):
                res.fail(Finding("BN-INV", cls.module, "BatchNorm.inverse", cls.lookup_method("inverse").node, "inverse is not available in evaluation mode", construct="evaluation-mode inverse"))
            else:
                res.ok("inverse(training=False) has no state effect and returns")
    # the refusal must come before any computation on the inputs
    inv = cls.lookup_method("inverse")
    first = [s for s in inv.node.body if not (isinstance(s, ast.Expr) and isinstance(s.value, ast.Constant))][0]
    if not (isinstance(first, ast.If) and "self.training" in norm_text(first.test) and any(isinstance(b, ast.Raise) for b in first.body)):
        res.notes.append("training-mode refusal is not the first statement of inverse (decided by the executor above)")
    return res


class BNTaint(TaintDomain):
    """Labels: IN inputs; BSTAT a reduction over the batch axis of an input-dependent tensor;
    RM / RV running statistics; W the learnt affine parameters; DET detached."""

    def __init__(self):
        self.writes = []

    def src_arg(self, func, pname):
        return {"IN"} if pname == "inputs" else ({"CTX"} if pname == "context" else set())

    def src_state(self, interp, path, attrinfo, node):
        a = path[-1] if path else ""
        if a == "running_mean":
            return {"RM"}
        if a == "running_var":
            return {"RV"}
        return {"W:" + a}

    def xfer(self, interp, op, info, anns, recv, args, kwargs, node):
        out = set(anns)
        if info.get("red") and "IN" in anns and _reduces_batch(op, recv, args, kwargs):
            out.add("BSTAT")
        if info.get("cut"):
            out.add("DET")
        return out

    def on_write(self, interp, how, target, value, node):
        if target.kind == "tensor" and (("RM" in target.ann) or ("RV" in target.ann)):
            self.writes.append((how, set(target.ann), set(all_ann(self, value)), node, interp.frame.in_nograd()))


def _dim_values(args, kwargs, pos):
    d = kwargs.get("dim")
    if d is None and len(args) > pos:
        d = args[pos]
    if d is None:
        return None
    if d.kind == "const" and isinstance(d.data, int):
        return [d.data]
    if d.kind == "list" and d.data[0] is not None and all(x.kind == "const" for x in d.data[0]):
        return [x.data for x in d.data[0]]
    if d.kind == "tuple" and all(x.kind == "const" for x in d.data):
        return [x.data for x in d.data]
    return "?"


def _reduces_batch(op, recv, args, kwargs):
    """Definite-error policy: a reduction counts as a batch reduction when it has no dim at
    all (global) or a constant dim list containing 0."""
    if op in ("min", "max") and args and args[0].kind == "tensor":
        return False  # two-tensor form: elementwise
    dims = _dim_values(args, kwargs, 0)
    if dims is None:
        return True
    if dims == "?":
        return False
    return 0 in dims


def batchnorm_flow_rule(ctx):
    p = ctx.p
    cls = p.find_class("BatchNorm", "nflows.transforms.normalization")
    res = RuleResult("BN-STATS", "training mode normalises with (and records, detached, by the momentum rule) the batch statistics; evaluation mode and inverse use the running statistics")
    fwd = cls.lookup_method("forward")
    inv = cls.lookup_method("inverse")
    for mode in (True, False):
        dom = BNTaint()
        it = Interp(p, dom, assume={"self.training": mode})
        args = [param_value(dom, fwd, pn, i, d) for i, (pn, d) in enumerate(fwd.params())]
        r = it.run_function(fwd, OBJ(cls), args)
        if r.kind != "tuple" or len(r.data) != 2:
            res.undecide("BatchNorm.forward(training=%s)" % mode, "does not return a pair")
            continue
        for idx, what in ((0, "outputs"), (1, "logabsdet")):
            ann = set(all_ann(dom, r.data[idx]))
            if mode:
                if "BSTAT" not in ann:
                    res.fail(Finding("BN-STATS", fwd.module, fwd.qualname, fwd.node, "in training mode the %s do not depend on the batch statistics of the current inputs" % what, construct="training-mode %s" % what))
                elif {"RM", "RV"} & ann:
                    res.fail(Finding("BN-STATS", fwd.module, fwd.qualname, fwd.node, "in training mode the %s depend on the running statistics" % what, construct="training-mode %s" % what))
                else:
                    res.ok("forward(training=True) %s use batch statistics" % what)
            else:
                if "BSTAT" in ann:
                    res.fail(Finding("BN-STATS", fwd.module, fwd.qualname, fwd.node, "in evaluation mode the %s depend on a statistic of the current batch" % what, construct="evaluation-mode %s" % what))
                elif not ({"RV"} <= ann) or (idx == 0 and "RM" not in ann):
                    res.fail(Finding("BN-STATS", fwd.module, fwd.qualname, fwd.node, "in evaluation mode the %s do not use the running statistics" % what, construct="evaluation-mode %s" % what))
                else:
                    res.ok("forward(training=False) %s use running statistics" % what)
        if mode:
            if not dom.writes:
                res.fail(Finding("BN-STATS", fwd.module, fwd.qualname, fwd.node, "no running-statistics update in training mode", construct="training-mode update"))
            for how, tann, vann, node, pc in dom.writes:
                which = "running_mean" if "RM" in tann else "running_var"
                if "add" in how or how in ("augassign", "method:copy_", "method:lerp_", "subscript"):
                    if "BSTAT" not in vann:
                        res.fail(Finding("BN-STATS", fwd.module, fwd.qualname, node, "the update of %s does not use the batch statistic of the current inputs" % which))
                    elif "DET" not in vann and not pc:
                        res.fail(Finding("BN-STATS", fwd.module, fwd.qualname, node, "the batch statistic stored into %s is not detached" % which))
                    else:
                        res.ok("%s absorbs the detached batch statistic (%s)" % (which, how))
        else:
            if dom.writes:
                for how, tann, vann, node, pc in dom.writes:
                    res.fail(Finding("BN-STATS", fwd.module, fwd.qualname, node, "running statistics are written in evaluation mode"))
    # inverse in evaluation mode
    dom = BNTaint()
    it = Interp(p, dom, assume={"self.training": False})
    args = [param_value(dom, inv, pn, i, d) for i, (pn, d) in enumerate(inv.params())]
    r = it.run_function(inv, OBJ(cls), args)
    if r.kind == "tuple" and len(r.data) == 2:
        for idx, what in ((0, "outputs"), (1, "logabsdet")):
            ann = set(all_ann(dom, r.data[idx]))
            if "BSTAT" in ann:
                res.fail(Finding("BN-STATS", inv.module, inv.qualname, inv.node, "inverse %s depend on a statistic of the current batch" % what, construct="inverse %s" % what))
            elif "RV" not in ann or (idx == 0 and "RM" not in ann):
                res.fail(Finding("BN-STATS", inv.module, inv.qualname, inv.node, "inverse %s do not use the running statistics" % what, construct="inverse %s" % what))
            else:
                res.ok("inverse %s use running statistics" % what)
    else:
        res.undecide("BatchNorm.inverse", "does not return a pair")
    return res


# -- momentum recurrence ------------------------------------------------------------------


def _poly_mul(a, b):
    out = {}
    for ka, va in a.items():
        for kb, vb in b.items():
            k = tuple(sorted(ka + kb))
            out[k] = out.get(k, 0) + va * vb
    return {k: v for k, v in out.items() if abs(v) > 1e-12}


def _poly_add(a, b, sign=1):
    out = dict(a)
    for k, v in b.items():
        out[k] = out.get(k, 0) + sign * v
    return {k: v for k, v in out.items() if abs(v) > 1e-12}


def _poly(e, atoms):
    """Polynomial over the atoms old / stat / m, or None if `e` has another shape."""
    v = const_number(e)
    if v is not None:
        return {(): float(v)} if v != 0 else {}
    txt = norm_text(e)
    for name, pred in atoms.items():
        if pred(e, txt):
            return {(name,): 1.0}
    if isinstance(e, ast.BinOp):
        l = _poly(e.left, atoms)
        r = _poly(e.right, atoms)
        if l is None or r is None:
            return None
        if isinstance(e.op, ast.Add):
            return _poly_add(l, r)
        if isinstance(e.op, ast.Sub):
            return _poly_add(l, r, -1)
        if isinstance(e.op, ast.Mult):
            return _poly_mul(l, r)
        return None
    if isinstance(e, ast.UnaryOp) and isinstance(e.op, ast.USub):
        r = _poly(e.operand, atoms)
        return None if r is None else _poly_mul({(): -1.0}, r)
    # `<default> if m is None else m`: the rule is about a momentum that was given
    if isinstance(e, ast.IfExp) and isinstance(e.test, ast.Compare) and len(e.test.ops) == 1 and isinstance(e.test.comparators[0], ast.Constant) and e.test.comparators[0].value is None:
        given = e.orelse if isinstance(e.test.ops[0], ast.Is) else (e.body if isinstance(e.test.ops[0], ast.IsNot) else None)
        default = e.body if isinstance(e.test.ops[0], ast.Is) else e.orelse
        if given is not None and _poly(e.test.left, atoms) == _poly(given, atoms) and _poly(given, atoms) is not None and const_number(default) is not None and 0 < const_number(default) <= 1:
            return _poly(given, atoms)
    if isinstance(e, ast.Call) and isinstance(e.func, ast.Attribute) and e.func.attr in ("detach", "clone", "float", "to") :
        return _poly(e.func.value, atoms)
    return None


def _update_poly(st, buf, statnames, atoms):
    """new value of buffer `buf` as a polynomial, for the update statement `st`."""
    old = {("old",): 1.0}
    if isinstance(st, ast.Expr) and isinstance(st.value, ast.Call):
        chain = []
        n = st.value
        while isinstance(n, ast.Call) and isinstance(n.func, ast.Attribute) and n.func.attr.endswith("_"):
            chain.append(n)
            n = n.func.value
        if attr_chain(n) != "self." + buf:
            return None
        cur = old
        for c in reversed(chain):
            m = c.func.attr
            args = [_poly(a, atoms) for a in c.args]
            if any(a is None for a in args):
                return None
            kw = {k.arg: _poly(k.value, atoms) for k in c.keywords}
            if m == "mul_" and len(args) == 1:
                cur = _poly_mul(cur, args[0])
            elif m == "add_" and len(args) >= 1:
                term = args[0]
                if kw.get("alpha") is not None:
                    term = _poly_mul(term, kw["alpha"])
                elif len(args) == 2:
                    term = _poly_mul(args[0], args[1])
                cur = _poly_add(cur, term)
            elif m == "sub_" and len(args) == 1:
                cur = _poly_add(cur, args[0], -1)
            elif m == "lerp_" and len(args) == 2:
                cur = _poly_add(cur, _poly_mul(args[1], _poly_add(args[0], cur, -1)))
            elif m == "copy_" and len(args) == 1:
                cur = args[0]
            else:
                return None
        return cur
    if isinstance(st, ast.AugAssign) and attr_chain(st.target) == "self." + buf:
        r = _poly(st.value, atoms)
        if r is None:
            return None
        if isinstance(st.op, ast.Add):
            return _poly_add(old, r)
        if isinstance(st.op, ast.Sub):
            return _poly_add(old, r, -1)
        if isinstance(st.op, ast.Mult):
            return _poly_mul(old, r)
        return None
    if isinstance(st, ast.Assign) and len(st.targets) == 1 and attr_chain(st.targets[0]) in ("self." + buf, "self." + buf + ".data"):
        return _poly(st.value, atoms)
    return None


def momentum_rule(ctx):
    """BN-MOMENTUM on the path-wise expansion of forward in training mode: every effect that
    writes a running buffer (in-place chain, augmented assignment, assignment -- directly or
    inside a private helper that receives the buffer) must compute (1 - m) * old + m * stat with
    one and the same m, `stat` being any expression of the inputs alone."""
    from ..symexp import paths_of, uwalk

    p = ctx.p
    cls = p.find_class("BatchNorm", "nflows.transforms.normalization")
    res = RuleResult("BN-MOMENTUM", "running statistics follow new = (1 - m) * old + m * stat for one and the same m")
    fwd = cls.lookup_method("forward")
    x = fwd.params()[0][0]
    want = {("old",): 1.0, ("m", "old"): -1.0, ("m", "stat"): 1.0}

    def is_stat(e):
        names = {n.id for n in uwalk(e) if isinstance(n, ast.Name)}
        chains = {attr_chain(n) for n in uwalk(e) if isinstance(n, ast.Attribute)}
        return x in names and not any(c and c.startswith("self.") and not c.startswith("self.eps") for c in chains)

    found = {}
    for path in paths_of(fwd.node, {"self.training": True}):
        if path.kind != "return":
            continue
        for eff in path.effects:
            for buf in ("running_mean", "running_var"):
                atoms = {
                    "old": lambda e, t, buf=buf: t == "self." + buf,
                    "m": lambda e, t: t == "self.momentum",
                    "stat": lambda e, t: isinstance(e, ast.AST) and is_stat(e),
                }
                st = None
                node = eff[1]
                if eff[0] == "expr" and isinstance(eff[2], ast.Call):
                    n = eff[2]
                    while isinstance(n, ast.Call) and isinstance(n.func, ast.Attribute) and n.func.attr.endswith("_") and not n.func.attr.endswith("__"):
                        n = n.func.value
                    if n is not eff[2] and attr_chain(n) == "self." + buf:
                        st = ast.Expr(value=eff[2])
                elif eff[0] == "aug" and attr_chain(eff[2]) == "self." + buf:
                    st = ast.AugAssign(target=eff[2], op=node.op, value=eff[3])
                elif eff[0] == "attr" and attr_chain(eff[2]) == "self" and eff[3] in (buf,):
                    st = ast.Assign(targets=[ast.Attribute(value=ast.Name(id="self", ctx=ast.Load()), attr=buf, ctx=ast.Store())], value=eff[4])
                if st is None:
                    continue
                key = (buf, norm_text(st)[:120])
                if key in found:
                    continue
                poly = _update_poly(st, buf, set(), atoms)
                found[key] = poly
                if poly is None:
                    res.undecide("%s update `%s`" % (buf, norm_text(st)[:70]), "update is not a polynomial in (old, stat, momentum)")
                    continue
                norm = {k: round(v, 9) for k, v in poly.items()}
                if norm == want:
                    res.ok("%s: new = (1-m)*old + m*stat" % buf)
                else:
                    res.fail(Finding("BN-MOMENTUM", fwd.module, fwd.qualname, node, "update of %s is %s, not (1 - momentum) * old + momentum * batch statistic" % (buf, _show(norm))))
    bufs = {k[0] for k in found}
    if bufs != {"running_mean", "running_var"}:
        res.undecide("BatchNorm.forward", "running-statistics updates found for %s only (expected both buffers)" % sorted(bufs))
    return res


def _show(poly):
    return " + ".join("%g*%s" % (v, "*".join(k) if k else "1") for k, v in sorted(poly.items())) or "0"


# ---------------------------------------------------------------------------------------
# NORM-LOAD: what a state-dict load does to the life-cycle state
# ---------------------------------------------------------------------------------------

LOAD_METHODS = ("_load_from_state_dict", "load_state_dict", "__setstate__")
HOOK_REGISTRARS = ("_register_load_state_dict_pre_hook", "register_load_state_dict_post_hook", "register_load_state_dict_pre_hook")
DICT_MUTATORS = ("update", "pop", "popitem", "setdefault", "clear", "__setitem__", "__delitem__")


def _key_suffix(e):
    """the constant tail of a state-dict key expression: prefix + "initialized", f"{prefix}initialized",
    "%sinitialized" % prefix, "initialized" -> "initialized"; None when the tail is not a constant"""
    if isinstance(e, ast.Constant) and isinstance(e.value, str):
        return e.value
    if isinstance(e, ast.BinOp) and isinstance(e.op, ast.Add):
        return _key_suffix(e.right)
    if isinstance(e, ast.BinOp) and isinstance(e.op, ast.Mod) and isinstance(e.left, ast.Constant) and isinstance(e.left.value, str):
        t = e.left.value
        i = max(t.rfind("%s"), t.rfind("%r"))
        return t[i + 2 :] if i >= 0 else t
    if isinstance(e, ast.JoinedStr) and e.values:
        last = e.values[-1]
        return last.value if isinstance(last, ast.Constant) and isinstance(last.value, str) else None
    if isinstance(e, ast.Call) and isinstance(e.func, ast.Attribute) and e.func.attr == "format" and isinstance(e.func.value, ast.Constant) and isinstance(e.func.value.value, str):
        t = e.func.value.value
        i = t.rfind("}")
        return t[i + 1 :] if i >= 0 else t
    return None


def _absent_guarded(node, sd, key_node, local_keys):
    """is the store dominated by `if <key> not in <sd>` (a default for checkpoints that lack the key:
    every state dict this code writes has it, DESIGN C15 PERS-*)?"""
    want = norm_text(key_node)
    cur = node
    while getattr(cur, "_parent", None) is not None:
        par = cur._parent
        if isinstance(par, ast.If):
            t = par.test
            in_body = any(cur is s for s in par.body)
            in_else = any(cur is s for s in par.orelse)
            if isinstance(t, ast.UnaryOp) and isinstance(t.op, ast.Not) and isinstance(t.operand, ast.Compare):
                c = t.operand
                if len(c.ops) == 1 and isinstance(c.ops[0], ast.In) and norm_text(c.comparators[0]) == sd and norm_text(c.left) == want and in_body:
                    return True
            if isinstance(t, ast.Compare) and len(t.ops) == 1 and norm_text(t.comparators[0]) == sd and norm_text(t.left) == want:
                if isinstance(t.ops[0], ast.NotIn) and in_body:
                    return True
                if isinstance(t.ops[0], ast.In) and in_else:
                    return True
        cur = par
    return False


def _load_hook_findings(p, cls, names, res, rule="NORM-LOAD"):
    """`names`: the parameters / persistent buffers whose saved values a load must bring back."""
    hooks = []
    for c in cls.repo_mro():
        for m in LOAD_METHODS:
            fi = c.methods.get(m)
            if fi is not None and all(fi is not h[0] for h in hooks):
                if cls.lookup_method(m) is fi:
                    hooks.append((fi, m))
        for fi in c.methods.values():
            for n in ast.walk(fi.node):
                if isinstance(n, ast.Call) and isinstance(n.func, ast.Attribute) and n.func.attr in HOOK_REGISTRARS:
                    tgt = n.args[0] if n.args else None
                    ch = attr_chain(tgt) if tgt is not None else None
                    hf = cls.lookup_method(ch[5:]) if ch and ch.startswith("self.") and ch.count(".") == 1 else None
                    if hf is None:
                        res.undecided.append("%s.%s registers a state-dict load hook `%s` that is not a method of the class" % (c.name, fi.name, norm_text(tgt) if tgt is not None else "?"))
                    else:
                        hooks.append((hf, n.func.attr))
    for fi, kind in hooks:
        fn = fi.node
        params = [a.arg for a in fn.args.posonlyargs + fn.args.args]
        if fi.node.args.vararg is not None and len(params) < 2:
            sd = None
        else:
            # bound hook methods and overrides take self first; the mapping comes next
            # (pre-hooks registered on the module: (state_dict, prefix, ...); post-hooks: (module, incompatible_keys))
            sd = params[1] if len(params) > 1 else None
        if kind == "register_load_state_dict_post_hook":
            sd = None
        label = "%s.%s" % (fi.cls.name if fi.cls is not None else "?", fi.name)
        n_checked = 0
        # (1) the mapping that is about to be loaded must keep the saved life-cycle entries
        if sd is not None:
            for n in ast.walk(fn):
                key = None
                how = None
                if isinstance(n, (ast.Assign, ast.AugAssign, ast.AnnAssign, ast.Delete)):
                    tgts = n.targets if isinstance(n, (ast.Assign, ast.Delete)) else [n.target]
                    for t in tgts:
                        if isinstance(t, ast.Subscript) and norm_text(t.value) == sd:
                            key, how = t.slice, "del" if isinstance(n, ast.Delete) else "store"
                        elif isinstance(t, ast.Name) and t.id == sd and not isinstance(n, ast.Delete):
                            res.undecided.append("%s rebinds the mapping `%s` it is about to load" % (label, sd))
                elif isinstance(n, ast.Call) and isinstance(n.func, ast.Attribute) and norm_text(n.func.value) == sd and n.func.attr in DICT_MUTATORS:
                    how = "." + n.func.attr
                    key = n.args[0] if n.args and n.func.attr in ("pop", "setdefault", "__setitem__", "__delitem__") else None
                    if n.func.attr == "setdefault":
                        n_checked += 1
                        continue  # only fills an absent key
                    if key is None:
                        res.fail(Finding(rule, fi.module, fi.qualname, n, "%s rewrites the state dict being loaded (`%s`): the saved life-cycle state of %s (%s) is not what the layer resumes with" % (label, norm_text(n)[:70], cls.name, ", ".join(names))))
                        continue
                if how is None:
                    continue
                n_checked += 1
                kexpr = key
                if isinstance(key, ast.Name):
                    defs = [a.value for a in ast.walk(fn) if isinstance(a, ast.Assign) and any(isinstance(t, ast.Name) and t.id == key.id for t in a.targets)]
                    if len(defs) == 1:
                        kexpr = defs[0]
                suffix = _key_suffix(kexpr)
                if suffix is None:
                    res.undecided.append("%s changes entry `%s` of the state dict being loaded; cannot tell which" % (label, norm_text(key)))
                    continue
                tail = suffix.split(".")[-1]
                if tail not in names:
                    continue
                if how == "store" and _absent_guarded(n, sd, key, None):
                    continue
                res.fail(Finding(rule, fi.module, fi.qualname, stmt_of(n) or n, "%s replaces the saved `%s` in the state dict being loaded (%s `%s`): after save + load the layer does not resume in the state it was saved in (e.g. a layer saved before its data-dependent initialisation claims to be initialised, or one saved after it initialises again)" % (label, tail, how, norm_text(n)[:80])))
        # (2) the load must still happen: the overridden method is delegated to on every normal path
        if kind in LOAD_METHODS:
            delegates = [n for n in ast.walk(fn) if isinstance(n, ast.Call) and isinstance(n.func, ast.Attribute) and n.func.attr == kind and isinstance(n.func.value, ast.Call) and norm_text(n.func.value.func) == "super"]
            if not delegates and kind != "__setstate__":
                res.fail(Finding(rule, fi.module, fi.qualname, fn, "%s never delegates to super().%s: parameters and buffers (%s) are not restored by a load" % (label, kind, ", ".join(names))))
            n_checked += 1
        # (3) no write of the restored attributes by the hook itself (after the restore its value wins)
        for n in ast.walk(fn):
            tgt = None
            if isinstance(n, (ast.Assign, ast.AugAssign)):
                for t in n.targets if isinstance(n, ast.Assign) else [n.target]:
                    base = t
                    while isinstance(base, ast.Subscript):
                        base = base.value
                    ch = attr_chain(base) if isinstance(base, ast.Attribute) else None
                    if ch and ch.startswith("self."):
                        tgt = ch
            elif isinstance(n, ast.Call) and isinstance(n.func, ast.Attribute) and n.func.attr.endswith("_") and not n.func.attr.startswith("_"):
                base = n.func.value
                while isinstance(base, ast.Subscript):
                    base = base.value
                ch = attr_chain(base) if isinstance(base, ast.Attribute) else None
                if ch and ch.startswith("self."):
                    tgt = ch
            if tgt is None:
                continue
            parts = tgt.split(".")
            if parts[1] in names:
                res.fail(Finding(rule, fi.module, fi.qualname, n, "%s writes `%s` while a state dict is loaded: the restored life-cycle state of %s is overridden (`%s`)" % (label, tgt, cls.name, norm_text(n)[:80])))
            n_checked += 1
        for n in ast.walk(fn):
            if isinstance(n, ast.Call) and isinstance(n.func, ast.Attribute) and isinstance(n.func.value, ast.Name) and n.func.value.id == "self" and cls.lookup_method(n.func.attr) is not None and n.func.attr not in LOAD_METHODS:
                res.undecided.append("%s calls self.%s() during a load; its effect on the restored state is not analysed" % (label, n.func.attr))
        res.ok("%s: load hook of %s keeps the saved %s (%d constructs checked)" % (label, cls.name, ", ".join(names), n_checked))
    return hooks


def load_rule(ctx):
    p = ctx.p
    res = RuleResult("NORM-LOAD", "a state-dict load brings back the saved life-cycle state: no load hook of a normalisation layer replaces the saved flag / statistics / parameters or skips the restore")
    total = 0
    for cname in ("ActNorm", "BatchNorm"):
        cls = p.find_class(cname, "nflows.transforms.normalization")
        if cls is None:
            raise AnalysisIncomplete("class %s not found" % cname)
        names = sorted(k for k, ai in p.attrs(cls).items() if _travels(ai))
        if not names:
            raise AnalysisIncomplete("%s has no parameter / persistent buffer" % cname)
        hooks = _load_hook_findings(p, cls, names, res)
        total += len(hooks)
        if not hooks:
            res.ok("%s defines no state-dict load hook: torch restores %s as saved (T-NN)" % (cname, ", ".join(names)))
    res.notes.append("%d load hooks analysed" % total)
    return res


def mode_rule(ctx):
    """NORM-MODE.  The life-cycle histories of this property (and the cache histories of C10) are sequences of
    `model.train()` / `model.eval()` calls on an *enclosing* module: torch delivers them to a layer by
    `Module.train(mode)` calling `child.train(mode)` for every child.  A class of the repository that
    overrides `train` (or `eval`) sits on that path for everything below it, so every returning path of the
    override must hand the call on -- `super().train(mode)` with the mode it was given -- whatever else it
    does.  An override that returns early "because the flag already has this value" stops the walk: a layer
    whose flag differs from its parent's is never reached again."""
    from ..symexp import paths_of, uwalk

    p = ctx.p
    res = RuleResult("NORM-MODE", "every override of train() / eval() in a module class hands the mode switch on to nn.Module.train on every returning path")
    n = 0
    for cls in p.all_classes():
        if not cls.is_nn_module():
            continue
        for mname in ("train", "eval"):
            fi = cls.methods.get(mname)
            if fi is None:
                continue
            n += 1
            params = [a for a, _ in fi.params()]
            mode = params[0] if params else None

            def delegates(path):
                exprs = ([path.ret] if path.ret is not None else []) + [part for eff in path.effects for part in eff[1:] if isinstance(part, ast.AST)]
                for ex in exprs:
                    for c in uwalk(ex):
                        if not (isinstance(c, ast.Call) and isinstance(c.func, ast.Attribute) and c.func.attr in ("train", "eval")):
                            continue
                        recv = c.func.value
                        is_super = isinstance(recv, ast.Call) and isinstance(recv.func, ast.Name) and recv.func.id == "super"
                        is_base = norm_text(recv) in ("nn.Module", "torch.nn.Module") or (isinstance(recv, ast.Name) and recv.id in {b.name for b in cls.repo_mro()[1:]})
                        if not (is_super or is_base):
                            continue
                        args = list(c.args[1:] if is_base and not is_super else c.args) + [k.value for k in c.keywords if k.arg == "mode"]
                        if c.func.attr == "eval":
                            if mname == "eval" or (mode is None):
                                return True
                            continue
                        if mname == "eval":
                            if args and isinstance(args[0], ast.Constant) and args[0].value is False:
                                return True
                            continue
                        if args and mode is not None and norm_text(args[0]) == mode:
                            return True
                        if not args and mode is None:
                            return True
                return False

            bad = None
            for path in paths_of(fi.node):
                if path.kind != "return" and path.kind != "fallthrough":
                    continue
                if not delegates(path):
                    bad = path
                    break
            if bad is None:
                res.ok("%s.%s hands the switch on to nn.Module on every returning path" % (cls.name, mname))
            else:
                cond = ", ".join("%s%s" % ("" if pol else "not ", norm_text(raw)[:40]) for et, raw, pol in bad.conds) or "always"
                node = getattr(bad, "ret_node", None) or fi.node
                res.fail(Finding("NORM-MODE", fi.module, fi.qualname, node, "%s.%s returns without calling super().%s(%s) when [%s]: the mode switch stops here and never reaches the sub-modules (a normalisation layer below keeps its old mode: no initialisation / no statistics update / inverse refused or offered in the wrong mode)" % (cls.name, mname, "train" if mname == "train" else "eval", mode or "", cond), construct="mode switch propagation of %s.%s" % (cls.name, mname)))
    if n < 1:
        raise AnalysisIncomplete("NORM-MODE: no train() / eval() override found (Linear.train is one on the pinned tree)")
    return res


def falsy_rule(ctx):
    """NORM-FALSY.  `x or default` / `if not x:` on a numeric hyper-parameter treats 0 like None.  Where the
    constructor admits 0 as a value (a momentum of 0 freezes the running statistics; the validation `0 <= m <= 1`
    says so), the update rule silently becomes another one for exactly that value.  Decided in normalization.py:
    no `self.<numeric hyper-parameter> or ..` and no bare truth test of one, unless the constructor rejects 0."""
    p = ctx.p
    res = RuleResult("NORM-FALSY", "no truthiness test (`x or default`, `if x:` / `if not x:`) of a numeric hyper-parameter of a normalisation layer that may legitimately be 0")
    n = 0
    for cname in ("BatchNorm", "ActNorm"):
        cls = p.find_class(cname, "nflows.transforms.normalization")
        if cls is None:
            raise AnalysisIncomplete("class %s not found" % cname)
        init = cls.lookup_method("__init__")
        numeric = set()
        if init is not None:
            for a, d in init.params():
                if d is not None and (const_number(d) is not None or (isinstance(d, ast.Constant) and d.value is None)) and not isinstance(getattr(d, "value", None), bool):
                    numeric.add(a)
            # rejected zero: `if p <= 0: raise` / `if not p > 0`
            for st in ast.walk(init.node):
                if isinstance(st, ast.If) and st.body and all(isinstance(b, ast.Raise) for b in st.body) and isinstance(st.test, ast.Compare) and len(st.test.ops) == 1 and isinstance(st.test.left, ast.Name) and isinstance(st.test.ops[0], ast.LtE) and const_number(st.test.comparators[0]) == 0:
                    numeric.discard(st.test.left.id)
        for m in cls.methods.values():
            for x in ast.walk(m.node):
                tests = []
                if isinstance(x, ast.BoolOp) and isinstance(x.op, ast.Or):
                    tests = x.values[:-1]
                elif isinstance(x, (ast.If, ast.IfExp, ast.While)):
                    t = x.test
                    while isinstance(t, ast.UnaryOp) and isinstance(t.op, ast.Not):
                        t = t.operand
                    tests = [t]
                for t in tests:
                    nm = t.attr if isinstance(t, ast.Attribute) and isinstance(t.value, ast.Name) and t.value.id == "self" else (t.id if isinstance(t, ast.Name) else None)
                    if nm is None or nm not in numeric:
                        continue
                    n += 1
                    res.fail(Finding("NORM-FALSY", m.module, m.qualname, x if isinstance(x, ast.stmt) else (stmt_of(x) or x), "`%s` is tested for truth (`%s`): the value 0, which the constructor accepts, is treated like None / unset, so the layer follows another update rule for exactly that setting (a momentum of 0 is supposed to leave the running statistics alone); test `is None`" % (norm_text(t), norm_text(x)[:60] if not isinstance(x, ast.stmt) else norm_text(x.test)[:60]), construct="truth test of %s.%s" % (cname, nm)))
    res.ok("BatchNorm / ActNorm: numeric hyper-parameters are not tested for truth (%d such tests)" % n, nontrivial=False)
    return res


register(
    "C14",
    [actnorm_rule, batchnorm_life_rule, batchnorm_flow_rule, momentum_rule, load_rule, mode_rule, falsy_rule],
    "Typestate analysis of ActNorm (abstract store training x initialized x {default,data}^2 x init-count) and BatchNorm with "
    "transfer functions derived by executing the bodies of forward/inverse/train/_initialize found in /repo, under all sequences "
    "of train/eval/forward/inverse/save+load (save+load modelled from the attribute kinds: parameters and persistent buffers "
    "travel, plain attributes and non-persistent buffers are reset). Properties on the fixpoint: at most one initialisation; it "
    "is triggered only by a training-mode forward; it must-writes log_scale, shift and the flag; the flag is True after any "
    "training-mode forward in every reachable state including after reload; inverse and evaluation-mode forward have no state "
    "effect. BatchNorm: buffers change only in training-mode forward, inverse raises InverseNotAvailable on every training-mode "
    "path; a taint analysis run once under the assumption self.training and once under its negation decides which statistics "
    "reach outputs/log-det and the buffer updates (batch statistic, detached); the update statements are normalised to a "
    "polynomial in (old, stat, momentum) and compared with (1-m)*old + m*stat. NORM-LOAD: a state-dict load hook of either class "
    "(_load_from_state_dict / load_state_dict / __setstate__ overrides, registered pre/post hooks) neither replaces a saved "
    "parameter / persistent-buffer entry (other than filling an absent key), nor skips the delegation to torch, nor writes the "
    "restored attributes. Zero-mean/unit-variance numerics are not decided.",
    [T_NN, T_OPS, A_API if False else "A-API: objects are used through their public API"],
)
